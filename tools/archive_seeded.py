#!/usr/bin/env python3
"""tools/archive_seeded.py <src dir> <id> <caught-by text>: copy a confirmed seeded change into /verif/seeded/<id>/"""
import json, os, shutil, sys
src, sid, caught = sys.argv[1], sys.argv[2], sys.argv[3]
dst = os.path.join(os.path.dirname(os.path.dirname(os.path.abspath(__file__))), "seeded", sid)
os.makedirs(dst, exist_ok=True)
for f in ("patch.diff", "demo.py"):
    shutil.copy(os.path.join(src, f), os.path.join(dst, f))
m = json.load(open(os.path.join(src, "meta.json")))
m["confirmed"] = ("in a scratch worktree of /repo HEAD: patch applies, tools/baseline_check.py reports all 340 stable tests passing, "
                  "demo.py exits 0 without and 1 with the patch (tools/eval_seeded.sh)")
m["detected_by"] = caught
json.dump(m, open(os.path.join(dst, "meta.json"), "w"), indent=1)
print("archived", sid)
