#!/bin/bash
# tools/eval_seeded.sh <seeded dir> <Cxx> [Cyy...]
# 1) confirm the mutant in a scratch worktree (tests still pass, demo passes without / fails with)
# 2) run the registered quick checks of the given properties on /repo with the patch applied, then undo.
d="$1"; shift
wt=/tmp/evalwt_$$
git -C /repo worktree add -q $wt HEAD || exit 9
cd $wt
PYTHONPATH=$wt/src /venv/bin/python $d/demo.py >/dev/null 2>&1; echo "demo without patch: exit=$? (want 0)"
if ! git apply $d/patch.diff 2>/dev/null && ! git apply -C1 $d/patch.diff; then echo "PATCH DOES NOT APPLY"; git -C /repo worktree remove --force $wt; exit 9; fi
PYTHONPATH=$wt/src /verif/tools/baseline_check.py $wt 2>&1 | grep -v WARNING
PYTHONPATH=$wt/src /venv/bin/python $d/demo.py >/dev/null 2>&1; echo "demo with patch: exit=$? (want 1)"
cd /verif
git -C /repo worktree remove --force $wt
git -C /repo apply $d/patch.diff 2>/dev/null || git -C /repo apply -C1 $d/patch.diff || exit 9
for prop in "$@"; do
  /verif/check "$prop" --tier quick --no-evidence > /tmp/eval_out_$$ 2>&1; rc=$?
  grep -E "VIOLATION|UNDECIDED|CHECKER-CRASH|tier=" /tmp/eval_out_$$ | cut -c1-300 | head -8
  echo "check $prop exit=$rc"
done
rm -f /tmp/eval_out_$$
git -C /repo checkout -- .
