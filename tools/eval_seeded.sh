#!/bin/bash
# tools/eval_seeded.sh <seeded dir> <Cxx> [Cyy...]
# In a PRIVATE scratch worktree of /repo HEAD (/repo itself is not touched):
# 1) confirm the change (demo passes without / fails with it, the 340 stable tests still pass)
# 2) run the quick checks of the given properties against that worktree (PYTHONPATH override, no evidence written).
d="$1"; shift
wt=/tmp/evalwt_$$
git -C /repo worktree add -q $wt HEAD || exit 9
trap "git -C /repo worktree remove --force $wt" EXIT
cd $wt
PYTHONPATH=$wt/src /venv/bin/python $d/demo.py >/dev/null 2>&1; echo "demo without patch: exit=$? (want 0)"
if ! git apply $d/patch.diff 2>/dev/null && ! git apply -C1 $d/patch.diff; then echo "PATCH DOES NOT APPLY"; exit 9; fi
PYTHONPATH=$wt/src /verif/tools/baseline_check.py $wt 2>&1 | grep -v WARNING
PYTHONPATH=$wt/src /venv/bin/python $d/demo.py >/dev/null 2>&1; echo "demo with patch: exit=$? (want 1)"
cd /verif
for prop in "$@"; do
  PYTHONPATH=$wt/src /verif/check "$prop" --tier quick --no-evidence > /tmp/eval_out_$$ 2>&1; rc=$?
  grep -E "VIOLATION|UNDECIDED|CHECKER-CRASH|tier=" /tmp/eval_out_$$ | cut -c1-300 | head -8
  echo "check $prop exit=$rc"
done
rm -f /tmp/eval_out_$$
