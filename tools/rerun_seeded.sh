#!/bin/bash
# tools/rerun_seeded.sh [id ...] : for each archived seeded change, apply it to a PRIVATE scratch worktree of /repo HEAD,
# run the quick check of its property against that worktree (PYTHONPATH override; /repo itself is not touched, no evidence
# is written), print the verdict lines. Default: all of /verif/seeded. Exit 1 if one is not reported with exit 1.
# (The registered commands of MANIFEST.json never set PYTHONPATH: they read /repo.)
cd /verif
ids="$@"; [ -z "$ids" ] && ids=$(ls seeded)
wt=/tmp/rerun_wt_$$
git -C /repo worktree add -q $wt HEAD || exit 9
trap "git -C /repo worktree remove --force $wt" EXIT
rc_all=0
for s in $ids; do
  p=$(jq -r .property seeded/$s/meta.json)
  git -C $wt checkout -q -- .
  git -C $wt apply /verif/seeded/$s/patch.diff 2>/dev/null || git -C $wt apply -C1 /verif/seeded/$s/patch.diff || { echo "== $s PATCH DOES NOT APPLY"; rc_all=1; continue; }
  out=$(PYTHONPATH=$wt/src ./check $p --no-evidence 2>&1); rc=$?
  echo "== $s ($p) exit=$rc $(echo "$out" | grep -cE '^VIOLATION') violation line(s), $(echo "$out" | grep -E '^VIOLATION' | grep -vc no-failing-input-found) replayed natively"
  echo "$out" | grep -E "^VIOLATION" | head -2 | cut -c1-260
  [ $rc -ne 1 ] && rc_all=1
done
exit $rc_all
