#!/bin/bash
# tools/rerun_seeded.sh [id ...] : apply each archived seeded change to /repo, run the quick check of its property,
# print the verdict lines, undo. Default: all of /verif/seeded. Exit 1 if one is not reported with exit 1.
cd /verif
ids="$@"; [ -z "$ids" ] && ids=$(ls seeded)
rc_all=0
for s in $ids; do
  p=$(jq -r .property seeded/$s/meta.json)
  git -C /repo apply /verif/seeded/$s/patch.diff || { echo "== $s PATCH DOES NOT APPLY"; rc_all=1; continue; }
  out=$(./check $p --no-evidence 2>&1); rc=$?
  git -C /repo checkout -- .
  echo "== $s ($p) exit=$rc $(echo "$out" | grep -cE '^VIOLATION') violation line(s), $(echo "$out" | grep -E '^VIOLATION' | grep -vc no-failing-input-found) replayed natively"
  echo "$out" | grep -E "^VIOLATION" | head -2 | cut -c1-260
  [ $rc -ne 1 ] && rc_all=1
done
exit $rc_all
