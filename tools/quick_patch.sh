#!/bin/bash
# tools/quick_patch.sh <patch.diff> <Cxx> [--unit U]: run a quick check against a PRIVATE worktree of /repo HEAD with the patch applied
# (no baseline run, no evidence; /repo itself is not touched)
p="$1"; shift
wt=/tmp/qpwt_$$
git -C /repo worktree add -q $wt HEAD || exit 9
trap "git -C /repo worktree remove --force $wt" EXIT
( cd $wt && { git apply "$p" 2>/dev/null || git apply -C1 "$p"; } ) || { echo "PATCH DOES NOT APPLY"; exit 9; }
cd /verif
PYTHONPATH=$wt/src ./check "$@" --tier quick --no-evidence 2>&1 | grep -E "VIOLATION|UNDECIDED|CHECKER-CRASH|tier=" | cut -c1-330 | head -12
echo "exit=${PIPESTATUS[0]}"
