#!/venv/bin/python
"""tools/model_probes.py -- native probes of library facts the models in /verif/pyvc rely on (the trusted
base). Not part of any registered check; run by hand after changing a model. Exit 0 iff every fact holds."""
import gzip, io, os, sys, tempfile, zlib
import numpy as np

bad = []
def fact(name, ok):
    print(("ok   " if ok else "FAIL ") + name)
    if not ok:
        bad.append(name)

td = tempfile.mkdtemp()
p = os.path.join(td, "x.gz")
open(p, "wb").close()
fact("gzip: a file of length 0 reads as b'' without error", gzip.open(p, "rb").read() == b"")
full = gzip.compress(b"hello world" * 50)
for k in (1, 5, 9, 10, 12, len(full) - 9, len(full) - 1):
    open(p, "wb").write(full[:k])
    try:
        gzip.open(p, "rb").read()
        fact(f"gzip: strict prefix of length {k} raises", False)
    except (EOFError, OSError, zlib.error) as e:
        fact(f"gzip: strict prefix of length {k} raises {type(e).__name__}", True)
a = np.array([0.5, 1.5, 2.5, -0.5, -1.5], dtype=np.float32)
fact("np.rint rounds half to even", np.rint(a).tolist() == [0.0, 2.0, 2.0, -0.0, -2.0])
fact("np.floor / np.ceil / np.trunc", np.floor(a).tolist() == [0, 1, 2, -1, -2] and np.ceil(a).tolist() == [1, 2, 3, 0, -1] and np.trunc(a).tolist() == [0, 1, 2, 0, -1])
fact("float32 array + python float stays float32 (NEP 50)", (a + 0.5).dtype == np.float32)
rgb = np.zeros((2, 3, 4), dtype=[("R", "u1"), ("G", "u1"), ("B", "u1")])
fact("structured array field access gives a view of the field", rgb["G"].shape == (2, 3, 4) and rgb["G"].base is not None)
fact("np.stack(axis=-1) adds a trailing axis", np.stack([rgb["R"], rgb["G"], rgb["B"]], axis=-1).shape == (2, 3, 4, 3))
# nibabel ArrayProxy: .dtype is the on-disk type; indexing gives the on-disk type for slope 1 / inter 0, float64 otherwise
import struct
import nibabel as nib
for dt in ("uint8", "int16", "uint16", "int32", "uint32", "float32", "float64"):
    for slope, inter in ((1.0, 0.0), (2.0, 1.0), (1.0, 5.0), (0.5, 0.0)):
        p = os.path.join(td, "a.nii")
        nib.save(nib.Nifti1Image(np.zeros((2, 2, 2), dtype=dt), np.eye(4)), p)
        b = bytearray(open(p, "rb").read())
        b[112:120] = struct.pack("<ff", slope, inter)
        open(p, "wb").write(b)
        pr = nib.load(p).dataobj
        want = dt if (slope, inter) == (1.0, 0.0) else "float64"
        fact(f"nibabel proxy {dt} slope={slope} inter={inter}: .dtype on disk, indexed value {want}",
             pr.dtype == np.dtype(dt) and pr[(0, 0, 0)].dtype == np.dtype(want) and (pr.slope, pr.inter) == (slope, inter))
sys.exit(1 if bad else 0)
