#!/bin/sh
# tools/try_patch.sh <patch.diff> <Cxx> [more props]: apply a patch to /repo, run the quick checks, undo.
p="$1"; shift
git -C /repo apply "$p" || { echo "patch does not apply"; exit 9; }
for prop in "$@"; do
  /verif/check "$prop" --tier quick --no-evidence 2>&1 | grep -v "^WARNING" | grep -E "VIOLATION|UNDECIDED|CHECKER-CRASH|tier=" | cut -c1-400
  echo "exit=$?"
done
git -C /repo checkout -- .
