#!/usr/bin/env python3
"""tools/gen_status.py: totals and per-property numbers from the evidence files (for DESIGN.md I.0 / I.2)"""
import glob, json
tot_ob = tot_fn = 0; wall = 0.0; solver = 0.0
for f in sorted(glob.glob('/verif/evidence/*.json')):
    d = json.load(open(f))
    cov = d.get("coverage", {})
    print(d.get("property_id"), "obligations", cov.get("obligations"), "discharged", cov.get("discharged"), "functions", len(cov.get("functions_under_contract", [])),
          "paths", cov.get("paths_explored"), "bounded", len(cov.get("bounded_standins", []) or []), "wall_s", d.get("wall_s"), "solver_s", cov.get("solver_time_s"))
    tot_ob += cov.get("obligations", 0) or 0; tot_fn += len(cov.get("functions_under_contract", [])); wall += d.get("wall_s", 0) or 0; solver += cov.get("solver_time_s", 0) or 0
print("TOTAL obligations", tot_ob, "functions-under-contract entries", tot_fn, "wall_s", round(wall), "solver_s", round(solver))
