#!/venv/bin/python
"""Run the repo's pinned suite (guard off) and compare with /root/.vp/BASELINE.json stable_pass."""
import json, os, subprocess, sys, tempfile, xml.etree.ElementTree as ET
repo = sys.argv[1] if len(sys.argv) > 1 else "/repo"
base = json.load(open("/root/.vp/BASELINE.json"))
fd, path = tempfile.mkstemp(suffix=".xml"); os.close(fd)
env = dict(os.environ); env.pop("NEUROGLANCER_SCRIPTS_VERIF", None)
subprocess.run(["/venv/bin/python", "-m", "pytest", "-ra", "-q", "-p", "no:cacheprovider", "--timeout=900",
                "--continue-on-collection-errors", f"--junitxml={path}"], cwd=repo, env=env,
               stdout=subprocess.DEVNULL, stderr=subprocess.DEVNULL)
passed = set()
for tc in ET.parse(path).getroot().iter("testcase"):
    if not any(ch.tag in ("failure", "error", "skipped") for ch in tc):
        passed.add(f"{tc.get('classname')}::{tc.get('name')}")
os.unlink(path)
want = set(base["stable_pass"])
missing = sorted(want - passed)
print(f"stable_pass={len(want)} passed_now={len(passed)} missing={len(missing)}")
for m in missing[:20]:
    print("  MISSING", m)
sys.exit(1 if missing else 0)
