#!/bin/bash
# tools/run_all.sh [--tier quick|thorough] : every registered check on the current /repo tree, one after the other
# (evidence files are rewritten); prints one summary line per property and the exit codes.
tier="${2:-quick}"
cd /verif
rc_all=0
for p in $(jq -r '.checks[].property_id' MANIFEST.json); do
  out=$(./check "$p" --tier "$tier" 2>&1); rc=$?
  echo "$p exit=$rc $(echo "$out" | grep -E "tier=" | tail -1)"
  echo "$out" | grep -E "^(VIOLATION|UNDECIDED|CHECKER-CRASH)" | cut -c1-250 | head -5
  [ $rc -ne 0 ] && rc_all=1
done
exit $rc_all
