#!/bin/bash
# tools/try_harmless.sh <patch.diff> <Cxx> [Cyy ...] : apply a behaviour-preserving edit to a private worktree of /repo HEAD,
# confirm the 340 stable tests still pass, run the quick checks against it. Expected: exit 0 (held) or 2 (undecided: the
# executor or a contract cannot follow the edit) -- never 1 (that would be a false alarm).
p="$1"; shift
wt=/tmp/harmless_wt_$$
git -C /repo worktree add -q $wt HEAD || exit 9
trap "git -C /repo worktree remove --force $wt" EXIT
git -C $wt apply "$p" || { echo "patch does not apply"; exit 9; }
(cd $wt && PYTHONPATH=$wt/src /verif/tools/baseline_check.py $wt 2>&1 | grep -v WARNING | tail -1)
for prop in "$@"; do
  out=$(cd /verif && PYTHONPATH=$wt/src ./check $prop --no-evidence --jobs 6 2>&1); rc=$?
  echo "$(basename $p) $prop exit=$rc $(echo "$out" | grep -E 'tier=' | tail -1 | cut -c1-160)"
  echo "$out" | grep -E "^(VIOLATION|UNDECIDED|CHECKER-CRASH)" | head -3 | cut -c1-260
done
