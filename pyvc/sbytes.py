"""pyvc.sbytes -- symbolic byte strings, struct and frombuffer/tobytes models (assumed contracts).

A byte string is a length (int | SInt) and an element function index -> byte value (SInt in
[0, 255]). Little-endian integer fields are composed arithmetically (b0 + 256*b1 + ...), so
facts stay in linear integer arithmetic. Non-integer dtypes (float32) go through an assumed
per-element bijection value <-> bit pattern (uninterpreted functions with the inverse law).
"""
import struct as _struct

import numpy as np

from . import core
from .core import And, Not, Or, RaiseSig, SBool, SInt, SReal, SU64, SBV, Unsupported, ctx, ite, smax, smin
from .arrays import SArr, norm_slice, ravel, unravel, sym_prod
from .interp import METHOD_MODELS, contains_sym, model

Z = core.Z


def _f32_codec(c):
    """assumed bijection between float32 values (as reals) and their 32-bit patterns"""
    enc = Z.Function("f32_bits", Z.RealSort(), Z.IntSort())
    dec = Z.Function("f32_val", Z.IntSort(), Z.RealSort())
    return enc, dec


class SBytes:
    _pyvc_symbolic = True

    def __init__(self, length, fn, mutable=False, regions=None):
        self.len = length
        self.fn = fn          # i -> SInt|int byte
        self.mutable = mutable
        # provenance of byte ranges: (start, length, kind, payload); kind "uint" (payload = value, length = size)
        # or "array" (payload = (SArr, order, itemsize)); lets read_uint() avoid byte-level div/mod arithmetic
        self.regions = list(regions or [])

    # ---- constructors
    @staticmethod
    def fresh(c, name, length=None, inp=True):
        f = c.func(name, Z.IntSort(), Z.IntSort(), inp=inp)
        if length is None:
            length = c.int(name + "_len", inp=inp)
            c.assume(length >= 0)

        def fn(i):
            t = f(core._i(i))
            ctx().assume(Z.And(t >= 0, t <= 255))
            return SInt(t)
        return SBytes(length, fn)

    @staticmethod
    def from_concrete(b):
        b = bytes(b)

        def fn(i):
            if isinstance(i, int):
                return b[i] if 0 <= i < len(b) else 0
            r = 0
            for k in range(len(b) - 1, -1, -1):
                r = ite(i == k, b[k], r)
            return r
        out = SBytes(len(b), fn)
        out.concrete = b
        return out

    @staticmethod
    def from_array(arr, order="C"):
        c = ctx()
        c.trust("ndarray.tobytes: elements in C (row-major) order, each little-endian")
        arr = arr.frozen()
        isz = arr.dtype.itemsize
        n = arr.size
        shape = arr.shape
        dt = arr.dtype
        big = (dt.byteorder == ">")
        if big:
            c.trust("ndarray.tobytes of a big-endian ('>') dtype: most significant byte first")

        def fn(i):
            if isz == 1:
                e = arr.elem(*unravel(i, shape, order))
                return _elem_to_uint(e, dt)
            q, r = c.divmod(i, isz) if isinstance(i, SInt) else divmod(i, isz)
            e = _elem_to_uint(arr.elem(*unravel(q, shape, order)), dt)
            return _byte_of(e, (isz - 1 - r) if big else r, isz)
        out = SBytes(n * isz, fn, regions=[(0, n * isz, "array", (arr, order, isz))])
        out.packed = (arr, order)
        return out

    packed = None

    # ---- protocol
    def length(self):
        return self.len

    def truth(self):
        return ctx().interp.truth(self.len != 0)

    def isinstance_of(self, ts):
        return any(t in (bytes, object) or (self.mutable and t is bytearray) for t in ts)

    def getitem(self, k):
        c = ctx()
        if isinstance(k, slice):
            lo, st, ln = norm_slice(k, self.len)
            if st != 1:
                raise Unsupported("bytes slice with step")
            src = self.fn
            out = SBytes(ln, lambda i: src(lo + i))
            if self.packed is not None and isinstance(lo, int) and lo == 0:
                pass
            return out
        i = ite(k < 0, k + self.len, k) if isinstance(k, SInt) else (k + self.len if k < 0 else k)
        if not c.interp.truth(And(i >= 0, i < self.len)):
            raise RaiseSig(IndexError("index out of range"))
        return self.fn(i)

    def __add__(self, o):
        o = as_sbytes(o)
        a, b = self, o
        n = a.len
        def fn(i):
            cnd = (i < n)
            if isinstance(cnd, bool):
                return a.fn(i) if cnd else b.fn(i - n)
            return ite(cnd, a.fn(i), b.fn(i - n))
        regs = list(a.regions) + [(n + st, ln, kd, pl) for (st, ln, kd, pl) in b.regions]
        return SBytes(a.len + b.len, fn, mutable=self.mutable, regions=regs)

    def __radd__(self, o):
        return as_sbytes(o).__add__(self)

    def eq_bytes(self, o, idx=None):
        """(len equal, for a fresh index: bytes equal) as a pair of SBools for proving equality"""
        o = as_sbytes(o)
        c = ctx()
        i = c.int("bi") if idx is None else idx
        return self.len == o.len, core.implies(And(i >= 0, i < self.len), self.fn(i) == o.fn(i))

    def iterate(self):
        if isinstance(self.len, SInt):
            raise Unsupported("iteration over bytes of symbolic length")
        return [self.fn(i) for i in range(self.len)]


def _pick(cond, a, b):
    if isinstance(cond, bool):
        return a if cond else b
    return ite(cond, a, b)


def as_sbytes(o):
    if isinstance(o, SBytes):
        return o
    if isinstance(o, (bytes, bytearray)):
        return SBytes.from_concrete(o)
    raise Unsupported(f"cannot treat {type(o).__name__} as bytes")


def _elem_to_uint(e, dt):
    """element value -> unsigned integer bit pattern (as SInt / int)"""
    dt = np.dtype(dt)
    if dt.kind == "u":
        if isinstance(e, SU64):
            return SInt(Z.BV2Int(e.t, False))
        if isinstance(e, SBV):
            return SInt(Z.BV2Int(e.t, False))
        return e
    if dt.kind == "i":
        return ite(e < 0, e + (1 << (8 * dt.itemsize)), e) if isinstance(e, SInt) else (e % (1 << (8 * dt.itemsize)))
    if dt.kind == "f" and dt.itemsize == 4:
        enc, dec = _f32_codec(ctx())
        ctx().trust("float32 value <-> bit pattern is a bijection (uninterpreted pair with inverse law)")
        t = enc(core._r(e))
        ctx().assume(Z.And(t >= 0, t < (1 << 32)))
        ctx().assume(dec(t) == core._r(e))
        return SInt(t)
    if dt.kind == "b":
        return ite(e, 1, 0) if isinstance(e, SBool) else int(e)
    raise Unsupported(f"bytes of dtype {dt}")


def _uint_to_elem(u, dt):
    dt = np.dtype(dt)
    if dt.kind == "u":
        return u
    if dt.kind == "i":
        half = 1 << (8 * dt.itemsize - 1)
        return ite(u >= half, u - 2 * half, u) if isinstance(u, SInt) else (u - 2 * half if u >= half else u)
    if dt.kind == "f" and dt.itemsize == 4:
        enc, dec = _f32_codec(ctx())
        ctx().trust("float32 value <-> bit pattern is a bijection (uninterpreted pair with inverse law)")
        return SReal(dec(core._i(u)))
    raise Unsupported(f"elements of dtype {dt} from bytes")


def _byte_of(e, r, isz):
    """byte number r (little-endian) of the unsigned integer e of isz bytes"""
    if isinstance(r, int):
        return (e >> (8 * r)) & 0xFF if isinstance(e, int) else SInt((core._i(e) / (1 << (8 * r))) % 256)
    out = None
    for k in range(isz - 1, -1, -1):
        b = (e >> (8 * k)) & 0xFF if isinstance(e, int) else SInt((core._i(e) / (1 << (8 * k))) % 256)
        out = b if out is None else ite(r == k, b, out)
    return out


def le_compose(fn, off, n):
    """little-endian unsigned integer made of bytes fn(off) .. fn(off+n-1)"""
    r = 0
    for k in range(n - 1, -1, -1):
        r = r * 256 + fn(off + k)
    return r


# --------------------------------------------------------------------------- numpy bridge

@model(np.frombuffer)
def m_frombuffer(interp, buf, dtype=float, count=-1, offset=0):
    c = ctx()
    if not isinstance(buf, SBytes):
        if contains_sym(buf):
            raise Unsupported("np.frombuffer of symbolic non-bytes")
        try:
            return np.frombuffer(buf, dtype=dtype, count=count, offset=offset)
        except Exception as e:
            raise RaiseSig(e)
    if count != -1 or offset != 0:
        raise Unsupported("np.frombuffer with count/offset")
    dt = np.dtype(dtype)
    isz = dt.itemsize
    c.trust("np.frombuffer: ValueError unless len(buf) is a multiple of the item size; elements little-endian in order")
    q, r = c.divmod(buf.len, isz) if isinstance(buf.len, SInt) else divmod(buf.len, isz)
    if not interp.truth(r == 0):
        raise RaiseSig(ValueError("buffer size must be a multiple of element size"))
    fn = buf.fn
    packed = buf.packed
    if packed is not None and packed[0].dtype.itemsize == isz and packed[0].dtype.kind == dt.kind \
            and (isz == 1 or (packed[0].dtype.byteorder == ">") == (dt.byteorder == ">")):
        # bytes produced by tobytes() of an array with the same item size: element k of the result
        # is element k (in tobytes order) of that array -- by lemma:le-bytes-roundtrip
        # (compose(bytes(e)) == e), proved separately for each item size.
        src, order = packed
        c.trust("lemma:le-bytes-roundtrip (little-endian bytes of e recompose to e), proved as a separate unit")

        def elem_packed(i):
            return src.elem(*unravel(i, src.shape, order))
        return SArr.from_fn(elem_packed, (q,), dt, writeable=False)

    if dt.byteorder == ">" and isz > 1:
        raise Unsupported("np.frombuffer with a big-endian dtype")

    def elem(i):
        u = le_compose(fn, i * isz, isz) if isz > 1 else fn(i)
        return _uint_to_elem(u, dt)
    return SArr.from_fn(elem, (q,), dt, writeable=False)


class StructError(Exception):
    pass


def _fmt_fields(fmt):
    if not fmt.startswith("<"):
        raise Unsupported(f"struct format {fmt!r} (only little-endian standard sizes)")
    sizes = {"I": 4, "Q": 8, "H": 2, "B": 1, "f": 4}
    out = []
    for ch in fmt[1:]:
        if ch not in sizes:
            raise Unsupported(f"struct format char {ch!r}")
        out.append((ch, sizes[ch]))
    return out


@model(_struct.unpack_from)
def m_unpack_from(interp, fmt, buf, offset=0):
    c = ctx()
    if not isinstance(buf, SBytes) and not contains_sym(offset):
        try:
            return _struct.unpack_from(fmt, buf, offset)
        except Exception as e:
            raise RaiseSig(e)
    buf = as_sbytes(buf)
    fields = _fmt_fields(fmt)
    total = sum(s for _, s in fields)
    c.trust("struct.unpack_from: struct.error unless offset (negative counts from the end) leaves `size` bytes")
    off = ite(offset < 0, offset + buf.len, offset) if isinstance(offset, SInt) else (offset + buf.len if offset < 0 else offset)
    if not interp.truth(And(off >= 0, off + total <= buf.len)):
        raise RaiseSig(_struct.error("unpack_from requires a buffer of at least N bytes"))
    out = []
    p = off
    for ch, s in fields:
        if ch == "f":
            raise Unsupported("struct float field")
        out.append(le_compose(buf.fn, p, s))
        p = p + s
    return tuple(out)


@model(_struct.unpack)
def m_unpack(interp, fmt, buf):
    c = ctx()
    if not isinstance(buf, SBytes):
        try:
            return _struct.unpack(fmt, buf)
        except Exception as e:
            raise RaiseSig(e)
    fields = _fmt_fields(fmt)
    total = sum(s for _, s in fields)
    c.trust("struct.unpack: struct.error unless len(buf) == calcsize(fmt)")
    if not interp.truth(buf.len == total):
        raise RaiseSig(_struct.error("unpack requires a buffer of N bytes"))
    out = []
    p = 0
    for ch, s in fields:
        out.append(le_compose(buf.fn, p, s))
        p += s
    return tuple(out)


@model(_struct.iter_unpack)
def m_iter_unpack(interp, fmt, buf):
    c = ctx()
    if not isinstance(buf, SBytes):
        try:
            return list(_struct.iter_unpack(fmt, buf))
        except Exception as e:
            raise RaiseSig(e)
    fields = _fmt_fields(fmt)
    total = sum(s for _, s in fields)
    c.trust("struct.iter_unpack: struct.error unless len(buf) is a multiple of calcsize(fmt)")
    if isinstance(buf.len, SInt):
        k = c.concretize(buf.len)
        if k is None:
            raise Unsupported("struct.iter_unpack over bytes of symbolic length")
        buf = SBytes(k, buf.fn)
    if buf.len % total != 0:
        raise RaiseSig(_struct.error("iterative unpacking requires a buffer of a multiple of N bytes"))
    res = []
    for k in range(buf.len // total):
        p = k * total
        row = []
        for ch, s in fields:
            row.append(le_compose(buf.fn, p, s))
            p += s
        res.append(tuple(row))
    return res


@model(_struct.pack)
def m_pack(interp, fmt, *vals):
    c = ctx()
    if not contains_sym(vals):
        try:
            return _struct.pack(fmt, *vals)
        except Exception as e:
            raise RaiseSig(e)
    fields = _fmt_fields(fmt)
    if len(fields) != len(vals):
        raise RaiseSig(_struct.error("pack expected N items"))
    c.trust("struct.pack('<I'/'<Q'): little-endian bytes; struct.error when the value is out of range")
    pieces = []
    for (ch, s), v in zip(fields, vals):
        if isinstance(v, SU64):
            v = SInt(Z.BV2Int(v.t, False))
        if not interp.truth(And(v >= 0, v < (1 << (8 * s)))):
            raise RaiseSig(_struct.error("argument out of range"))
        pieces.append((v, s))
    total = sum(s for _, s in pieces)

    def fn(i):
        if isinstance(i, int):
            p = 0
            for v, s in pieces:
                if i < p + s:
                    return _byte_of(v, i - p, s)
                p += s
            raise IndexError
        out = 0
        p = total
        for v, s in reversed(pieces):
            p -= s
            out = ite(And(i >= p, i < p + s), _byte_of(v, i - p, s), out)
        return out
    regs = []
    p = 0
    for v, sz in pieces:
        regs.append((p, sz, "uint", v))
        p += sz
    return SBytes(total, fn, regions=regs)


@model(_struct.pack_into)
def m_pack_into(interp, fmt, buf, offset, *vals):
    """struct.pack_into on a mutable byte buffer: overwrites [offset, offset+size) in place"""
    c = ctx()
    if not isinstance(buf, SBytes):
        if contains_sym((offset, vals)):
            raise Unsupported("struct.pack_into a native buffer with symbolic arguments")
        try:
            return _struct.pack_into(fmt, buf, offset, *vals)
        except Exception as e:
            raise RaiseSig(e)
    if not buf.mutable:
        raise RaiseSig(TypeError("argument must be read-write bytes-like object"))
    packed = as_sbytes(m_pack(interp, fmt, *vals))
    n = packed.len
    if not interp.truth(And(offset >= 0, offset + n <= buf.len)):
        raise RaiseSig(_struct.error("pack_into requires a buffer of at least N bytes"))
    old_fn = buf.fn
    pf = packed.fn
    def new_fn(i):
        cond = And(i >= offset, i < offset + n)
        if isinstance(cond, bool):
            return pf(i - offset) if cond else old_fn(i)
        return ite(cond, pf(smin(smax(i - offset, 0), n - 1)), old_fn(i))
    buf.fn = new_fn
    kept = []
    for (st, ln, kd, pl) in buf.regions:
        disjoint = core.Or(st + ln <= offset, offset + n <= st)
        if disjoint is True or (not isinstance(disjoint, bool) and not c._feasible(core.Z.Not(core._b(disjoint)))):
            kept.append((st, ln, kd, pl))          # provenance survives only where the write provably does not reach
    buf.regions = kept + [(offset + st, ln, kd, pl) for (st, ln, kd, pl) in packed.regions]
    return None


def zero_bytearray(n):
    return SBytes(n, lambda i: 0, mutable=True)


def read_uint(sb, off, n):
    """little-endian unsigned integer at sb[off:off+n]; uses the provenance of the bytes when the range
    is exactly a packed integer or an element of an array written by tobytes (then no byte arithmetic is
    needed -- justified by lemma:le-bytes-roundtrip), else composes the bytes"""
    c = ctx()
    for (st, ln, kind, payload) in reversed(sb.regions):
        if kind == "uint" and ln == n:
            same = (off == st)
            if same is True or (not isinstance(same, bool) and not c._feasible(core.Z.Not(core._b(same)))):
                return payload if isinstance(payload, (SInt, int)) else SInt(core._i(payload))
        if kind == "array":
            arr, order, isz = payload
            if isz != n:
                continue
            rel = off - st
            if isinstance(rel, int):
                if rel % isz or rel < 0:
                    continue
                q = rel // isz
                inside = (q * isz + isz <= ln)
            else:
                m = c._match_div_const(z3_simplify(core._i(rel)), isz)
                if m is None or m[1] != 0:
                    continue
                q = m[0]
                inside = And(q >= 0, q * isz + isz <= ln)
            if inside is True or (not isinstance(inside, bool) and not c._feasible(core.Z.Not(core._b(inside)))):
                c.trust("lemma:le-bytes-roundtrip (bytes written by tobytes/struct.pack recompose to the value written)")
                return _elem_to_uint(arr.elem(*unravel(q, arr.shape, order)), arr.dtype)
    return le_compose(sb.fn, off, n)


def z3_simplify(t):
    return core.Z.simplify(t, som=True)
