"""pyvc.verify -- contracts, per-function verification driver (path exploration + discharge)."""
import importlib
import inspect
import time
import traceback

import z3

from . import core
from .core import Ctx, PathInfeasible, RaiseSig, Unsupported, ctx, set_ctx
from .interp import Interp, function_ast, qualname, source_segment_hash

REGISTRY = {}      # qualname -> Contract instance (used at call sites)
UNITS = []         # all verifiable units (contracts with bodies, lemmas)


def register(cls):
    inst = cls()
    if getattr(inst, "target", None) and inst.use_at_call_sites:
        REGISTRY[inst.target] = inst
    UNITS.append(inst)
    return cls


def resolve_target(target):
    parts = target.split(".")
    for i in range(len(parts), 0, -1):
        try:
            mod = importlib.import_module(".".join(parts[:i]))
        except ImportError:
            continue
        obj = mod
        for p in parts[i:]:
            obj = inspect.getattr_static(obj, p) if isinstance(obj, type) else getattr(obj, p)
        if isinstance(obj, (staticmethod, classmethod)):
            obj = obj.__func__
        if isinstance(obj, property):
            obj = obj.fget
        return obj
    raise ImportError(target)


class Unit:
    props = ()
    configs = (None,)
    name = None
    tier = "quick"            # "thorough": only run in the thorough tier
    timeout_ms = 20000
    bounded = False

    def unit_name(self):
        return self.name or getattr(self, "target", type(self).__name__)

    def configs_for(self, tier):
        return list(self.configs)

    def local_contracts_for(self, cfg):
        """callee contracts used at call sites of this unit only (target -> Contract instance)"""
        return {}

    def cfg_label(self, cfg):
        return "" if cfg is None else str(cfg)


class BoundedUnit(Unit):
    """Bounded stand-in: the real function is run natively over a stated small scope and compared
    with a spec oracle. Never counted as proved."""
    bounded = True
    use_at_call_sites = False
    bound = "unstated"

    def cases(self, cfg, tier):
        """yield (description, thunk) where thunk() returns None if ok else a failure description"""
        raise NotImplementedError

    def run_bounded(self, cfg, tier):
        n = 0
        bad = []
        for desc, thunk in self.cases(cfg, tier):
            n += 1
            try:
                r = thunk()
            except Exception:
                r = "raised " + traceback.format_exc()[-400:]
            if r:
                bad.append({"obligation": self.unit_name(), "case": desc, "failure": r})
                if len(bad) >= 3:
                    break
        return {"cases": n, "bound": self.bound, "bounded_violations": bad}

    def replay_bounded(self, detail):
        for desc, thunk in self.cases(None, "thorough"):
            if desc == detail.get("case"):
                r = thunk()
                return {"reproduced": bool(r), "detail": r or "ok"}
        return {"reproduced": False, "detail": "case not found"}


class Lemma(Unit):
    """A proof obligation with no code (spec-level lemma)."""
    use_at_call_sites = False

    def run(self, c, cfg):
        raise NotImplementedError

    def replay(self, model, cfg, ob_name):
        return None


class Contract(Unit):
    target = None
    use_at_call_sites = True
    loop_specs = ()
    inline = ()
    path_budget = 3000
    assume_ensures_at_call_sites = True
    has_body = True            # False: assumed contract of an external / unverified function

    # ---- to be provided
    def setup(self, c, cfg):
        """declare symbolic inputs, assume the precondition; return (args, kwargs)"""
        raise NotImplementedError

    def requires(self, c, **b):
        return []

    def ensures(self, c, result, **b):
        return []

    def raises_when(self, c, **b):
        """list of (ExcClass, condition): the function raises ExcClass exactly/only when ..."""
        return []

    def fresh_result(self, c, **b):
        return None

    def resolve(self, cfg):
        return resolve_target(self.target)

    def replay(self, model, cfg, ob_name):
        return None

    def loop_specs_for(self, cfg):
        return self.loop_specs

    # ---- generic machinery
    def bind(self, fn, args, kwargs):
        from .interp import IFunc
        if isinstance(fn, IFunc):
            a = fn.node.args
            names = [p.arg for p in a.posonlyargs + a.args]
            defaults = [d.value if hasattr(d, "value") else None for d in a.defaults]
            out = dict(zip(names, args))
            for n, d in zip(names[len(names) - len(defaults):], defaults):
                out.setdefault(n, d)
            out.update(kwargs)
            return out
        sig = inspect.signature(fn)
        ba = sig.bind(*args, **kwargs)
        ba.apply_defaults()
        return dict(ba.arguments)

    def check_return(self, c, result, b, cfg):
        for name, cond in self.ensures(c, result, **b):
            c.prove(name, cond)

    def check_raise(self, c, exc, b, cfg):
        allowed = [cond for (cls, cond) in self.raises_when(c, **b) if isinstance(exc, cls)]
        nm = f"raises-only-declared:{type(exc).__name__}"
        if not allowed:
            c.prove(nm, False, kind="exc")
        else:
            c.prove(nm, core.Or(*allowed), kind="exc")

    def apply(self, interp, fn, args, kwargs):
        c = ctx()
        b = self.bind(fn if fn is not None else self.resolve(None), args, kwargs)
        for name, cond in self.requires(c, **b):
            c.prove(f"pre[{self.target.split('.')[-1]}]:{name}", cond, kind="pre")
        for cls, cond in self.raises_when(c, **b):
            if interp.truth(cond):
                raise RaiseSig(cls())
        res = self.fresh_result(c, **b)
        if self.assume_ensures_at_call_sites:
            for name, cond in self.ensures(c, res, **b):
                c.assume(cond)
        c.calls_log.append((self.target, b, res))
        return res


# --------------------------------------------------------------------------- driver

class UnitTimeout(BaseException):
    pass


def _goal_text(ob, limit=400):
    s = ob.goal.sexpr().replace("\n", " ")
    return s if len(s) <= limit else s[:limit] + "..."


def run_unit(unit, cfg, tier="quick", timeout_ms=None, known=None):
    """Explore all paths of one unit, discharge every obligation. Returns a JSON-able dict."""
    t0 = time.time()
    timeout_ms = timeout_ms or unit.timeout_ms
    out = {"unit": unit.unit_name(), "cfg": unit.cfg_label(cfg), "kind": "lemma" if isinstance(unit, Lemma) else "contract",
           "paths": 0, "obligations": [], "unsupported": None, "notes": [], "trusted": [],
           "inlined": [], "contract_applied": [], "vacuity": {"paths_sat": 0, "paths_checked": 0},
           "source_hash": None, "solver_time_s": 0.0, "crash": None}
    fn = None
    try:
        if isinstance(unit, Contract):
            fn = unit.resolve(cfg)
            out["source_hash"] = source_segment_hash(fn)
            out["fn"] = qualname(fn)
    except Exception as e:
        out["crash"] = f"resolve failed: {e!r}"
        return out
    stack = [[]]
    notes, trusted, inlined, applied = [], set(), set(), set()
    budget = getattr(unit, "path_budget", 3000)
    try:
        _explore(unit, cfg, fn, out, stack, budget, timeout_ms, known, notes, trusted, inlined, applied)
    except UnitTimeout:
        set_ctx(None)
        out["unsupported"] = "unit wall-clock budget exceeded (undecided)"
    out["notes"] = notes
    out["trusted"] = sorted(trusted)
    out["inlined"] = sorted(inlined)
    out["contract_applied"] = sorted(applied)
    out["wall_s"] = round(time.time() - t0, 3)
    if (out["unsupported"] or any(o["verdict"] == "unknown" for o in out["obligations"])) and not out["crash"]:
        _bounded_fallback(unit, cfg, tier, out)
    return out


def _bounded_fallback(unit, cfg, tier, out):
    """the unit is undecided: run its bounded native stand-in (never counted as proved)"""
    gen = getattr(unit, "bounded_models", None)
    if gen is None:
        return
    t0 = time.time()
    cases = 0
    bad = []
    try:
        for m in gen(cfg, tier):
            cases += 1
            rp = unit.replay(m, cfg, "bounded")
            if rp and rp.get("reproduced"):
                bad.append({"model": m, "replay": rp})
                if len(bad) >= 3:
                    break
            if time.time() - t0 > 120:
                break
    except UnitTimeout:
        raise
    except Exception:
        out["bounded_fallback"] = {"cases": cases, "error": traceback.format_exc()[-800:]}
        return
    out["bounded_fallback"] = {"cases": cases, "violations": bad, "bound": getattr(unit, "bounded_bound", "small scope, see contract")}


def _explore(unit, cfg, fn, out, stack, budget, timeout_ms, known, notes, trusted, inlined, applied):
    while stack:
        prefix = stack.pop()
        out["paths"] += 1
        if out["paths"] > budget:
            out["unsupported"] = f"path budget {budget} exceeded"
            break
        c = Ctx(prefix, fn_name=unit.unit_name())
        c.known = known or {}
        set_ctx(c)
        interp = None
        completed = False
        try:
            if isinstance(unit, Lemma):
                interp = Interp(contracts=REGISTRY, loop_specs=list(getattr(unit, "loop_specs", ())),
                                verifying=None, inline=getattr(unit, "inline", ()))
                c.interp = interp
                unit.run(c, cfg)
                completed = True
            else:
                interp = Interp(contracts={**REGISTRY, **unit.local_contracts_for(cfg)}, loop_specs=list(unit.loop_specs_for(cfg)),
                                verifying=qualname(fn), inline=unit.inline)
                c.interp = interp
                args, kwargs = unit.setup(c, cfg)
                b = unit.bind(fn, args, kwargs)
                try:
                    res = interp.call(fn, args, kwargs)
                except RaiseSig as e:
                    c.cur_line = e.lineno
                    unit.check_raise(c, e.exc, b, cfg)
                else:
                    unit.check_return(c, res, b, cfg)
                completed = True
        except PathInfeasible:
            pass
        except Unsupported as u:
            out["unsupported"] = f"{u} (at {c.cur_line})"
        except RaiseSig as e:
            out["crash"] = f"exception escaped the contract harness: {e.exc!r} at {e.lineno}"
        except RecursionError:
            out["unsupported"] = "recursion limit"
        except Exception:
            out["crash"] = traceback.format_exc()[-1500:]
        finally:
            set_ctx(None)
        for i in range(len(prefix), len(c.decisions)):
            if c.sibling_ok.get(i):
                stack.append(c.decisions[:i] + [not c.decisions[i]])
        for n in c.notes:
            if n not in notes:
                notes.append(n)
        trusted.update(c.trusted)
        if interp is not None:
            inlined.update(interp.inlined)
            applied.update(interp.contract_applied)
        # vacuity: the completed path must be reachable (assumptions not contradictory)
        if completed:
            out["vacuity"]["paths_checked"] += 1
            s = z3.Solver()
            s.set("timeout", 5000)
            for a in c.pc_before_obls() if hasattr(c, "pc_before_obls") else _pc_without_goals(c):
                s.add(a)
            vr = s.check()
            if vr == z3.unknown:
                # the incremental core gave up: ask the stand-alone z3 (sat needs no model here)
                v2, _ = core.z3_cli_check(list(s.assertions()), z3.BoolVal(True), 20000)
                vr = {"sat": z3.sat, "unsat": z3.unsat}.get(v2, z3.unknown)
            if vr != z3.unsat:
                out["vacuity"]["paths_sat"] += 1
            if vr == z3.unknown:
                out["vacuity"]["paths_unknown"] = out["vacuity"].get("paths_unknown", 0) + 1
        for cname, cpc in c.covers:
            out["vacuity"].setdefault("covers", 0)
            out["vacuity"].setdefault("covers_unsat", [])
            out["vacuity"]["covers"] += 1
            s = z3.Solver()
            s.set("timeout", 10000)
            for a in cpc:
                s.add(a)
            if s.check() == z3.unsat:
                out["vacuity"]["covers_unsat"].append(cname)
        # discharge
        for ob in c.obls:
            r = core.discharge(ob, c.inputs, timeout_ms=timeout_ms)
            out["solver_time_s"] += r["time_s"]
            m = r.pop("_z3model", None)
            r["goal"] = _goal_text(ob)
            if r["verdict"] == "refuted":
                try:
                    rp = unit.replay(r.get("model", {}), cfg, ob.name)
                except Exception:
                    rp = {"reproduced": False, "detail": "replay adapter crashed: " + traceback.format_exc()[-600:]}
                r["replay"] = rp
            out["obligations"].append(r)
        if out["unsupported"] or out["crash"]:
            break


def _pc_without_goals(c):
    """path condition minus the goals that were assumed after being recorded as obligations"""
    goal_ids = {ob.goal.get_id() for ob in c.obls}
    return [a for a in c.pc if a.get_id() not in goal_ids]
