"""pyvc.core -- symbolic values, path context, obligations.

Semantics assumed (reported in every evidence file):
  * Python int is a mathematical integer (z3 Int).
  * `//` and `%` are floor operations; for a non-constant divisor they are introduced
    by a fresh quotient/remainder pair  a == q*b + r,  0 <= r < b  (b > 0)  or
    b < r <= 0 (b < 0); b == 0 forks into ZeroDivisionError.
  * np.uint64 scalars are 64-bit bit-vectors with NumPy 2 scalar semantics
    (wrapping + - *, shifts by >= 64 give 0, unsigned comparisons).
  * floats: see SReal (mathematical reals, an unchecked assumption where used) and
    STrueDiv (int/int true division kept exact as a rational until int()/ceil()).
"""
import itertools
import os
import time

import z3

Z = z3


class Unsupported(Exception):
    """Construct outside the supported subset: the function is NOT proved."""


class PathInfeasible(Exception):
    pass


class SpecAbort(Exception):
    """Speculative (if-merging) execution cannot continue."""


class RaiseSig(Exception):
    """A Python exception raised by the interpreted program."""

    def __init__(self, exc, lineno=None):
        super().__init__(repr(exc))
        self.exc = exc
        self.lineno = lineno


_CTX = [None]


def ctx():
    c = _CTX[0]
    if c is None:
        raise RuntimeError("no active symbolic context")
    return c


def set_ctx(c):
    _CTX[0] = c


# --------------------------------------------------------------------------- values

class Sym:
    __slots__ = ()


def is_sym(v):
    return isinstance(v, Sym)


def _b(v):
    """python bool / SBool -> z3 Bool"""
    if isinstance(v, SBool):
        return v.t
    if isinstance(v, bool):
        return z3.BoolVal(v)
    if isinstance(v, z3.BoolRef):
        return v
    if type(v).__module__ == "numpy" and type(v).__name__ in ("bool", "bool_"):
        return z3.BoolVal(bool(v))
    raise Unsupported(f"cannot use {type(v).__name__} as a boolean term")


class SBool(Sym):
    __slots__ = ("t",)

    def __init__(self, t):
        self.t = t

    def __bool__(self):
        return ctx().fork(self.t)

    def __and__(self, o):
        return SBool(z3.And(self.t, _b(o)))

    __rand__ = __and__

    def __or__(self, o):
        return SBool(z3.Or(self.t, _b(o)))

    __ror__ = __or__

    def __invert__(self):
        return SBool(z3.Not(self.t))

    def __eq__(self, o):
        return SBool(self.t == _b(o))

    def __ne__(self, o):
        return SBool(self.t != _b(o))

    def __hash__(self):
        return id(self)

    def implies(self, o):
        return SBool(z3.Implies(self.t, _b(o)))

    def __repr__(self):
        return f"SBool({self.t})"


def implies(a, b):
    return SBool(z3.Implies(_b(a), _b(b)))


def And(*xs):
    xs = [x for x in xs]
    if all(isinstance(x, bool) for x in xs):
        return all(xs)
    return SBool(z3.And(*[_b(x) for x in xs]))


def Or(*xs):
    if all(isinstance(x, bool) for x in xs):
        return any(xs)
    return SBool(z3.Or(*[_b(x) for x in xs]))


def Not(x):
    if isinstance(x, bool):
        return not x
    return SBool(z3.Not(_b(x)))


def ite(c, a, b):
    """symbolic if-then-else over scalars"""
    if isinstance(c, bool):
        return a if c else b
    c = _b(c)
    import numpy as np
    if isinstance(a, np.uint64) and not isinstance(b, SU64):
        b = SU64(_u64(b))
    if isinstance(b, np.uint64) and not isinstance(a, SU64):
        a = SU64(_u64(a))
    if isinstance(a, SU64) or isinstance(b, SU64):
        return SU64(z3.If(c, _u64(a), _u64(b)))
    if isinstance(a, (SBool, bool)) and isinstance(b, (SBool, bool)):
        return SBool(z3.If(c, _b(a), _b(b)))
    if isinstance(a, SReal) or isinstance(b, SReal) or isinstance(a, float) or isinstance(b, float):
        return SReal(z3.If(c, _r(a), _r(b)))
    if isinstance(a, SFP) or isinstance(b, SFP):
        return SFP(z3.If(c, a.t, b.t))
    if isinstance(a, SBV) or isinstance(b, SBV):
        w = a.w if isinstance(a, SBV) else b.w
        return SBV(z3.If(c, _bv(a, w), _bv(b, w)), w)
    return SInt(z3.If(c, _i(a), _i(b)))


def _i(v):
    if isinstance(v, SInt):
        return v.t
    if isinstance(v, bool):
        return z3.IntVal(int(v))
    if isinstance(v, int):
        return z3.IntVal(v)
    if isinstance(v, SBool):
        return z3.If(v.t, z3.IntVal(1), z3.IntVal(0))
    if isinstance(v, SU64):
        return z3.BV2Int(v.t, False)
    if isinstance(v, z3.ArithRef):
        return v
    import numpy as np
    if isinstance(v, np.integer):
        return z3.IntVal(int(v))
    raise Unsupported(f"cannot use {type(v).__name__} as an integer term")


def _has_ite(t, depth=0):
    if depth > 3:
        return True
    if z3.is_app(t):
        if t.decl().kind() == z3.Z3_OP_ITE:
            return True
        return any(_has_ite(ch, depth + 1) for ch in t.children())
    return False


def _name_if_nested(t, hint):
    """give a nested if-then-else term a name (fresh constant with a defining equation) to keep
    formulas small; purely definitional, so sound"""
    c = _CTX[0]
    if c is None or c.spec:
        return t
    if z3.is_app(t) and t.decl().kind() == z3.Z3_OP_ITE and any(_has_ite(ch) for ch in t.children()):
        v = z3.Int(c.fresh_name(hint)) if z3.is_int(t) else z3.Real(c.fresh_name(hint))
        c.assume(v == t)
        return v
    return t


def smin(a, b):
    if not is_sym(a) and not is_sym(b):
        return min(a, b)
    if isinstance(a, (SReal, float)) or isinstance(b, (SReal, float)):
        return SReal(_name_if_nested(z3.If(_r(b) < _r(a), _r(b), _r(a)), "rmin"))
    return SInt(_name_if_nested(z3.If(_i(b) < _i(a), _i(b), _i(a)), "min"))


def smax(a, b):
    if not is_sym(a) and not is_sym(b):
        return max(a, b)
    if isinstance(a, (SReal, float)) or isinstance(b, (SReal, float)):
        return SReal(z3.If(_r(b) > _r(a), _r(b), _r(a)))
    return SInt(_name_if_nested(z3.If(_i(b) > _i(a), _i(b), _i(a)), "max"))


class SInt(Sym):
    """Python int (mathematical)."""
    __slots__ = ("t",)

    def __init__(self, t):
        self.t = t

    # arithmetic
    def __add__(self, o):
        if isinstance(o, (SReal, float)):
            return SReal(z3.ToReal(self.t) + _r(o))
        if isinstance(o, SU64):
            return NotImplemented
        return SInt(self.t + _i(o))

    def __radd__(self, o):
        if isinstance(o, float):
            return SReal(_r(o) + z3.ToReal(self.t))
        return SInt(_i(o) + self.t)

    def __sub__(self, o):
        if isinstance(o, (SReal, float)):
            return SReal(z3.ToReal(self.t) - _r(o))
        return SInt(self.t - _i(o))

    def __rsub__(self, o):
        if isinstance(o, float):
            return SReal(_r(o) - z3.ToReal(self.t))
        return SInt(_i(o) - self.t)

    def __mul__(self, o):
        if isinstance(o, (SReal, float)):
            return SReal(z3.ToReal(self.t) * _r(o))
        return SInt(self.t * _i(o))

    def __rmul__(self, o):
        if isinstance(o, float):
            return SReal(_r(o) * z3.ToReal(self.t))
        return SInt(_i(o) * self.t)

    def __neg__(self):
        return SInt(-self.t)

    def __pos__(self):
        return self

    def __abs__(self):
        return SInt(z3.If(self.t >= 0, self.t, -self.t))

    def __floordiv__(self, o):
        return ctx().divmod(self, o)[0]

    def __rfloordiv__(self, o):
        return ctx().divmod(o, self)[0]

    def __mod__(self, o):
        return ctx().divmod(self, o)[1]

    def __rmod__(self, o):
        return ctx().divmod(o, self)[1]

    def __divmod__(self, o):
        return ctx().divmod(self, o)

    def __truediv__(self, o):
        if isinstance(o, (SReal, float)):
            return SReal(z3.ToReal(self.t) / _r(o))
        return STrueDiv(self, o)

    def __rtruediv__(self, o):
        if isinstance(o, float):
            return SReal(_r(o) / z3.ToReal(self.t))
        return STrueDiv(o, self)

    def __pow__(self, o):
        if isinstance(o, int) and 0 <= o <= 8:
            r = 1
            for _ in range(o):
                r = self * r
            return r
        raise Unsupported("symbolic ** with non-small exponent")

    def __rpow__(self, o):
        if o == 2:
            return ctx().pow2(self)
        raise Unsupported("symbolic exponent with base != 2")

    # bit operations restricted to what stays arithmetic
    def __lshift__(self, o):
        if isinstance(o, SInt):
            k = ctx().concretize(o)
            if k is not None:
                o = k
        if isinstance(o, int) and o >= 0:
            return SInt(self.t * (1 << o))
        if isinstance(o, SInt):
            return self * ctx().pow2(o)
        raise Unsupported("<< by non-int")

    def __rlshift__(self, o):
        k = ctx().concretize(self)
        if k is not None and k >= 0:
            return o << k
        return o * ctx().pow2(self)

    def bit_length(self):
        """int.bit_length() for |n| < 2^80 (entailed by the path, else unsupported)"""
        c = ctx()
        lim = 1 << 80
        if c._feasible(z3.Not(z3.And(self.t > -lim, self.t < lim))):
            raise Unsupported("int.bit_length() of a symbolic int not known to be below 2^80")
        a = z3.If(self.t >= 0, self.t, -self.t)
        return SInt(z3.Sum([z3.If(a >= (1 << i), 1, 0) for i in range(80)]))

    def __rshift__(self, o):
        if isinstance(o, SInt):
            k = ctx().concretize(o)
            if k is not None:
                o = k
        if isinstance(o, int) and o >= 0:
            return SInt(self.t / (1 << o))     # z3 int div by positive const == floor
        raise Unsupported(">> by symbolic amount on int")

    def __and__(self, o):
        if isinstance(o, int) and o >= 0 and (o & (o + 1)) == 0:
            # low mask: x & (2^k - 1) == x mod 2^k  (also for negative x, two's complement)
            return SInt(self.t % (o + 1))
        if isinstance(o, int) and o < 0 and ((~o) & ((~o) + 1)) == 0:
            # high mask: x & ~(2^k - 1) == x - (x mod 2^k)  (python ints, two's complement semantics)
            return SInt(self.t - self.t % ((~o) + 1))
        raise Unsupported("& on int with a non-low-mask operand")

    __rand__ = __and__

    def __or__(self, o):
        """x | y on non-negative ints whose bit fields are provably disjoint (one a multiple of 2^p, the
        other below 2^p): then x | y == x + y. Anything else is unsupported."""
        c = ctx()
        x, y = self.t, _i(o)
        if isinstance(o, int) and o == 0:
            return self
        for p in list(range(1, 33)) + [40, 48, 56]:
            P = 1 << p
            for lo, hi in ((x, y), (y, x)):
                if z3.is_int_value(hi) and hi.as_long() % P != 0:
                    continue
                if z3.is_int_value(lo) and not (0 <= lo.as_long() < P):
                    continue
                if not c._feasible(z3.Not(z3.And(lo >= 0, lo < P, hi >= 0, hi % P == 0))):
                    c.note("x | y computed as x + y where the operands' bit fields are proved disjoint")
                    return SInt(x + y)
        raise Unsupported("| on symbolic ints whose bit fields are not provably disjoint")

    __ror__ = __or__

    # comparisons
    def _cmp(self, o, f):
        if isinstance(o, (SReal, float)):
            return SBool(f(z3.ToReal(self.t), _r(o)))
        if isinstance(o, STrueDiv):
            return NotImplemented
        try:
            return SBool(f(self.t, _i(o)))
        except Unsupported:
            return NotImplemented

    def __eq__(self, o):
        if o is None or isinstance(o, (str, bytes, tuple, list)):
            return False
        return self._cmp(o, lambda a, b: a == b)

    def __ne__(self, o):
        if o is None or isinstance(o, (str, bytes, tuple, list)):
            return True
        return self._cmp(o, lambda a, b: a != b)

    def __lt__(self, o):
        return self._cmp(o, lambda a, b: a < b)

    def __le__(self, o):
        return self._cmp(o, lambda a, b: a <= b)

    def __gt__(self, o):
        return self._cmp(o, lambda a, b: a > b)

    def __ge__(self, o):
        return self._cmp(o, lambda a, b: a >= b)

    def __hash__(self):
        return id(self)

    def __bool__(self):
        return ctx().fork(self.t != 0)

    def __index__(self):
        raise Unsupported("symbolic int used where a concrete index is required")

    def __repr__(self):
        return f"SInt({self.t})"


def _r(v):
    if isinstance(v, SReal):
        return v.t
    if isinstance(v, SInt):
        return z3.ToReal(v.t)
    if isinstance(v, bool):
        return z3.RealVal(int(v))
    if isinstance(v, int):
        return z3.RealVal(v)
    if isinstance(v, float):
        from fractions import Fraction
        f = Fraction(v)
        return z3.RealVal(f.numerator) / z3.RealVal(f.denominator)
    if isinstance(v, STrueDiv):
        return _r(v.a) / _r(v.b)
    import numpy as np
    if isinstance(v, np.floating):
        return _r(float(v))
    if isinstance(v, np.integer):
        return z3.RealVal(int(v))
    raise Unsupported(f"cannot use {type(v).__name__} as a real term")


class SReal(Sym):
    """A float treated as a mathematical real (regime 'real': unchecked assumption)."""
    __slots__ = ("t",)

    def __init__(self, t):
        self.t = t

    def __add__(self, o): return SReal(self.t + _r(o))
    def __radd__(self, o): return SReal(_r(o) + self.t)
    def __sub__(self, o): return SReal(self.t - _r(o))
    def __rsub__(self, o): return SReal(_r(o) - self.t)
    def __mul__(self, o): return SReal(self.t * _r(o))
    def __rmul__(self, o): return SReal(_r(o) * self.t)
    def __truediv__(self, o): return SReal(self.t / _r(o))
    def __rtruediv__(self, o): return SReal(_r(o) / self.t)
    def __neg__(self): return SReal(-self.t)
    def __abs__(self): return SReal(z3.If(self.t >= 0, self.t, -self.t))
    def __eq__(self, o):
        if o is None or isinstance(o, str):
            return False
        return SBool(self.t == _r(o))
    def __ne__(self, o):
        if o is None or isinstance(o, str):
            return True
        return SBool(self.t != _r(o))
    def __lt__(self, o): return SBool(self.t < _r(o))
    def __le__(self, o): return SBool(self.t <= _r(o))
    def __gt__(self, o): return SBool(self.t > _r(o))
    def __ge__(self, o): return SBool(self.t >= _r(o))
    def __hash__(self): return id(self)
    def __bool__(self): return ctx().fork(self.t != 0)
    def __repr__(self): return f"SReal({self.t})"


class STrueDiv(Sym):
    """Result of int / int (a CPython float, correctly rounded from the exact rational).
    Kept as the exact rational; int() and math.ceil() give exact results only under
    side conditions (see interp models), otherwise an unconstrained value."""
    __slots__ = ("a", "b")

    def __init__(self, a, b):
        self.a = a
        self.b = b

    def __hash__(self):
        return id(self)


RNE = z3.RNE()
RTZ = z3.RTZ()
F32 = z3.Float32()
F64 = z3.Float64()


def fp_const(v, sort):
    """python int/float -> FP constant of `sort`, round-nearest-even (as NumPy 2 converts python scalars)"""
    from fractions import Fraction
    f = Fraction(v)
    return z3.simplify(z3.fpRealToFP(RNE, z3.RealVal(f.numerator) / z3.RealVal(f.denominator), sort))


class SFP(Sym):
    """IEEE float (z3 FP theory), bit exact. sort kept in the term."""
    __slots__ = ("t",)

    def __init__(self, t):
        self.t = t

    def __hash__(self):
        return id(self)

    def _o(self, o):
        if isinstance(o, SFP):
            if o.t.sort() != self.t.sort():
                raise Unsupported("mixed float widths")
            return o.t
        if isinstance(o, (int, float)):
            return fp_const(o, self.t.sort())
        raise Unsupported(f"cannot use {type(o).__name__} as FP operand")

    def __lt__(self, o): return SBool(z3.fpLT(self.t, self._o(o)))
    def __le__(self, o): return SBool(z3.fpLEQ(self.t, self._o(o)))
    def __gt__(self, o): return SBool(z3.fpGT(self.t, self._o(o)))
    def __ge__(self, o): return SBool(z3.fpGEQ(self.t, self._o(o)))
    def __eq__(self, o):
        if o is None or isinstance(o, str):
            return False
        return SBool(z3.fpEQ(self.t, self._o(o)))
    def __ne__(self, o):
        if o is None or isinstance(o, str):
            return True
        return SBool(z3.Not(z3.fpEQ(self.t, self._o(o))))

    # IEEE arithmetic, round to nearest even (NumPy: array op weak python scalar keeps the array's width)
    def __add__(self, o): return SFP(z3.fpAdd(RNE, self.t, self._o(o)))
    def __radd__(self, o): return SFP(z3.fpAdd(RNE, self._o(o), self.t))
    def __sub__(self, o): return SFP(z3.fpSub(RNE, self.t, self._o(o)))
    def __rsub__(self, o): return SFP(z3.fpSub(RNE, self._o(o), self.t))
    def __mul__(self, o): return SFP(z3.fpMul(RNE, self.t, self._o(o)))
    def __rmul__(self, o): return SFP(z3.fpMul(RNE, self._o(o), self.t))
    def __truediv__(self, o): return SFP(z3.fpDiv(RNE, self.t, self._o(o)))
    def __neg__(self): return SFP(z3.fpNeg(self.t))

    def rint(self):
        return SFP(z3.fpRoundToIntegral(RNE, self.t))

    def finite(self):
        return SBool(z3.And(z3.Not(z3.fpIsNaN(self.t)), z3.Not(z3.fpIsInf(self.t))))


def _bv(v, w):
    if isinstance(v, SBV):
        if v.w != w:
            raise Unsupported("bit-vector width mismatch")
        return v.t
    if isinstance(v, int):
        return z3.BitVecVal(v, w)
    raise Unsupported(f"cannot use {type(v).__name__} as BV{w}")


class SBV(Sym):
    """fixed-width unsigned array element (uint8/16/32) with wrapping semantics"""
    __slots__ = ("t", "w")

    def __init__(self, t, w):
        self.t = t
        self.w = w

    def __hash__(self):
        return id(self)

    def __eq__(self, o): return SBool(self.t == _bv(o, self.w))
    def __ne__(self, o): return SBool(self.t != _bv(o, self.w))
    def __and__(self, o): return SBV(self.t & _bv(o, self.w), self.w)
    def __or__(self, o): return SBV(self.t | _bv(o, self.w), self.w)
    def __rshift__(self, o): return SBV(z3.LShR(self.t, _bv(o, self.w)), self.w)
    def __lshift__(self, o): return SBV(self.t << _bv(o, self.w), self.w)
    def __lt__(self, o): return SBool(z3.ULT(self.t, _bv(o, self.w)))
    def __le__(self, o): return SBool(z3.ULE(self.t, _bv(o, self.w)))
    def __gt__(self, o): return SBool(z3.UGT(self.t, _bv(o, self.w)))
    def __ge__(self, o): return SBool(z3.UGE(self.t, _bv(o, self.w)))


_M64 = (1 << 64) - 1


def _u64(v):
    if isinstance(v, SU64):
        return v.t
    if isinstance(v, bool):
        return z3.BitVecVal(int(v), 64)
    if isinstance(v, int):
        if not 0 <= v <= _M64:
            raise RaiseSig(OverflowError("Python integer out of bounds for uint64"))
        return z3.BitVecVal(v, 64)
    import numpy as np
    if isinstance(v, np.integer):
        return z3.BitVecVal(int(v), 64)
    if isinstance(v, z3.BitVecRef):
        return v
    raise Unsupported(f"cannot use {type(v).__name__} as uint64")


class SU64(Sym):
    """np.uint64 scalar (NumPy 2 semantics)."""
    __slots__ = ("t",)

    def __init__(self, t):
        self.t = t

    @staticmethod
    def _shift(a, n, left):
        sh = (a << n) if left else z3.LShR(a, n)
        return z3.If(z3.UGE(n, z3.BitVecVal(64, 64)), z3.BitVecVal(0, 64), sh)

    def __add__(self, o): return SU64(self.t + _u64(o))
    def __radd__(self, o): return SU64(_u64(o) + self.t)
    def __sub__(self, o): return SU64(self.t - _u64(o))
    def __rsub__(self, o): return SU64(_u64(o) - self.t)
    def __mul__(self, o): return SU64(self.t * _u64(o))
    def __rmul__(self, o): return SU64(_u64(o) * self.t)
    def __and__(self, o): return SU64(self.t & _u64(o))
    def __rand__(self, o): return SU64(_u64(o) & self.t)
    def __or__(self, o): return SU64(self.t | _u64(o))
    def __ror__(self, o): return SU64(_u64(o) | self.t)
    def __xor__(self, o): return SU64(self.t ^ _u64(o))
    def __invert__(self): return SU64(~self.t)
    def __lshift__(self, o): return SU64(SU64._shift(self.t, _u64(o), True))
    def __rshift__(self, o): return SU64(SU64._shift(self.t, _u64(o), False))
    def __rlshift__(self, o): return SU64(SU64._shift(_u64(o), self.t, True))
    def __rrshift__(self, o): return SU64(SU64._shift(_u64(o), self.t, False))

    def __rpow__(self, o):
        # python int 2 ** np.uint64(n) -> np.uint64, wrapping (== 1 << n, 0 for n >= 64)
        if o == 2:
            return SU64(SU64._shift(z3.BitVecVal(1, 64), self.t, True))
        raise Unsupported("** with uint64 exponent and base != 2")

    def __truediv__(self, o):
        return STrueDiv(SInt(z3.BV2Int(self.t, False)), o)

    def __floordiv__(self, o):
        d = _u64(o)
        return SU64(z3.If(d == 0, z3.BitVecVal(0, 64), z3.UDiv(self.t, d)))   # NumPy: x // 0 == 0 (with a warning)

    def __mod__(self, o):
        d = _u64(o)
        return SU64(z3.If(d == 0, z3.BitVecVal(0, 64), z3.URem(self.t, d)))

    def _cmp(self, o, f, const_out_of_range):
        if isinstance(o, int) and not isinstance(o, bool) and not 0 <= o <= _M64:
            return const_out_of_range(o)
        if isinstance(o, SInt):
            return None
        return SBool(f(self.t, _u64(o)))

    def __eq__(self, o):
        if o is None or isinstance(o, str):
            return False
        if isinstance(o, SInt):
            return SBool(z3.BV2Int(self.t, False) == o.t)
        return self._cmp(o, lambda a, b: a == b, lambda c: False)

    def __ne__(self, o):
        if o is None or isinstance(o, str):
            return True
        if isinstance(o, SInt):
            return SBool(z3.BV2Int(self.t, False) != o.t)
        return self._cmp(o, lambda a, b: a != b, lambda c: True)

    def __lt__(self, o):
        if isinstance(o, SInt):
            return SBool(z3.BV2Int(self.t, False) < o.t)
        return self._cmp(o, z3.ULT, lambda c: c > 0)

    def __le__(self, o):
        if isinstance(o, SInt):
            return SBool(z3.BV2Int(self.t, False) <= o.t)
        return self._cmp(o, z3.ULE, lambda c: c > 0)

    def __gt__(self, o):
        if isinstance(o, SInt):
            return SBool(z3.BV2Int(self.t, False) > o.t)
        return self._cmp(o, z3.UGT, lambda c: c < 0)

    def __ge__(self, o):
        if isinstance(o, SInt):
            return SBool(z3.BV2Int(self.t, False) >= o.t)
        return self._cmp(o, z3.UGE, lambda c: c < 0)

    def __hash__(self):
        return id(self)

    def __bool__(self):
        return ctx().fork(self.t != z3.BitVecVal(0, 64))

    def __repr__(self):
        return f"SU64({self.t})"


class AttrDict(dict):
    """fields of a symbolic object. Contracts read them with .get(name) / [name]; if the field does not exist
    (the class was edited: attribute renamed or dropped) the contract cannot be evaluated -- undecided, never a
    verdict. Use .get(name, default) where absence is meaningful."""
    _NO = object()

    def get(self, name, default=_NO):
        if name in self:
            return dict.__getitem__(self, name)
        if default is AttrDict._NO:
            raise Unsupported(f"the contract reads attribute {name!r}, which the object does not have (class edited?)")
        return default

    def __getitem__(self, name):
        if name not in self:
            raise Unsupported(f"the contract reads attribute {name!r}, which the object does not have (class edited?)")
        return dict.__getitem__(self, name)


class SObj:
    """Instance of a repo class with (possibly symbolic) attributes."""

    def __init__(self, cls, attrs=None):
        object.__setattr__(self, "cls", cls)
        object.__setattr__(self, "attrs", AttrDict(attrs) if attrs is not None else AttrDict())
        object.__setattr__(self, "ghost", {})
        # built by a harness from a dictionary of fields (not by interpreting __init__): the field NAMES are the
        # harness's picture of the class; if the code reads a field the harness does not know, the class
        # representation has changed and the unit is undecided (not an AttributeError of the program)
        object.__setattr__(self, "harness_built", attrs is not None)

    def __repr__(self):
        return f"<SObj {self.cls.__name__} {list(self.attrs)}>"


# --------------------------------------------------------------------------- obligations

class Obligation:
    __slots__ = ("name", "fn", "assumptions", "goal", "lineno", "path", "meta", "kind")

    def __init__(self, name, fn, assumptions, goal, lineno=None, path=None, meta=None, kind="post"):
        self.name = name
        self.fn = fn
        self.assumptions = assumptions
        self.goal = goal
        self.lineno = lineno
        self.path = path
        self.meta = meta or {}
        self.kind = kind


class Ctx:
    FEAS_TIMEOUT_MS = 3000

    def __init__(self, decisions=(), fn_name="?"):
        self.decisions = list(decisions)
        self.n_given = len(self.decisions)
        self.pos = 0
        self.sibling_ok = {}       # index -> bool (sibling feasible)
        self.pc = []
        self.obls = []
        self.covers = []           # (name, path condition) reachability checks: must be satisfiable
        self.inputs = {}           # name -> z3 term, for counterexample read-out
        self.funcs = {}            # name -> z3 FuncDecl (arrays etc.)
        self.counter = itertools.count()
        self.fn_name = fn_name
        self.solver = z3.Solver()
        self.solver.set("timeout", self.FEAS_TIMEOUT_MS)
        self.spec = 0              # >0 while speculating (if-merge)
        self._divmod = {}
        self._pow2_terms = []
        self._pow2 = z3.Function("pow2", z3.IntSort(), z3.IntSort())
        self.cur_line = None
        self.notes = []            # modelling notes / assumptions used on this path
        self.trusted = set()       # names of library models used
        self.ghost = {}            # free-form ghost state for contracts
        self.loop_vars = []        # (name, SInt, lo, hi) of map-rule loops currently open
        self.calls_log = []        # (callee name, args, kwargs) of contract-applied calls
        self.print_log = []
        self.feas_checks = 0
        self.known_consts = []     # (term, numeral) equalities decided on this path

    # -- fresh symbols
    def fresh_name(self, hint):
        return f"{hint}!{next(self.counter)}"

    def int(self, hint, inp=False):
        n = hint if inp else self.fresh_name(hint)
        t = z3.Int(n)
        if inp:
            self.inputs[n] = t
        return SInt(t)

    def bool(self, hint, inp=False):
        n = hint if inp else self.fresh_name(hint)
        t = z3.Bool(n)
        if inp:
            self.inputs[n] = t
        return SBool(t)

    def real(self, hint, inp=False):
        n = hint if inp else self.fresh_name(hint)
        t = z3.Real(n)
        if inp:
            self.inputs[n] = t
        return SReal(t)

    def u64(self, hint, inp=False):
        n = hint if inp else self.fresh_name(hint)
        t = z3.BitVec(n, 64)
        if inp:
            self.inputs[n] = t
        return SU64(t)

    def func(self, hint, *sorts, inp=True):
        n = hint if inp else self.fresh_name(hint)
        f = z3.Function(n, *sorts)
        if inp:
            self.funcs[n] = f
        return f

    # -- assumptions / forks / obligations
    def assume(self, t):
        if isinstance(t, bool):
            if not t:
                raise PathInfeasible()
            return
        t = _b(t)
        self.pc.append(t)
        self.solver.add(t)

    def _feasible(self, t):
        self.feas_checks += 1
        self.solver.push()
        self.solver.add(t)
        r = self.solver.check()
        self.solver.pop()
        return r != z3.unsat

    def _flat_mul(self, t):
        if z3.is_mul(t):
            out = []
            for ch in t.children():
                out.extend(self._flat_mul(ch))
            return out
        return [t]

    def product_congruence(self, cond):
        """If cond is  f1*...*fn == g1*...*gn  and the factors can be paired so that each pair is
        entailed equal by the path condition, the equality holds (AC-congruence of *)."""
        if not (z3.is_eq(cond) and cond.num_args() == 2):
            return False
        l, r = cond.children()
        if not (z3.is_int(l) and (z3.is_mul(l) or z3.is_mul(r))):
            return False
        fl, fr = self._flat_mul(l), self._flat_mul(r)
        nl = [f for f in fl if not z3.is_int_value(f)]
        nr = [f for f in fr if not z3.is_int_value(f)]
        cl = 1
        for f in fl:
            if z3.is_int_value(f):
                cl *= f.as_long()
        cr = 1
        for f in fr:
            if z3.is_int_value(f):
                cr *= f.as_long()
        # drop factors entailed to be 1 (e.g. a channel count fixed to 1)
        def strip_ones(fs):
            return [f for f in fs if self._feasible(f != 1)]
        if len(nl) != len(nr):
            nl, nr = strip_ones(nl), strip_ones(nr)
        if cl != cr or len(nl) != len(nr) or len(nl) > 6:
            return False
        used = set()
        for f in nl:
            hit = None
            for j, g in enumerate(nr):
                if j in used:
                    continue
                if f.get_id() == g.get_id() or not self._feasible(f != g):
                    hit = j
                    break
            if hit is None:
                return False
            used.add(hit)
        return True

    def fork(self, cond):
        """Decide a symbolic branch. Returns the python bool taken on this path."""
        raw = cond
        cond = z3.simplify(cond)
        if not z3.is_true(cond) and not z3.is_false(cond) and self.pos >= len(self.decisions):
            neg = z3.is_not(raw)
            inner = raw.children()[0] if neg else raw
            if z3.is_eq(inner) and self.product_congruence(inner):
                self.note("product equalities decided by factor-wise entailment (AC-congruence tactic)")
                self.tactic_proved = getattr(self, "tactic_proved", 0) + 1
                cond = z3.BoolVal(not neg)
                self.decisions.append(not neg)
                self.sibling_ok[self.pos] = False
                self.pos += 1
                self.assume(inner)
                return not neg
        if z3.is_true(cond):
            return True
        if z3.is_false(cond):
            return False
        if self.spec:
            # speculative (if-merging) execution: only one-sided branches may be taken
            ft = self._feasible(cond)
            ff = self._feasible(z3.Not(cond))
            if ft and ff:
                import os
                if os.environ.get("PYVC_DEBUG"):
                    print("spec abort on two-sided fork:", str(cond)[:300])
                raise SpecAbort()
            if not ft and not ff:
                raise PathInfeasible()
            self.assume(cond if ft else z3.Not(cond))
            return ft
        if self.pos < len(self.decisions):
            d = self.decisions[self.pos]
        else:
            ft = self._feasible(cond)
            ff = self._feasible(z3.Not(cond))
            if not ft and not ff:
                raise PathInfeasible()
            d = ft
            self.decisions.append(d)
            self.sibling_ok[self.pos] = (ft and ff)
        self.pos += 1
        self.assume(cond if d else z3.Not(cond))
        rc = raw
        dd = d
        while z3.is_not(rc):
            rc = rc.children()[0]
            dd = not dd
        if dd and z3.is_eq(rc):
            l, r = rc.children()
            if z3.is_int_value(r) and not z3.is_int_value(l):
                self.known_consts.append((l, r))
            elif z3.is_int_value(l) and not z3.is_int_value(r):
                self.known_consts.append((r, l))
        return d

    def prove(self, name, goal, meta=None, kind="post"):
        if isinstance(goal, bool):
            g = z3.BoolVal(goal)
        else:
            g = _b(goal)
        meta = dict(meta or {})
        if z3.is_eq(g) and not self.spec and self.product_congruence(g):
            meta["tactic"] = "product-congruence"
        self.obls.append(Obligation(name, self.fn_name, list(self.pc), g,
                                    self.cur_line, tuple(self.decisions[:self.pos]), meta, kind))
        # later code on this path may rely on it (it is checked separately)
        self.assume(g)

    def cover(self, name):
        """reachability check for a path that ends without completing (the arbitrary-iteration path of an
        invariant loop): its assumptions, minus the goals assumed after being recorded, must be satisfiable"""
        goal_ids = {ob.goal.get_id() for ob in self.obls}
        self.covers.append((name, [a for a in self.pc if a.get_id() not in goal_ids]))

    def note(self, s):
        if s not in self.notes:
            self.notes.append(s)

    def trust(self, s):
        self.trusted.add(s)

    # -- arithmetic helpers
    def divmod(self, a, b):
        """floor division and modulo on (symbolic) ints -> (q, r)"""
        if isinstance(a, (SReal, float)) or isinstance(b, (SReal, float)):
            raise Unsupported("float // or %")
        if isinstance(b, SInt) and not isinstance(a, SInt):
            k = self.concretize(b)
            if k is not None:
                b = k
        if isinstance(b, int) and not isinstance(b, bool):
            if b == 0:
                raise RaiseSig(ZeroDivisionError("integer division or modulo by zero"))
            at = _i(a)
            if b > 0:
                m = self._match_div_const(at, b)
                if m is not None:
                    return m
                return SInt(at / b), SInt(at % b)
            # negative constant divisor: a // b == (-a) // (-b) ; a % b == -((-a) % (-b))
            return SInt((-at) / (-b)), SInt(-((-at) % (-b)))
        at, bt = _i(a), _i(b)
        key = (at.get_id(), bt.get_id())
        if key not in self._divmod:
            m = self._match_div(at, bt)
            if m is not None:
                self._divmod[key] = (m[0], m[1], True)
        if key in self._divmod:
            q, r, sign = self._divmod[key]
        else:
            if self.fork(bt == 0):
                raise RaiseSig(ZeroDivisionError("integer division or modulo by zero"))
            pos = self.fork(bt > 0)
            q = z3.Int(self.fresh_name("q"))
            r = z3.Int(self.fresh_name("r"))
            self.assume(at == q * bt + r)
            if pos:
                self.assume(z3.And(0 <= r, r < bt))
            else:
                self.assume(z3.And(bt < r, r <= 0))
            self._divmod[key] = (q, r, pos)
        return SInt(q), SInt(r)

    def concretize(self, v):
        """python int if the path condition entails a single value for the symbolic int, else None"""
        if isinstance(v, int):
            return v
        t = _i(v)
        if self.known_consts:
            ts = z3.simplify(z3.substitute(t, *self.known_consts))
            if z3.is_int_value(ts):
                return ts.as_long()
        if self.solver.check() != z3.sat:
            return None
        m = self.solver.model().eval(t, model_completion=True)
        if not z3.is_int_value(m):
            return None
        k = m.as_long()
        return k if not self._feasible(t != k) else None

    def _match_div_const(self, at, b):
        """a == A*b + k with a numeral 0 <= k < b  =>  (A, k)   (syntactic, exact)"""
        if z3.is_app(at) and at.decl().kind() == z3.Z3_OP_SUB:
            at = z3.simplify(at)
        if z3.is_mul(at):
            args = [at]
            k = 0
        elif z3.is_add(at):
            args = list(at.children())
            nums = [t for t in args if z3.is_int_value(t)]
            args = [t for t in args if not z3.is_int_value(t)]
            k = sum(t.as_long() for t in nums)
        else:
            return None
        if not (0 <= k < b) or not args:
            return None
        parts = []
        for t in args:
            if not z3.is_mul(t):
                return None
            fs = list(t.children())
            coef = 1
            rest = []
            for f in fs:
                if z3.is_int_value(f):
                    coef *= f.as_long()
                else:
                    rest.append(f)
            if coef % b != 0 or not rest:
                return None
            term = rest[0] if len(rest) == 1 else z3.Product(*rest)
            parts.append(term if coef == b else (coef // b) * term)
        A = parts[0] if len(parts) == 1 else z3.Sum(*parts)
        return SInt(A), k

    def _match_div(self, at, bt):
        """division-uniqueness lemma applied syntactically: if a is literally A*b + x and the path
        condition entails 0 <= x < b, then a // b == A and a % b == x."""
        if z3.is_mul(at):
            args = [at]
        elif z3.is_add(at):
            args = list(at.children())
        else:
            return None
        bid = bt.get_id()
        for k, t in enumerate(args):
            if z3.is_mul(t):
                fs = list(t.children())
                hit = [j for j, f in enumerate(fs) if f.get_id() == bid]
                if not hit:
                    # a factor provably equal to the divisor on this path counts too
                    hit = [j for j, f in enumerate(fs)
                           if not z3.is_int_value(f) and not self._feasible(f != bt)][:1]
                if hit:
                    rest = [f for j, f in enumerate(fs) if j != hit[0]]
                    A = rest[0] if len(rest) == 1 else z3.Product(*rest) if rest else z3.IntVal(1)
                    others = [u for j, u in enumerate(args) if j != k]
                    x = others[0] if len(others) == 1 else z3.Sum(*others) if others else z3.IntVal(0)
                    if not self._feasible(z3.Not(z3.And(x >= 0, x < bt))):
                        return A, x
        return None

    def pow2(self, e):
        """2 ** e for symbolic int e >= 0 (uninterpreted, with instantiated lemmas)."""
        k = self.concretize(e) if isinstance(e, SInt) else None
        if k is not None and 0 <= k <= 4096:
            return 1 << k
        et = _i(e)
        if self.fork(et < 0):
            raise Unsupported("2 ** negative (float result)")
        if not (z3.is_const(et) or z3.is_int_value(et)):
            v = z3.Int(self.fresh_name("exp"))
            self.assume(v == et)
            et = v
        p = self._pow2(et)
        self.assume(p >= 1)
        self.assume(p > et)
        for k in range(0, 66):
            self.assume(z3.Implies(et == k, p == (1 << k)))
        self.assume(z3.Implies(et > 65, p > (1 << 65)))
        for (e2, p2) in self._pow2_terms:
            self.assume(z3.Implies(et == e2, p == p2))
            self.assume(z3.Implies(et < e2, 2 * p <= p2))
            self.assume(z3.Implies(e2 < et, 2 * p2 <= p))
            self.assume(z3.Implies(et + 1 == e2, 2 * p == p2))
            self.assume(z3.Implies(e2 + 1 == et, 2 * p2 == p))
        self._pow2_terms.append((et, p))
        return SInt(p)


# --------------------------------------------------------------------------- discharge

def model_to_dict(m, c_inputs):
    out = {}
    for n, t in c_inputs.items():
        try:
            v = m.eval(t, model_completion=True)
            if z3.is_int_value(v):
                out[n] = v.as_long()
            elif z3.is_bv_value(v):
                out[n] = v.as_long()
            elif z3.is_true(v):
                out[n] = True
            elif z3.is_false(v):
                out[n] = False
            elif z3.is_fp_value(v) if hasattr(z3, "is_fp_value") else False:
                out[n] = str(v)
            elif z3.is_rational_value(v):
                out[n] = [v.numerator_as_long(), v.denominator_as_long()]
            else:
                out[n] = str(v)
        except Exception as e:  # pragma: no cover
            out[n] = f"<{e}>"
    return out


def check_sat(assumptions, extra, timeout_ms, nl=True):
    if nl:
        s = z3.Solver()
    else:
        # second strategy: plain SMT core after simplification (no QF_NIA tactic portfolio)
        s = z3.Then("simplify", "smt").solver()
    s.set("timeout", int(timeout_ms))
    for a in assumptions:
        s.add(a)
    for e in extra:
        s.add(e)
    t0 = time.time()
    r = s.check()
    return r, s, time.time() - t0


def discharge(ob, inputs, timeout_ms=20000, use_cvc5=True, minimise=True):
    """Returns dict(verdict= proved|refuted|unknown, backend, time, model?)"""
    if ob.meta.get("tactic") == "product-congruence":
        return {"name": ob.name, "fn": ob.fn, "line": ob.lineno, "kind": ob.kind, "time_s": 0.0,
                "backend": "pyvc AC-congruence of products; factor equalities by z3-" + z3.get_version_string(),
                "verdict": "proved"}
    neg = z3.Not(ob.goal)
    backend = "z3-" + z3.get_version_string()
    r, s, dt = check_sat(ob.assumptions, [neg], min(timeout_ms, 4000))
    if r == z3.unknown and use_cvc5 and ("fp." in ob.goal.sexpr() or "to_fp" in ob.goal.sexpr()):
        # floating-point goals: cvc5 decides these much faster than z3 here -- ask it before spending z3's budgets
        s0 = z3.Solver()
        for a in ob.assumptions:
            s0.add(a)
        s0.add(neg)
        v, dtc = cvc5_check(s0, timeout_ms)
        dt += dtc
        if v == "unsat":
            return {"name": ob.name, "fn": ob.fn, "line": ob.lineno, "kind": ob.kind, "time_s": round(dt, 4),
                    "backend": "cvc5-1.0.3 (floating-point goal, after z3 unknown at 4 s)", "verdict": "proved"}
    if r == z3.unknown:
        # the same z3 as a separate process on the exported query (non-incremental front end: its
        # preprocessing decides congruence-heavy mixed Int/BV queries the incremental API core gives up on)
        v, dtc = z3_cli_check(ob.assumptions, neg, min(timeout_ms, 20000))
        dt += dtc
        if os.environ.get("PYVC_DEBUG"):
            print("z3-cli:", ob.name, v, round(dtc, 2), flush=True)
        if v == "unsat":
            return {"name": ob.name, "fn": ob.fn, "line": ob.lineno, "kind": ob.kind, "time_s": round(dt, 4),
                    "backend": "z3-" + z3.get_version_string() + " CLI (exported query)", "verdict": "proved"}
    if r == z3.unknown:
        r2, s2, dt2 = check_sat(ob.assumptions, [neg], timeout_ms, nl=False)
        dt += dt2
        if r2 != z3.unknown:
            r, s = r2, s2
            backend = "z3-" + z3.get_version_string() + " (simplify;smt)"
        else:
            r3, s3, dt3 = check_sat(ob.assumptions, [neg], timeout_ms)
            dt += dt3
            r, s = r3, s3
    res = {"name": ob.name, "fn": ob.fn, "line": ob.lineno, "kind": ob.kind,
           "time_s": round(dt, 4), "backend": backend}
    if r == z3.unsat:
        res["verdict"] = "proved"
        return res
    if r == z3.sat:
        res["verdict"] = "refuted"
        m = s.model()
        if minimise:
            ints = [t for t in inputs.values() if z3.is_int(t)]
            for B in (2, 4, 8, 16, 64, 1024):
                bound = [z3.And(t >= -B, t <= B) for t in ints]
                r2, s2, _ = check_sat(ob.assumptions, [neg] + bound, min(timeout_ms, 5000))
                if r2 == z3.sat:
                    m = s2.model()
                    res["minimised_bound"] = B
                    break
        res["model"] = model_to_dict(m, inputs)
        res["_z3model"] = m
        return res
    # unknown -> try cvc5 CLI on the exported query
    res["z3_reason"] = s.reason_unknown()
    if use_cvc5:
        v, dt2 = cvc5_check(s, timeout_ms)
        res["time_s"] = round(dt + dt2, 4)
        if v == "unsat":
            res["verdict"] = "proved"
            res["backend"] = "cvc5-1.0.3 (after z3 unknown)"
            return res
        res["cvc5"] = v
        # mixed integer / bit-vector queries (bv2nat, int2bv): cvc5's integer translation of the bit-vectors
        smt_probe = s.to_smt2()
        if any(w in smt_probe for w in ("bv2nat", "bv2int", "int2bv", "ubv_to_int", "int_to_bv")):
            v2, dt3 = cvc5_check(s, timeout_ms, extra=("--solve-bv-as-int=sum",))
            res["time_s"] = round(dt + dt2 + dt3, 4)
            if v2 == "unsat":
                res["verdict"] = "proved"
                res["backend"] = "cvc5-1.0.3 --solve-bv-as-int=sum (after z3 unknown)"
                return res
            res["cvc5_bv_as_int"] = v2
    res["verdict"] = "unknown"
    return res


def z3_cli_check(assumptions, neg, timeout_ms):
    import os
    import shutil
    import subprocess
    import tempfile
    exe = shutil.which("z3-new")
    if exe is None:
        return "error:no z3-new", 0.0
    t0 = time.time()
    try:
        s = z3.Solver()
        for a in assumptions:
            s.add(a)
        s.add(neg)
        with tempfile.NamedTemporaryFile("w", suffix=".smt2", delete=False) as f:
            f.write("(set-logic ALL)\n" + s.to_smt2())
            fn = f.name
        try:
            p = subprocess.run([exe, f"-T:{max(1, int(timeout_ms / 1000))}", fn], capture_output=True, text=True,
                               timeout=timeout_ms / 1000 + 10)
            out = p.stdout.strip().splitlines()
            v = out[0].strip() if out else "error:" + p.stderr.strip()[:200]
        finally:
            os.unlink(fn)
    except Exception as e:  # pragma: no cover
        v = f"error:{e}"
    return v, time.time() - t0


def cvc5_check(solver, timeout_ms, extra=()):
    import os
    import subprocess
    import tempfile
    t0 = time.time()
    try:
        smt = solver.to_smt2()
        # z3 5.x prints the SMT-LIB 2.7 names; cvc5 1.0 knows the older ones
        smt = smt.replace("ubv_to_int", "bv2nat").replace("int_to_bv", "int2bv")
        smt = "(set-logic ALL)\n" + smt
        with tempfile.NamedTemporaryFile("w", suffix=".smt2", delete=False) as f:
            f.write(smt)
            fn = f.name
        try:
            p = subprocess.run(["/usr/bin/cvc5", "--lang=smt2", f"--tlimit={int(timeout_ms)}", *extra, fn],
                               capture_output=True, text=True, timeout=timeout_ms / 1000 + 10)
            out = p.stdout.strip().splitlines()
            v = out[0].strip() if out else "error:" + p.stderr.strip()[:200]
        finally:
            os.unlink(fn)
    except Exception as e:  # pragma: no cover
        v = f"error:{e}"
    return v, time.time() - t0


# --------------------------------------------------------------------------- exact-dyadic floats

class SDyad(Sym):
    """A float64 value known to be the dyadic rational num / den (den a concrete power of two).
    Regime 'exact-dyadic': IEEE arithmetic on such values is exact as long as |num| < 2^53, which is
    an obligation at the rounding step (np.rint)."""
    __slots__ = ("num", "den")

    def __init__(self, num, den=1):
        self.num = num if isinstance(num, z3.ExprRef) else z3.IntVal(int(num))
        self.den = den

    @staticmethod
    def of(v):
        if isinstance(v, SDyad):
            return v
        if isinstance(v, bool):
            return SDyad(z3.IntVal(int(v)), 1)
        if isinstance(v, int):
            return SDyad(z3.IntVal(v), 1)
        if isinstance(v, SInt):
            return SDyad(v.t, 1)
        if isinstance(v, float):
            from fractions import Fraction
            f = Fraction(v)
            d = f.denominator
            if d & (d - 1):
                raise Unsupported("non-dyadic float constant")
            return SDyad(z3.IntVal(f.numerator), d)
        import numpy as np
        if isinstance(v, np.floating):
            return SDyad.of(float(v))
        if isinstance(v, np.integer):
            return SDyad.of(int(v))
        raise Unsupported(f"cannot use {type(v).__name__} as a dyadic float")

    def _align(self, o):
        o = SDyad.of(o)
        d = max(self.den, o.den)
        return self.num * (d // self.den), o.num * (d // o.den), d

    def __add__(self, o):
        a, b, d = self._align(o)
        return SDyad(a + b, d)

    __radd__ = __add__

    def __sub__(self, o):
        a, b, d = self._align(o)
        return SDyad(a - b, d)

    def __rsub__(self, o):
        a, b, d = self._align(o)
        return SDyad(b - a, d)

    def __mul__(self, o):
        o = SDyad.of(o)
        if z3.is_int_value(o.num) or z3.is_int_value(self.num):
            return SDyad(self.num * o.num, self.den * o.den)
        raise Unsupported("product of two symbolic dyadic floats")

    __rmul__ = __mul__

    def __neg__(self):
        return SDyad(-self.num, self.den)

    def _cmp(self, o, f):
        a, b, d = self._align(o)
        return SBool(f(a, b))

    def __eq__(self, o):
        if o is None or isinstance(o, str):
            return False
        return self._cmp(o, lambda a, b: a == b)

    def __ne__(self, o):
        if o is None or isinstance(o, str):
            return True
        return self._cmp(o, lambda a, b: a != b)

    def __lt__(self, o): return self._cmp(o, lambda a, b: a < b)
    def __le__(self, o): return self._cmp(o, lambda a, b: a <= b)
    def __gt__(self, o): return self._cmp(o, lambda a, b: a > b)
    def __ge__(self, o): return self._cmp(o, lambda a, b: a >= b)
    def __hash__(self): return id(self)

    def rint(self):
        """round half to even -> integral dyadic"""
        if self.den == 1:
            return self
        d = self.den
        q = self.num / d            # floor (d > 0 constant)
        r = self.num % d
        res = z3.If(2 * r < d, q, z3.If(2 * r > d, q + 1, z3.If(q % 2 == 0, q, q + 1)))
        return SDyad(res, 1)

    def trunc_int(self):
        if self.den == 1:
            return self.num
        d = self.den
        return z3.If(self.num >= 0, self.num / d, -((-self.num) / d))

    def __repr__(self):
        return f"SDyad({self.num}/{self.den})"


_old_ite = ite


def ite(c, a, b):  # noqa: F811
    if isinstance(a, SDyad) or isinstance(b, SDyad):
        if isinstance(c, bool):
            return a if c else b
        x, y, d = SDyad.of(a)._align(b)
        return SDyad(z3.If(_b(c), x, y), d)
    return _old_ite(c, a, b)


_old_smin, _old_smax = smin, smax


def smin(a, b):  # noqa: F811
    if isinstance(a, SFP) or isinstance(b, SFP):
        x = a if isinstance(a, SFP) else b
        at, bt = (a.t if isinstance(a, SFP) else x._o(a)), (b.t if isinstance(b, SFP) else x._o(b))
        return SFP(z3.If(z3.fpLT(bt, at), bt, at))
    if isinstance(a, SDyad) or isinstance(b, SDyad):
        x, y, d = SDyad.of(a)._align(b)
        return SDyad(z3.If(y < x, y, x), d)
    return _old_smin(a, b)


def smax(a, b):  # noqa: F811
    if isinstance(a, SFP) or isinstance(b, SFP):
        x = a if isinstance(a, SFP) else b
        at, bt = (a.t if isinstance(a, SFP) else x._o(a)), (b.t if isinstance(b, SFP) else x._o(b))
        return SFP(z3.If(z3.fpGT(bt, at), bt, at))
    if isinstance(a, SDyad) or isinstance(b, SDyad):
        x, y, d = SDyad.of(a)._align(b)
        return SDyad(z3.If(y > x, y, x), d)
    return _old_smax(a, b)
