"""pyvc.runner -- ./check <Cxx> --tier quick|thorough | --replay <file> | --list

Exit codes: 0 property held on everything explored; 1 VIOLATION (line printed); 2 undecided
(unknown / unsupported construct after a code change); 3 checker crash.
"""
import argparse
import glob
import importlib
import json
import multiprocessing as mp
import os
import sys
import time
import traceback

ROOT = os.path.dirname(os.path.dirname(os.path.abspath(__file__)))
sys.path.insert(0, ROOT)

from pyvc import verify  # noqa: E402
from pyvc import models_py, models_numpy, sbytes, fsmodel  # noqa: E402,F401  (register library models)

EXTRACTION_DROPS = [
    "docstrings, type annotations, __all__",
    "logging / warnings calls (no-ops)",
    "tqdm(iterable) -> iterable, trange(n) -> range(n), progress_bar.update() (no-op), tqdm.write (no-op)",
    "print(...) recorded in a ghost log only",
    "text of exception messages and f-strings containing symbolic values (exception class kept)",
]

SEMANTICS = [
    "Python int is a mathematical integer (z3 Int); // and % are floor operations (fresh q,r encoding for symbolic divisors, ZeroDivisionError path explored)",
    "np.uint64 scalars are BitVec(64) with NumPy 2 semantics (wrapping + - *, shift >= 64 gives 0, unsigned compare)",
    "range()/np.ndindex() enumerate each index tuple exactly once (loop rules)",
]


def load_contracts():
    mods = []
    for f in sorted(glob.glob(os.path.join(ROOT, "contracts", "*.py"))):
        n = os.path.basename(f)[:-3]
        if n.startswith("_"):
            continue
        mods.append(importlib.import_module("contracts." + n))
    return mods


def load_known():
    p = os.path.join(ROOT, "known_findings.json")
    if not os.path.exists(p):
        return {"findings": [], "fixed": []}
    with open(p) as f:
        return json.load(f)


class scoped_tmp:
    """every temporary file or directory made while a unit runs (by the models' native replays, by the bounded
    units, and by the repository's own on-disk buffer classes, which never remove theirs) lives under one directory
    that is removed afterwards"""

    def __enter__(self):
        import tempfile
        self.old = tempfile.tempdir
        self.old_env = os.environ.get("TMPDIR")
        self.d = tempfile.mkdtemp(prefix="pyvc_run_")
        tempfile.tempdir = self.d
        os.environ["TMPDIR"] = self.d
        return self

    def __exit__(self, *a):
        import shutil
        import tempfile
        tempfile.tempdir = self.old
        if self.old_env is None:
            os.environ.pop("TMPDIR", None)
        else:
            os.environ["TMPDIR"] = self.old_env
        shutil.rmtree(self.d, ignore_errors=True)
        return False


def _task(a):
    with scoped_tmp():
        return _task_inner(a)


def _task_inner(a):
    idx, cfg_i, tier, known = a
    unit = verify.UNITS[idx]
    cfgs = unit.configs_for(tier)
    cfg = cfgs[cfg_i]
    try:
        if getattr(unit, "bounded", False):
            t0 = time.time()
            r = unit.run_bounded(cfg, tier)
            r.setdefault("unit", unit.unit_name())
            r.setdefault("cfg", unit.cfg_label(cfg))
            r["kind"] = "bounded"
            r["wall_s"] = round(time.time() - t0, 3)
            return r
        import signal

        def _alarm(signum, frame):
            raise verify.UnitTimeout()
        signal.signal(signal.SIGALRM, _alarm)
        default_budget = "600" if tier == "quick" else "5400"
        budget = int(os.environ.get("PYVC_UNIT_BUDGET_S", default_budget))
        budget = max(budget, int(getattr(unit, "wall_budget_s", 0)))       # a few slow lemmas declare a larger budget
        signal.alarm(budget)
        try:
            return verify.run_unit(unit, cfg, tier=tier, known=known)
        finally:
            signal.alarm(0)
    except Exception:
        return {"unit": unit.unit_name(), "cfg": unit.cfg_label(cfg), "crash": traceback.format_exc()[-2000:],
                "obligations": [], "paths": 0, "kind": "?"}


def select_units(prop, tier, only=None):
    out = []
    for i, u in enumerate(verify.UNITS):
        if prop not in u.props:
            continue
        if u.tier == "thorough" and tier != "thorough":
            continue
        if only and only not in u.unit_name():
            continue
        for j, _ in enumerate(u.configs_for(tier)):
            out.append((i, j))
    return out


def main(argv=None):
    ap = argparse.ArgumentParser()
    ap.add_argument("prop", nargs="?")
    ap.add_argument("--tier", default=os.environ.get("VERIF_TIER", "quick"), choices=["quick", "thorough"])
    ap.add_argument("--replay")
    ap.add_argument("--list", action="store_true")
    ap.add_argument("--unit", default=None, help="only units whose name contains this")
    ap.add_argument("--jobs", type=int, default=min(16, os.cpu_count() or 4))
    ap.add_argument("--verbose", "-v", action="store_true")
    ap.add_argument("--no-evidence", action="store_true")
    args = ap.parse_args(argv)
    seed = int(os.environ.get("VERIF_SEED", "0") or 0)
    os.environ["VERIF_SEED_EFFECTIVE"] = str(seed)

    load_contracts()
    if args.list:
        for u in verify.UNITS:
            print(",".join(u.props), u.unit_name(), "configs=%d" % len(u.configs_for("thorough")), u.tier,
                  "bounded" if u.bounded else "")
        return 0
    if args.replay:
        return do_replay(args.replay)
    prop = args.prop
    t0 = time.time()
    with scoped_tmp():
        return _main_run(args, prop, t0, seed)


def _main_run(args, prop, t0, seed):
    known = load_known()
    active = {}
    kf_lines = []
    kf_replayed = []
    selected_units = {verify.UNITS[i].unit_name() for (i, j) in select_units(prop, args.tier, args.unit)}
    for f in known.get("findings", []):
        # a finding is loaded by the check of its own property, and by every other check that runs the unit the
        # finding is about (the carve-out must be active wherever that unit's obligations are evaluated)
        if f["property"] != prop and f["unit"] not in selected_units and f.get("carrier_of") not in selected_units:
            continue
        unit = next((u for u in verify.UNITS if u.unit_name() == f["unit"]), None)
        still = None
        detail = ""
        if unit is not None and hasattr(unit, "witness"):
            try:
                still, detail = unit.witness(f)
            except Exception:
                still, detail = None, "witness replay crashed: " + traceback.format_exc()[-500:]
        if still:
            active[f["id"]] = True
            kf_lines.append(f"KNOWN-FINDING: property={f['property']} {f['what']}")
        kf_replayed.append({"id": f["id"], "still_fails": still, "detail": str(detail)[:500]})
    tasks = [(i, j, args.tier, active) for (i, j) in select_units(prop, args.tier, args.unit)]
    if not tasks:
        print(f"no units registered for {prop}")
        return 3
    results = []
    if args.jobs > 1 and len(tasks) > 1:
        ctxm = mp.get_context("fork")
        with ctxm.Pool(min(args.jobs, len(tasks)), maxtasksperchild=1) as pool:   # fresh process per unit (no state leaks)
            for r in pool.imap_unordered(_task, tasks, chunksize=1):
                results.append(r)
                if args.verbose:
                    _print_unit(r)
    else:
        for t in tasks:
            r = _task(t)
            results.append(r)
            if args.verbose:
                _print_unit(r)
    results.sort(key=lambda r: (r["unit"], r.get("cfg", "")))
    return report(prop, args, results, kf_lines, kf_replayed, known, time.time() - t0, seed)


def _print_unit(r):
    obs = r.get("obligations", [])
    nb = {}
    for o in obs:
        nb[o["verdict"]] = nb.get(o["verdict"], 0) + 1
    print(f"[{r['unit']} {r.get('cfg','')}] kind={r.get('kind')} paths={r.get('paths')} {nb} "
          f"unsupported={r.get('unsupported')} crash={'yes' if r.get('crash') else None} "
          f"wall={r.get('wall_s')}", flush=True)
    if r.get("crash"):
        print(r["crash"])
    shown = 0
    for o in obs:
        if o["verdict"] != "proved":
            shown += 1
            if shown <= 4:
                print("    ", o["verdict"], o["name"], "line", o.get("line"), o.get("model"), o.get("replay"), o.get("z3_reason", ""))
    for v in r.get("bounded_violations", []) or []:
        print("     bounded violation:", v)


def report(prop, args, results, kf_lines, kf_replayed, known, wall, seed):
    os.makedirs(os.path.join(ROOT, "replay"), exist_ok=True)
    os.makedirs(os.path.join(ROOT, "evidence"), exist_ok=True)
    n_ob = n_dis = 0
    violations = []
    undecided = []
    crashes = []
    trusted = set()
    notes = []
    samples = []
    fns = []
    bounded = []
    backends = {}
    solver_time = 0.0
    vac_total = vac_sat = 0
    paths = 0
    inlined = set()
    applied = set()
    for r in results:
        if r.get("crash"):
            crashes.append((r["unit"], r.get("cfg"), r["crash"]))
        if r.get("kind") == "bounded":
            bounded.append({"unit": r["unit"], "cfg": r.get("cfg"), "bound": r.get("bound"),
                            "cases": r.get("cases"), "violations": len(r.get("bounded_violations", []))})
            for v in r.get("bounded_violations", []):
                violations.append({"unit": r["unit"], "cfg": r.get("cfg"), "obligation": v.get("obligation", "bounded"),
                                   "bounded": True, "replay": {"reproduced": True, "detail": v}})
            continue
        if r.get("unsupported"):
            undecided.append((r["unit"], r.get("cfg"), "UNSUPPORTED " + r["unsupported"]))
        bf = r.get("bounded_fallback")
        if bf:
            bounded.append({"unit": r["unit"], "cfg": r.get("cfg"), "bound": bf.get("bound"), "cases": bf.get("cases"),
                            "violations": len(bf.get("violations", [])), "reason": "stand-in for an undecided unit"})
            for v in bf.get("violations", []):
                violations.append({"unit": r["unit"], "cfg": r.get("cfg"), "obligation": "bounded-stand-in",
                                   "model": v["model"], "replay": v["replay"], "fn": r.get("fn"),
                                   "goal": "native small-scope check of the same contract (the symbolic unit was undecided)"})
        paths += r.get("paths", 0)
        solver_time += r.get("solver_time_s", 0)
        v = r.get("vacuity", {})
        vac_total += v.get("paths_checked", 0)
        vac_sat += v.get("paths_sat", 0)
        if v.get("paths_checked", 0) and v.get("paths_sat", 0) == 0 and not r.get("unsupported"):
            crashes.append((r["unit"], r.get("cfg"), "vacuity: no completed path is satisfiable (contradictory assumptions)"))
        for cname in v.get("covers_unsat", []):
            crashes.append((r["unit"], r.get("cfg"), f"vacuity: the assumptions of {cname} are contradictory"))
        trusted |= set(r.get("trusted", []))
        inlined |= set(r.get("inlined", []))
        applied |= set(r.get("contract_applied", []))
        for n in r.get("notes", []):
            if n not in notes:
                notes.append(n)
        if r.get("fn"):
            fns.append({"function": r["fn"], "cfg": r.get("cfg"), "source_sha256_16": r.get("source_hash"),
                        "paths": r.get("paths"), "obligations": len(r.get("obligations", []))})
        obs = r.get("obligations", [])
        if not obs and not r.get("unsupported") and not r.get("crash"):
            crashes.append((r["unit"], r.get("cfg"), "zero obligations generated"))
        for o in obs:
            n_ob += 1
            backends[o["backend"]] = backends.get(o["backend"], 0) + 1
            if o["verdict"] == "proved":
                n_dis += 1
                if len(samples) < 6 and (len(samples) == 0 or samples[-1]["function"] != r.get("fn", r["unit"])):
                    samples.append({"obligation": o["name"], "function": r.get("fn", r["unit"]), "cfg": r.get("cfg"),
                                    "line": o.get("line"), "goal": o.get("goal"), "backend": o["backend"],
                                    "time_s": o["time_s"], "source_sha256_16": r.get("source_hash")})
            elif o["verdict"] == "refuted":
                violations.append({"unit": r["unit"], "cfg": r.get("cfg"), "obligation": o["name"], "line": o.get("line"),
                                   "model": o.get("model"), "replay": o.get("replay"), "goal": o.get("goal"),
                                   "fn": r.get("fn")})
            else:
                undecided.append((r["unit"], r.get("cfg"), f"unknown {o['name']} line {o.get('line')}: {o.get('z3_reason')} cvc5={o.get('cvc5')}"))
    for l in kf_lines:
        print(l)
    # one VIOLATION per (unit, obligation): keep the first reproduced one if any
    grouped = {}
    for v in violations:
        k = (v["unit"], v["obligation"])
        cur = grouped.get(k)
        rep = bool(v.get("replay") and v["replay"].get("reproduced"))
        if cur is None or (rep and not (cur.get("replay") and cur["replay"].get("reproduced"))):
            grouped[k] = v
    vio_lines = []
    for i, ((unit, obn), v) in enumerate(sorted(grouped.items())):
        path = os.path.join(ROOT, "replay", f"{prop}-{i:03d}.json")
        rep = v.get("replay") or {}
        doc = {"property": prop, "unit": unit, "function": v.get("fn"), "cfg": v.get("cfg"), "obligation": obn,
               "line": v.get("line"), "solver_verdict": "bounded-native" if v.get("bounded") else "sat (goal refuted)",
               "model": v.get("model"), "goal": v.get("goal"), "native_replay": rep,
               "reproduced": bool(rep.get("reproduced"))}
        with open(path, "w") as f:
            json.dump(doc, f, indent=1, default=str)
        tail = "" if rep.get("reproduced") else " no-failing-input-found"
        vio_lines.append(f"VIOLATION property={prop} replay={path} obligation={unit}::{obn}{tail}")
    for l in vio_lines:
        print(l)
    for u in undecided:
        print(f"UNDECIDED property={prop} unit={u[0]} cfg={u[1]} {u[2]}")
    for cr in crashes:
        print(f"CHECKER-CRASH property={prop} unit={cr[0]} cfg={cr[1]}\n{cr[2]}")
    assumed_only = sorted(a for a in applied
                          if not any(getattr(u, "target", None) == a and getattr(u, "has_body", True) for u in verify.UNITS))
    level = "proof"
    try:
        with open(os.path.join(ROOT, "MANIFEST.json")) as f:
            for ch in json.load(f).get("checks", []):
                if ch["property_id"] == prop:
                    level = ch["level_claimed"]["category"]
    except Exception:
        pass
    ev = {
        "property_id": prop, "tier": args.tier, "seed": seed, "level": level,
        "coverage": {
            "obligations": n_ob, "discharged": n_dis,
            "checker_cmd": f"./check {prop} --tier {args.tier}",
            "trusted_base": sorted(trusted) + [f"assumed contract (no body verified): {a}" for a in assumed_only],
            "samples": samples,
            "functions_under_contract": fns,
            "paths_explored": paths,
            "backends": backends,
            "solver_time_s": round(solver_time, 2),
            "undecided": [list(u) for u in undecided],
            "bounded_standins": bounded,
            "callee_contracts_applied": sorted(applied),
            "callees_inlined": sorted(inlined),
            "extraction_drops": EXTRACTION_DROPS,
            "vacuity_checks": {"completed_paths": vac_total, "satisfiable": vac_sat},
            "known_findings_replayed": kf_replayed,
            "explanation": "every obligation is one SMT query (assumptions AND path condition AND NOT goal) generated by symbolically executing the AST of the real /repo source under the sidecar contract; discharged == unsat",
        },
        "assumptions": SEMANTICS + notes,
        "wall_s": round(wall, 2),
        "violations": len(vio_lines),
    }
    if not args.no_evidence and not args.unit:
        with open(os.path.join(ROOT, "evidence", f"{prop}.json"), "w") as f:
            json.dump(ev, f, indent=1, default=str)
    print(f"{prop} tier={args.tier}: units={len(results)} paths={paths} obligations={n_ob} discharged={n_dis} "
          f"violations={len(vio_lines)} undecided={len(undecided)} bounded_units={len(bounded)} "
          f"solver={solver_time:.1f}s wall={wall:.1f}s")
    if crashes:
        return 3
    if vio_lines:
        return 1
    if undecided:
        return 2
    return 0


def do_replay(path):
    with open(path) as f:
        doc = json.load(f)
    unit = next((u for u in verify.UNITS if u.unit_name() == doc["unit"]), None)
    if unit is None:
        print("unknown unit", doc["unit"])
        return 3
    cfgs = unit.configs_for("thorough")
    cfg = next((c for c in cfgs if unit.cfg_label(c) == doc.get("cfg")), cfgs[0])
    if doc.get("solver_verdict") == "bounded-native":
        rp = unit.replay_bounded(doc["native_replay"]["detail"])
    else:
        rp = unit.replay(doc.get("model") or {}, cfg, doc["obligation"])
    print(json.dumps(rp, indent=1, default=str))
    if rp and rp.get("reproduced"):
        print(f"VIOLATION property={doc['property']} replay={path}")
        return 1
    return 0


if __name__ == "__main__":
    sys.exit(main())
