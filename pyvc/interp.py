"""pyvc.interp -- symbolic interpreter over the Python AST of the *real* repo source.

What the extraction drops (and nothing else): docstrings, annotations, calls on `logging`
loggers / `warnings` (no-ops), `tqdm(iterable, ...)` -> iterable, `trange(n)` -> range(n),
progress-bar `.update()`/`.close()` (no-ops), `tqdm.write` (no-op), `print(...)` (recorded in a
ghost log), the *text* of exception messages / f-strings containing symbolic values.
"""
import ast
import builtins
import inspect
import logging
import os
import sys
import types

import numpy as np

from . import core
from .core import (RaiseSig, SBool, SInt, SObj, SReal, STrueDiv, SU64, Sym, Unsupported, ctx,
                   is_sym)
from .core import ite, smax, smin  # noqa: E402

REPO_PKG = "neuroglancer_scripts"

# --------------------------------------------------------------------------- source access

_AST_CACHE = {}
_FN_AST_CACHE = {}


def module_ast(filename):
    if filename not in _AST_CACHE:
        with open(filename, encoding="utf-8") as f:
            src = f.read()
        _AST_CACHE[filename] = (ast.parse(src, filename), src)
    return _AST_CACHE[filename]


def function_ast(fn):
    """FunctionDef node of a real Python function, read from the file on disk (current tree)."""
    code = fn.__code__
    key = (code.co_filename, code.co_firstlineno, code.co_name)
    if key in _FN_AST_CACHE:
        return _FN_AST_CACHE[key]
    tree, _ = module_ast(code.co_filename)
    found = None
    for node in ast.walk(tree):
        if isinstance(node, (ast.FunctionDef, ast.Lambda)):
            name = getattr(node, "name", "<lambda>")
            if name != code.co_name:
                continue
            lines = {node.lineno} | {d.lineno for d in getattr(node, "decorator_list", [])}
            if code.co_firstlineno in lines:
                found = node
                break
    if found is None:
        raise Unsupported(f"cannot locate source of {fn!r}")
    _FN_AST_CACHE[key] = found
    return found


def source_segment_hash(fn):
    import hashlib
    node = function_ast(fn)
    _, src = module_ast(fn.__code__.co_filename)
    seg = ast.get_source_segment(src, node) or ""
    return hashlib.sha256(seg.encode()).hexdigest()[:16]


def qualname(fn):
    return f"{fn.__module__}.{fn.__qualname__}"


# --------------------------------------------------------------------------- control signals

class ReturnSig(Exception):
    def __init__(self, value):
        self.value = value


class BreakSig(Exception):
    pass


class ContinueSig(Exception):
    pass


class SymStr(str):
    """string whose content depends on symbolic values; .parts keeps the structure
    (str constants and symbolic objects) for the few places where it matters (file names)"""
    parts = None


class NoOp:
    """tqdm progress bars, loggers ..."""

    def __init__(self, name="noop"):
        self._name = name

    def __call__(self, *a, **k):
        return None

    def __getattr__(self, n):
        return NoOp(self._name + "." + n)

    def __enter__(self):
        return self

    def __exit__(self, *a):
        return False


class SRange:
    def __init__(self, start, stop, step=1):
        self.start, self.stop, self.step = start, stop, step


class SNdIndex:
    def __init__(self, dims):
        self.dims = tuple(dims)


class IFunc:
    """closure created by interpreting a FunctionDef / Lambda"""

    def __init__(self, node, frame, name, owner=None):
        self.node = node
        self.frame = frame
        self.name = name
        self.owner = owner
        self.__name__ = name


class IBound:
    def __init__(self, obj, fn, owner):
        self.obj = obj
        self.fn = fn          # real function or IFunc
        self.owner = owner    # defining class (for super())


class SSuper:
    def __init__(self, obj, after_cls):
        self.obj = obj
        self.after = after_cls


class Frame:
    def __init__(self, locals_, closure, globals_, fn_name, owner=None, self_obj=None):
        self.locals = locals_
        self.closure = closure      # Frame | dict | None
        self.globals = globals_
        self.fn_name = fn_name
        self.owner = owner
        self.self_obj = self_obj
        self.exc_stack = []

    def lookup(self, name):
        f = self
        harness = False
        while f is not None:
            if isinstance(f, dict):
                if name in f:
                    return f[name]
                break
            if getattr(f, "harness_closure", False):
                harness = True
            if name in f.locals:
                return f.locals[name]
            f = f.closure
        if name in self.globals:
            return self.globals[name]
        if hasattr(builtins, name):
            return getattr(builtins, name)
        if harness:
            # a nested function verified against a closure the contract's harness supplies: a free variable
            # the harness does not know means the enclosing function was edited (renamed variable)
            raise Unsupported(f"the nested function reads the enclosing variable {name!r}, which the contract's closure does not provide")
        raise RaiseSig(NameError(name))

    def contract_lookup(self, name):
        """a contract / loop rule reading a local of the function it is attached to: a missing name means the
        code was edited (renamed local) and the contract cannot be evaluated -- undecided, never a verdict"""
        try:
            return self.lookup(name)
        except RaiseSig:
            raise Unsupported(f"the contract refers to the local variable {name!r}, which the function no longer has")

    def find_frame_with(self, name):
        f = self.closure
        while f is not None and not isinstance(f, dict):
            if name in f.locals:
                return f
            f = f.closure
        return None


def contains_sym(v, depth=0):
    if isinstance(v, (Sym, SObj, IFunc, IBound, SRange, SNdIndex)):
        return True
    if getattr(v, "_pyvc_symbolic", False):
        return True
    if depth > 6:
        return False
    if isinstance(v, (list, tuple, set, frozenset)):
        return any(contains_sym(x, depth + 1) for x in v)
    if isinstance(v, dict):
        return any(contains_sym(x, depth + 1) for x in v.values()) or \
            any(contains_sym(x, depth + 1) for x in v.keys())
    if isinstance(v, slice):
        return any(contains_sym(x, depth + 1) for x in (v.start, v.stop, v.step))
    return False


def lookup_class_attr(cls, name):
    for k in cls.__mro__:
        if name in k.__dict__:
            return k, k.__dict__[name]
    return None, None


MODELS = {}        # id(callable) -> (callable, model)
METHOD_MODELS = {}  # (type, name) -> model(interp, self, *args, **kw)


def harness(f):
    """mark a function defined in a contract file as harness code to be interpreted"""
    f._pyvc_harness = True
    return f


def model(*targets):
    def deco(f):
        for t in targets:
            MODELS[id(t)] = (t, f)
        return f
    return deco


class Interp:
    MAX_DEPTH = 40

    def __init__(self, contracts=None, loop_specs=None, verifying=None, inline=()):
        self.contracts = contracts or {}
        self.loop_specs = loop_specs or []
        self.verifying = verifying       # qualname being verified (never contract-applied at top)
        self.depth = 0
        self.inlined = set()
        self.contract_applied = set()
        self.force_inline = set(inline)
        self.top_done = False

    # ------------------------------------------------------------------ calls
    def call(self, f, args=(), kwargs=None):
        kwargs = kwargs or {}
        c = ctx()
        if isinstance(f, IFunc):
            con = self.contracts.get(f.name)
            if con is not None and f.name not in self.force_inline and f.name != self.verifying:
                self.contract_applied.add(f.name)
                return con.apply(self, f, args, kwargs)
            return self.call_node(f.node, f.frame, f.name, args, kwargs, closure=f.frame,
                                  globals_=f.frame.globals, owner=f.owner)
        if isinstance(f, IBound):
            if isinstance(f.fn, IFunc):
                return self.call(f.fn, (f.obj,) + tuple(args), kwargs)
            return self.call_real(f.fn, (f.obj,) + tuple(args), kwargs, owner=f.owner)
        if isinstance(f, NoOp):
            return None
        if f is object.__init__:
            return None
        if getattr(f, "_pyvc_callable", False):
            return f(*args, **kwargs)
        ent = MODELS.get(id(f))
        if ent is not None and ent[0] is f:
            return ent[1](self, *args, **kwargs)
        if isinstance(f, types.MethodType):
            slf = f.__self__
            import pathlib as _pl
            if isinstance(slf, _pl.PurePath):
                from . import fsmodel
                return fsmodel.path_method(self, slf, f.__name__, args, kwargs)
            ent2 = MODELS.get(id(f.__func__))
            if ent2 is not None and ent2[0] is f.__func__:
                return ent2[1](self, slf, *args, **kwargs)
            if getattr(slf, "_pyvc_symbolic", False):
                return f(*args, **kwargs)
            fn = f.__func__
            if getattr(fn, "__module__", "").startswith(REPO_PKG) if isinstance(getattr(fn, "__module__", None), str) else False:
                return self.call_real(fn, (slf,) + tuple(args), kwargs)
        if isinstance(f, types.BuiltinMethodType) or type(f).__name__ in ("method-wrapper", "builtin_function_or_method", "method_descriptor"):
            slf = getattr(f, "__self__", None)
            mm = METHOD_MODELS.get((type(slf), f.__name__)) if slf is not None else None
            if mm is not None:
                return mm(self, slf, *args, **kwargs)
            if isinstance(slf, str) and f.__name__ == "format" and (contains_sym(args) or contains_sym(kwargs)):
                vals = list(args) + list(kwargs.values())
                if all(isinstance(v, (SInt, str, int)) for v in vals) and not isinstance(slf, SymStr):
                    from . import fsmodel
                    return fsmodel.fmt(slf, *args, **kwargs)      # tokenised string (file names)
                return SymStr("<symbolic message>")
            if isinstance(slf, (list, dict, set, bytearray)) and f.__name__ in (
                    "append", "extend", "get", "pop", "items", "keys", "values", "setdefault",
                    "add", "update", "insert", "copy", "clear", "remove", "index"):
                if isinstance(slf, bytearray) and contains_sym(args):
                    raise Unsupported("bytearray method with symbolic argument")
                if f.__name__ in ("remove", "index") and contains_sym(args):
                    raise Unsupported("list search with symbolic argument")
                if isinstance(slf, (dict, set)) and f.__name__ in ("get", "pop", "setdefault", "add", "remove") \
                        and args and contains_sym(args[0]):
                    raise Unsupported("dict/set access with symbolic key")
                try:
                    return f(*args, **kwargs)
                except RaiseSig:
                    raise
                except Exception as e:
                    raise RaiseSig(e)
        if isinstance(f, types.FunctionType):
            mod = f.__module__ or ""
            if mod.startswith(REPO_PKG) or getattr(f, "_pyvc_harness", False):
                return self.call_real(f, args, kwargs)
        if isinstance(f, type):
            if f.__module__.startswith(REPO_PKG):
                return self.instantiate(f, args, kwargs)
            if issubclass(f, BaseException):
                try:
                    return f(*[a if not contains_sym(a) else "<sym>" for a in args])
                except Exception:
                    return f()
        if contains_sym(args) or contains_sym(kwargs):
            raise Unsupported(f"call of {getattr(f, '__module__', '?')}.{getattr(f, '__qualname__', getattr(f, '__name__', repr(f)))} with symbolic arguments (no model)")
        try:
            return f(*args, **kwargs)
        except RaiseSig:
            raise
        except Unsupported:
            raise
        except (core.PathInfeasible, core.SpecAbort):
            raise
        except Exception as e:
            raise RaiseSig(e)

    def instantiate(self, cls, args, kwargs):
        if issubclass(cls, BaseException):
            try:
                return cls(*[a if not contains_sym(a) else "<sym>" for a in args])
            except Exception:
                return cls()
        qn = f"{cls.__module__}.{cls.__qualname__}"
        con = self.contracts.get(qn)
        if con is not None and self.verifying != qn + ".__init__" and qn not in self.force_inline:
            self.contract_applied.add(qn)
            return con.apply(self, None, args, kwargs)
        obj = SObj(cls)
        owner, init = lookup_class_attr(cls, "__init__")
        if owner is not None and isinstance(init, types.FunctionType):
            self.call_real(init, (obj,) + tuple(args), kwargs, owner=owner)
        elif owner is object or owner is None:
            pass
        else:
            raise Unsupported(f"cannot instantiate {cls.__name__}: non-python __init__")
        return obj

    def call_real(self, fn, args, kwargs, owner=None):
        qn = qualname(fn)
        con = self.contracts.get(qn)
        if con is not None and qn not in self.force_inline and not (qn == self.verifying and not self.top_done):
            self.contract_applied.add(qn)
            return con.apply(self, fn, args, kwargs)
        if qn == self.verifying and not self.top_done:
            self.top_done = True
        else:
            self.inlined.add(qn)
        node = function_ast(fn)
        closure = None
        if fn.__closure__:
            closure = dict(zip(fn.__code__.co_freevars, [cell.cell_contents for cell in fn.__closure__]))
        if owner is None and "." in fn.__qualname__:
            parts = fn.__qualname__.split(".")
            cand = fn.__globals__.get(parts[-2]) if len(parts) >= 2 and "<locals>" not in parts else None
            if isinstance(cand, type):
                owner = cand
        defaults = dict(kwdefaults=fn.__kwdefaults__ or {}, defaults=fn.__defaults__ or ())
        return self.call_node(node, None, qn, args, kwargs, closure=closure, globals_=fn.__globals__,
                              owner=owner, real_defaults=defaults)

    def call_node(self, node, def_frame, name, args, kwargs, closure, globals_, owner=None, real_defaults=None):
        if self.depth > self.MAX_DEPTH:
            raise Unsupported("call depth limit")
        a = node.args
        params = [p.arg for p in a.posonlyargs + a.args]
        loc = {}
        args = list(args)
        if len(args) > len(params) and not a.vararg:
            raise RaiseSig(TypeError(f"{name}() takes {len(params)} positional arguments but {len(args)} were given"))
        for p, v in zip(params, args):
            loc[p] = v
        if a.vararg:
            loc[a.vararg.arg] = tuple(args[len(params):])
        kw = dict(kwargs)
        for p in params[len(args):]:
            if p in kw:
                loc[p] = kw.pop(p)
        for p in a.kwonlyargs:
            if p.arg in kw:
                loc[p.arg] = kw.pop(p.arg)
        # defaults
        if real_defaults is not None:
            dvals = list(real_defaults["defaults"])
            kwd = real_defaults["kwdefaults"]
        else:
            dvals = [self.eval(d, def_frame) for d in a.defaults]
            kwd = {p.arg: self.eval(d, def_frame) for p, d in zip(a.kwonlyargs, a.kw_defaults) if d is not None}
        for p, d in zip(params[len(params) - len(dvals):], dvals):
            if p not in loc:
                loc[p] = d
        for p in a.kwonlyargs:
            if p.arg not in loc and p.arg in kwd:
                loc[p.arg] = kwd[p.arg]
        if a.kwarg:
            loc[a.kwarg.arg] = kw
            kw = {}
        if kw:
            raise RaiseSig(TypeError(f"{name}() got unexpected keyword arguments {list(kw)}"))
        for p in params:
            if p not in loc:
                raise RaiseSig(TypeError(f"{name}() missing required argument {p!r}"))
        fr = Frame(loc, closure, globals_, name, owner=owner,
                   self_obj=(loc.get(params[0]) if params else None))
        self.depth += 1
        try:
            if isinstance(node, ast.Lambda):
                return self.eval(node.body, fr)
            try:
                self.exec_block(node.body, fr)
            except ReturnSig as r:
                return r.value
            return None
        finally:
            self.depth -= 1

    # ------------------------------------------------------------------ statements
    def exec_block(self, stmts, fr):
        for s in stmts:
            self.exec_stmt(s, fr)

    def exec_stmt(self, s, fr):
        ctx().cur_line = f"{fr.fn_name.split('.')[-1]}:{getattr(s, 'lineno', '?')}"
        m = getattr(self, "s_" + type(s).__name__, None)
        if m is None:
            raise Unsupported(f"statement {type(s).__name__} at {fr.fn_name}:{s.lineno}")
        try:
            return m(s, fr)
        except RaiseSig as e:
            if e.lineno is None:
                e.lineno = f"{fr.fn_name}:{getattr(s, 'lineno', '?')}"
            raise

    def s_Expr(self, s, fr):
        if isinstance(s.value, ast.Constant):
            return  # docstring
        self.eval(s.value, fr)

    def s_Pass(self, s, fr):
        pass

    def s_Import(self, s, fr):
        for al in s.names:
            mod = __import__(al.name)
            if al.asname:
                mod = sys.modules[al.name]
                fr.locals[al.asname] = mod
            else:
                fr.locals[al.name.split(".")[0]] = mod

    def s_ImportFrom(self, s, fr):
        mod = __import__(s.module, fromlist=[a.name for a in s.names])
        for al in s.names:
            fr.locals[al.asname or al.name] = getattr(mod, al.name)

    def s_Return(self, s, fr):
        raise ReturnSig(self.eval(s.value, fr) if s.value is not None else None)

    def s_Break(self, s, fr):
        raise BreakSig()

    def s_Continue(self, s, fr):
        raise ContinueSig()

    def s_Global(self, s, fr):
        raise Unsupported("global statement")

    def s_Nonlocal(self, s, fr):
        raise Unsupported("nonlocal statement")

    def s_Delete(self, s, fr):
        for t in s.targets:
            if isinstance(t, ast.Name):
                fr.locals.pop(t.id, None)
            elif isinstance(t, ast.Attribute):
                o = self.eval(t.value, fr)
                if isinstance(o, SObj):
                    self.heap_write()
                    o.attrs.pop(t.attr, None)
                else:
                    delattr(o, t.attr)
            elif isinstance(t, ast.Subscript):
                o = self.eval(t.value, fr)
                k = self.eval(t.slice, fr)
                if contains_sym(k):
                    raise Unsupported("del with symbolic key")
                del o[k]
            else:
                raise Unsupported("del target")

    def s_Assert(self, s, fr):
        v = self.eval(s.test, fr)
        if not self.truth(v):
            raise RaiseSig(AssertionError("assert at %s:%s" % (fr.fn_name, s.lineno)))

    def s_Raise(self, s, fr):
        if s.exc is None:
            if fr.exc_stack:
                raise RaiseSig(fr.exc_stack[-1])
            raise RaiseSig(RuntimeError("No active exception to reraise"))
        e = self.eval(s.exc, fr)
        if isinstance(e, type):
            e = self.call(e, ())
        if not isinstance(e, BaseException):
            raise Unsupported("raise of non-exception value")
        raise RaiseSig(e)

    def s_FunctionDef(self, s, fr):
        f = IFunc(s, fr, fr.fn_name + ".<locals>." + s.name, owner=fr.owner)
        for d in reversed(s.decorator_list):
            raise Unsupported("decorated nested function")
        fr.locals[s.name] = f

    def assign(self, target, value, fr):
        if isinstance(target, ast.Name):
            fr.locals[target.id] = value
        elif isinstance(target, (ast.Tuple, ast.List)):
            vals = self.iterate(value)
            star = [i for i, e in enumerate(target.elts) if isinstance(e, ast.Starred)]
            if star:
                i = star[0]
                n_after = len(target.elts) - i - 1
                if len(vals) < len(target.elts) - 1:
                    raise RaiseSig(ValueError("not enough values to unpack"))
                for t, v in zip(target.elts[:i], vals[:i]):
                    self.assign(t, v, fr)
                self.assign(target.elts[i].value, list(vals[i:len(vals) - n_after]), fr)
                for t, v in zip(target.elts[i + 1:], vals[len(vals) - n_after:]):
                    self.assign(t, v, fr)
                return
            if len(vals) != len(target.elts):
                raise RaiseSig(ValueError(f"unpack: expected {len(target.elts)} values, got {len(vals)}"))
            for t, v in zip(target.elts, vals):
                self.assign(t, v, fr)
        elif isinstance(target, ast.Attribute):
            o = self.eval(target.value, fr)
            self.setattr(o, target.attr, value)
        elif isinstance(target, ast.Subscript):
            o = self.eval(target.value, fr)
            k = self.eval(target.slice, fr)
            self.setitem(o, k, value)
        else:
            raise Unsupported(f"assignment target {type(target).__name__}")

    def heap_write(self):
        if ctx().spec:
            raise core.SpecAbort()

    def setattr(self, o, name, value):
        self.heap_write()
        if isinstance(o, SObj):
            owner, raw = lookup_class_attr(o.cls, name)
            if isinstance(raw, property):
                if raw.fset is None:
                    raise RaiseSig(AttributeError(name))
                return self.call_real(raw.fset, (o, value), {}, owner=owner)
            o.attrs[name] = value
            return
        if contains_sym(value) and not getattr(o, "_pyvc_symbolic", False) and not isinstance(o, NoOp):
            # native object receiving a symbolic attribute (e.g. nibabel proxy._slope)
            try:
                object.__setattr__(o, name, value)
                return
            except Exception:
                raise Unsupported(f"setattr on native {type(o).__name__}")
        setattr(o, name, value)

    def setitem(self, o, k, value):
        self.heap_write()
        if getattr(o, "_pyvc_symbolic", False):
            return o.setitem(k, value)
        if isinstance(o, (list, dict)):
            if contains_sym(k):
                sd = METHOD_MODELS.get((type(o), "__setitem__"))
                if sd:
                    return sd(self, o, k, value)
                if isinstance(o, dict) and isinstance(k, (SInt, SU64)):
                    # the key takes finitely many values on this path (e.g. a masked id): one path per value
                    v = self.case_split_value(k)
                    o[np.uint64(v) if isinstance(k, SU64) else v] = value
                    return
                raise Unsupported("store with symbolic key/index into native container")
            try:
                o[k] = value
            except Exception as e:
                raise RaiseSig(e)
            return
        if isinstance(o, SObj):
            owner, raw = lookup_class_attr(o.cls, "__setitem__")
            if isinstance(raw, types.FunctionType):
                return self.call_real(raw, (o, k, value), {}, owner=owner)
        if contains_sym(k) or contains_sym(value):
            raise Unsupported(f"setitem on native {type(o).__name__} with symbolic operands")
        try:
            o[k] = value
        except Exception as e:
            raise RaiseSig(e)

    def s_Assign(self, s, fr):
        v = self.eval(s.value, fr)
        for t in s.targets:
            self.assign(t, v, fr)

    def s_AnnAssign(self, s, fr):
        if s.value is not None:
            self.assign(s.target, self.eval(s.value, fr), fr)

    def s_AugAssign(self, s, fr):
        load = ast.copy_location(_as_load(s.target), s.target)
        cur = self.eval(load, fr)
        rhs = self.eval(s.value, fr)
        v = self.binop(s.op, cur, rhs, inplace=True)
        self.assign(s.target, v, fr)

    def truth(self, v):
        if isinstance(v, (bool, int, float, str, bytes, type(None), tuple, list, dict, set, range)):
            return bool(v)
        if isinstance(v, (SBool, SInt, SU64, SReal)):
            return bool(v)
        if getattr(v, "_pyvc_symbolic", False):
            return v.truth()
        if isinstance(v, SObj):
            owner, raw = lookup_class_attr(v.cls, "__bool__")
            if raw is None:
                owner, raw = lookup_class_attr(v.cls, "__len__")
                if isinstance(raw, types.FunctionType):
                    return self.truth(self.call_real(raw, (v,), {}, owner=owner) != 0)
                return True
            return self.truth(self.call_real(raw, (v,), {}, owner=owner))
        if isinstance(v, (IFunc, IBound)):
            return True
        try:
            return bool(v)
        except RaiseSig:
            raise
        except Exception as e:
            raise RaiseSig(e)

    # ---- if with state merging for simple bodies
    def s_If(self, s, fr):
        test = self.eval(s.test, fr)
        if isinstance(test, SBool) and not s.orelse and _simple_body(s.body) and not ctx().spec:
            t = core.Z.simplify(test.t)
            if not core.Z.is_true(t) and not core.Z.is_false(t):
                if self.try_merge_if(t, s, fr):
                    return
        if self.truth(test):
            self.exec_block(s.body, fr)
        else:
            self.exec_block(s.orelse, fr)

    def try_merge_if(self, cond, s, fr):
        c = ctx()
        saved_locals = dict(fr.locals)
        n_pc, n_ob = len(c.pc), len(c.obls)
        c.spec += 1
        c.solver.push()
        ok = True
        try:
            c.assume(cond)
            self.exec_block(s.body, fr)
        except core.SpecAbort:
            ok = False
        except core.PathInfeasible:
            ok = False
        except (ReturnSig, BreakSig, ContinueSig, RaiseSig, Unsupported, core.PathInfeasible) as ex:
            ok = False
            if os.environ.get("PYVC_DEBUG"):
                print("merge abort:", type(ex).__name__, ex)
        finally:
            c.spec -= 1
            c.solver.pop()
            body_pc = c.pc[n_pc + 1:]
            del c.pc[n_pc:]
        if ok:
            new_locals = fr.locals
            merged = dict(saved_locals)
            for k, v in new_locals.items():
                old = saved_locals.get(k, _MISSING)
                if v is old:
                    continue
                if old is _MISSING or isinstance(old, Havoc):
                    # bound only when the branch is taken: poison (any later read is Unsupported)
                    merged[k] = Havoc(k)
                    continue
                if not _scalar(v) or not _scalar(old):
                    ok = False
                    break
                try:
                    merged[k] = ite(SBool(cond), v, old)
                except Unsupported:
                    ok = False
                    break
            if ok and set(saved_locals) - set(new_locals):
                ok = False
        if not ok:
            fr.locals.clear()
            fr.locals.update(saved_locals)
            del c.obls[n_ob:]
            return False
        # facts assumed inside the body (definitions of fresh symbols) hold under cond
        for t in body_pc:
            c.assume(core.Z.Implies(cond, t))
        fr.locals.clear()
        fr.locals.update(merged)
        return True

    def orphan_loop_check(self, fr, sig, kinds):
        """a function for which the unit declares loop contracts, but whose loop `sig` matches none of them:
        the source of the loop header was edited -- the contract (and everything it derives from the loop
        rule) cannot be applied, so the unit is undecided"""
        for sp in self.loop_specs:
            if sp.fn_substr and sp.fn_substr in fr.fn_name and isinstance(sp, kinds) and sp.sig_substr:
                raise Unsupported(f"loop {sig!r} of {fr.fn_name} matches none of the loop contracts declared for this function "
                                  f"(expected a loop containing {sp.sig_substr!r})")

    def s_While(self, s, fr):
        sig = "while " + ast.unparse(s.test)
        spec = self.find_loop_spec(fr, sig)
        if spec is not None:
            return spec.run_while(self, s, fr)
        self.orphan_loop_check(fr, sig, (LoopSpec,))
        n = 0
        while True:
            if not self.truth(self.eval(s.test, fr)):
                break
            n += 1
            if n > 4096:
                raise Unsupported("while loop without contract exceeded 4096 iterations")
            try:
                self.exec_block(s.body, fr)
            except BreakSig:
                return
            except ContinueSig:
                continue
        self.exec_block(s.orelse, fr)

    def find_loop_spec(self, fr, sig):
        for sp in self.loop_specs:
            if sp.matches(fr.fn_name, sig):
                return sp
        return None

    def s_For(self, s, fr):
        it = self.eval(s.iter, fr)
        sig = f"for {ast.unparse(s.target)} in {ast.unparse(s.iter)}"
        spec = self.find_loop_spec(fr, sig)
        if spec is not None:
            return spec.run_for(self, s, fr, it)
        if isinstance(it, (SRange, SNdIndex)):
            self.orphan_loop_check(fr, sig, tuple(k for k in (LoopSpec,) if True))
        if isinstance(it, (SRange, SNdIndex)):
            return MapLoop().run_for(self, s, fr, it)
        vals = self.iterate(it)
        for v in vals:
            self.assign(s.target, v, fr)
            try:
                self.exec_block(s.body, fr)
            except BreakSig:
                return
            except ContinueSig:
                continue
        self.exec_block(s.orelse, fr)

    def s_With(self, s, fr):
        mgrs = []
        for item in s.items:
            m = self.eval(item.context_expr, fr)
            if getattr(m, "_pyvc_symbolic", False) or isinstance(m, NoOp):
                if not hasattr(m, "__enter__"):
                    raise Unsupported(f"{type(m).__name__} stand-in used as a context manager (not modelled)")
                v = m.__enter__()
            elif isinstance(m, SObj):
                raise Unsupported("with on repo object")
            else:
                try:
                    v = m.__enter__()
                except Exception as e:
                    raise RaiseSig(e)
            mgrs.append(m)
            if item.optional_vars is not None:
                self.assign(item.optional_vars, v, fr)
        try:
            self.exec_block(s.body, fr)
        except RaiseSig as e:
            for m in reversed(mgrs):
                m.__exit__(type(e.exc), e.exc, None)
            raise
        except (ReturnSig, BreakSig, ContinueSig):
            for m in reversed(mgrs):
                m.__exit__(None, None, None)
            raise
        else:
            for m in reversed(mgrs):
                m.__exit__(None, None, None)

    def s_Try(self, s, fr):
        try:
            try:
                self.exec_block(s.body, fr)
            except RaiseSig as e:
                for h in s.handlers:
                    if h.type is None:
                        match = True
                    else:
                        et = self.eval(h.type, fr)
                        ets = et if isinstance(et, tuple) else (et,)
                        match = isinstance(e.exc, ets)
                    if match:
                        if h.name:
                            fr.locals[h.name] = e.exc
                        fr.exc_stack.append(e.exc)
                        try:
                            self.exec_block(h.body, fr)
                        except RaiseSig as e2:
                            if e2.exc.__cause__ is None and e2.exc is not e.exc:
                                try:
                                    e2.exc.__context__ = e.exc
                                except Exception:
                                    pass
                            raise
                        finally:
                            fr.exc_stack.pop()
                            if h.name:
                                fr.locals.pop(h.name, None)
                        break
                else:
                    raise
            else:
                self.exec_block(s.orelse, fr)
        finally:
            if s.finalbody:
                self.exec_block(s.finalbody, fr)

    # ------------------------------------------------------------------ iteration helper
    def iterate(self, it):
        if isinstance(it, (list, tuple)):
            return list(it)
        if isinstance(it, (SRange, SNdIndex)):
            raise Unsupported("iteration over a symbolic range outside a for statement with a loop rule")
        if getattr(it, "_pyvc_symbolic", False):
            return it.iterate()
        if isinstance(it, dict):
            return list(it.keys())
        if isinstance(it, (str, bytes)) and not isinstance(it, SymStr):
            return list(it)
        if isinstance(it, SObj):
            owner, raw = lookup_class_attr(it.cls, "__iter__")
            if isinstance(raw, types.FunctionType):
                raise Unsupported("iteration over repo object (generator)")
        try:
            return list(it)
        except RaiseSig:
            raise
        except Unsupported:
            raise
        except TypeError as e:
            raise RaiseSig(e)

    # ------------------------------------------------------------------ expressions
    def eval(self, e, fr):
        m = getattr(self, "e_" + type(e).__name__, None)
        if m is None:
            raise Unsupported(f"expression {type(e).__name__} at {fr.fn_name}:{getattr(e, 'lineno', '?')}")
        return m(e, fr)

    def e_Constant(self, e, fr):
        return e.value

    def e_Name(self, e, fr):
        v = fr.lookup(e.id)
        if isinstance(v, Havoc):
            raise Unsupported(f"read of local {e.id!r} whose value is not tracked (after a map-rule loop or a merged branch)")
        return v

    def e_Tuple(self, e, fr):
        return tuple(self.eval_elts(e.elts, fr))

    def e_List(self, e, fr):
        return list(self.eval_elts(e.elts, fr))

    def e_Set(self, e, fr):
        v = self.eval_elts(e.elts, fr)
        if contains_sym(v):
            raise Unsupported("set literal with symbolic members")
        return set(v)

    def eval_elts(self, elts, fr):
        out = []
        for x in elts:
            if isinstance(x, ast.Starred):
                out.extend(self.iterate(self.eval(x.value, fr)))
            else:
                out.append(self.eval(x, fr))
        return out

    def e_Dict(self, e, fr):
        d = {}
        for k, v in zip(e.keys, e.values):
            if k is None:
                d.update(self.eval(v, fr))
            else:
                kk = self.eval(k, fr)
                if contains_sym(kk):
                    raise Unsupported("dict literal with symbolic key")
                d[kk] = self.eval(v, fr)
        return d

    def e_JoinedStr(self, e, fr):
        parts = []
        struct_parts = []
        symbolic = False
        for v in e.values:
            if isinstance(v, ast.Constant):
                parts.append(str(v.value))
                struct_parts.append(str(v.value))
            else:
                try:
                    val = self.eval(v.value, fr)
                except RaiseSig:
                    raise
                if contains_sym(val) or isinstance(val, SymStr):
                    symbolic = True
                    parts.append("<sym>")
                    if v.format_spec is not None and isinstance(val, (SInt, STrueDiv)):
                        fs = self.eval(v.format_spec, fr)
                        if isinstance(fs, str) and fs.endswith("f"):
                            val = self.call(format, (val, fs))
                    struct_parts.append(val)
                else:
                    try:
                        spec = ""
                        if v.format_spec is not None:
                            spec = self.eval(v.format_spec, fr)
                        if v.conversion == 114:
                            val = repr(val)
                        elif v.conversion == 115:
                            val = str(val)
                        parts.append(format(val, spec))
                        struct_parts.append(parts[-1])
                    except Exception:
                        symbolic = True
                        parts.append("<?>")
                        struct_parts.append(val)
        s = "".join(parts)
        def _numlike(v):
            return isinstance(v, (SInt, SReal)) or (isinstance(v, (list, tuple)) and v and
                                                    all(isinstance(x, (SInt, SReal, int, float)) for x in v))
        if symbolic and all((isinstance(v, str) and not isinstance(v, SymStr)) or _numlike(v) for v in struct_parts) \
                and not any(isinstance(v, ast.FormattedValue) and v.format_spec is not None for v in e.values):
            # only numbers (or lists of numbers) are symbolic: tokenised string (file names, URLs, JSON text)
            from . import fsmodel

            def render(v):
                if isinstance(v, str):
                    return v
                if isinstance(v, (list, tuple)):
                    body = ", ".join(fsmodel.tok(x) if isinstance(x, (SInt, SReal)) else repr(x) for x in v)
                    return ("[" + body + "]") if isinstance(v, list) else ("(" + body + ")")
                return fsmodel.tok(v)
            return "".join(render(v) for v in struct_parts)
        if symbolic:
            r = SymStr(s)
            r.parts = struct_parts
            return r
        return s

    def e_FormattedValue(self, e, fr):
        return self.e_JoinedStr(ast.JoinedStr(values=[e]), fr)

    def e_Lambda(self, e, fr):
        return IFunc(e, fr, fr.fn_name + ".<lambda>", owner=fr.owner)

    def e_IfExp(self, e, fr):
        t = self.eval(e.test, fr)
        if self.truth(t):
            return self.eval(e.body, fr)
        return self.eval(e.orelse, fr)

    def e_BoolOp(self, e, fr):
        v = None
        for i, x in enumerate(e.values):
            v = self.eval(x, fr)
            if i == len(e.values) - 1:
                return v
            t = self.truth(v)
            if isinstance(e.op, ast.And) and not t:
                return v if not isinstance(v, SBool) else False
            if isinstance(e.op, ast.Or) and t:
                return v if not isinstance(v, SBool) else True
        return v

    def e_UnaryOp(self, e, fr):
        v = self.eval(e.operand, fr)
        if isinstance(e.op, ast.Not):
            if isinstance(v, SBool):
                return ~v
            return not self.truth(v)
        try:
            if isinstance(e.op, ast.USub):
                return -v
            if isinstance(e.op, ast.UAdd):
                return +v
            if isinstance(e.op, ast.Invert):
                return ~v
        except (RaiseSig, Unsupported):
            raise
        except Exception as ex:
            raise RaiseSig(ex)
        raise Unsupported("unary op")

    _BINOPS = {
        ast.Add: lambda a, b: a + b, ast.Sub: lambda a, b: a - b, ast.Mult: lambda a, b: a * b,
        ast.Div: lambda a, b: a / b, ast.FloorDiv: lambda a, b: a // b, ast.Mod: lambda a, b: a % b,
        ast.Pow: lambda a, b: a ** b, ast.LShift: lambda a, b: a << b, ast.RShift: lambda a, b: a >> b,
        ast.BitOr: lambda a, b: a | b, ast.BitAnd: lambda a, b: a & b, ast.BitXor: lambda a, b: a ^ b,
        ast.MatMult: lambda a, b: a @ b,
    }

    def binop(self, op, a, b, inplace=False):
        if isinstance(a, SObj) or isinstance(b, SObj):
            return self.obj_binop(op, a, b, inplace)
        if isinstance(op, ast.MatMult):
            from .arrays import SArr as _SArr
            if isinstance(a, _SArr) or isinstance(b, _SArr):
                if getattr(a, "ndim", 1) == 0 or getattr(b, "ndim", 1) == 0 or not all(isinstance(x, (_SArr, np.ndarray, list, tuple)) for x in (a, b)):
                    raise RaiseSig(ValueError("matmul: scalar operand"))
                from .models_numpy import m_dot       # for operands of rank 1 and 2, a @ b is np.dot(a, b)
                return m_dot(self, a, b)
        if isinstance(op, ast.Mod) and isinstance(a, str):
            if contains_sym(b):
                return SymStr("<symbolic message>")
        if isinstance(op, ast.Mult) and isinstance(a, (bytes, str, list, tuple)) and is_sym(b):
            if isinstance(a, bytes) and len(a) == 1 and isinstance(b, SInt):
                from .sbytes import SBytes
                if self.truth(b < 0):
                    return b""
                return SBytes(b, lambda i, v=a[0]: v)
            raise Unsupported("sequence repetition by symbolic count")
        if isinstance(a, (SInt, int)) and not isinstance(a, bool) and isinstance(b, np.integer):
            b = _np_scalar_to_sym(b)
        if isinstance(b, (SInt,)) and isinstance(a, np.integer):
            a = _np_scalar_to_sym(a)
        if isinstance(a, np.floating) and (getattr(b, "_pyvc_symbolic", False) or is_sym(b)):
            a = float(a)
        if isinstance(b, np.floating) and (getattr(a, "_pyvc_symbolic", False) or is_sym(a)):
            b = float(b)
        if isinstance(a, np.integer) and getattr(b, "_pyvc_symbolic", False):
            a = int(a)
        if isinstance(b, np.integer) and getattr(a, "_pyvc_symbolic", False):
            b = int(b)
        if isinstance(a, np.uint64) and isinstance(b, SU64):
            a = SU64(core._u64(int(a)))
        if isinstance(b, np.uint64) and isinstance(a, SU64):
            b = SU64(core._u64(int(b)))
        if inplace and isinstance(a, (bytearray, list)) and not getattr(b, "_pyvc_symbolic", False) \
                and not contains_sym(b) and isinstance(op, ast.Add):
            a += b
            return a
        if isinstance(a, (bytes, bytearray)) and getattr(b, "_pyvc_symbolic", False):
            r = b.__radd__(a)
            if isinstance(a, bytearray) and hasattr(r, "mutable"):
                r.mutable = True               # bytearray + bytes-like is a bytearray
            return r
        try:
            return self._BINOPS[type(op)](a, b)
        except (RaiseSig, Unsupported, core.PathInfeasible, core.SpecAbort):
            raise
        except TypeError as ex:
            if contains_sym(a) or contains_sym(b):
                raise Unsupported(f"binary {type(op).__name__} on {type(a).__name__}, {type(b).__name__}: {ex}")
            raise RaiseSig(ex)
        except Exception as ex:
            raise RaiseSig(ex)

    def obj_binop(self, op, a, b, inplace):
        names = {ast.Add: "add", ast.Sub: "sub", ast.Mult: "mul"}
        n = names.get(type(op))
        if n is None:
            raise Unsupported("operator on repo object")
        if isinstance(a, SObj):
            for meth in (["__i%s__" % n] if inplace else []) + ["__%s__" % n]:
                owner, raw = lookup_class_attr(a.cls, meth)
                if isinstance(raw, types.FunctionType):
                    return self.call_real(raw, (a, b), {}, owner=owner)
                if raw is not None:
                    mm = METHOD_MODELS.get((owner, meth))
                    if mm:
                        return mm(self, a, b)
        if isinstance(b, SObj):
            owner, raw = lookup_class_attr(b.cls, "__r%s__" % n)
            if isinstance(raw, types.FunctionType):
                return self.call_real(raw, (b, a), {}, owner=owner)
        raise Unsupported(f"operator {n} on repo object {a!r}, {b!r}")

    def e_BinOp(self, e, fr):
        a = self.eval(e.left, fr)
        b = self.eval(e.right, fr)
        return self.binop(e.op, a, b)

    def compare(self, op, a, b):
        if isinstance(op, ast.Is):
            return a is b
        if isinstance(op, ast.IsNot):
            return a is not b
        if isinstance(op, (ast.In, ast.NotIn)):
            r = self.contains(b, a)
            if isinstance(op, ast.NotIn):
                return (~r) if isinstance(r, SBool) else (not r)
            return r
        if isinstance(a, np.integer) and isinstance(b, (SInt, SU64)):
            a = int(a)
        if isinstance(b, np.integer) and isinstance(a, (SInt, SU64)):
            b = int(b)
        if isinstance(op, (ast.Eq, ast.NotEq)) and (type(a).__name__ == "SArr" or type(b).__name__ == "SArr"):
            arr, other = (a, b) if type(a).__name__ == "SArr" else (b, a)
            return (arr == other) if isinstance(op, ast.Eq) else (arr != other)
        if isinstance(op, (ast.Eq, ast.NotEq)) and (isinstance(a, (list, tuple)) or isinstance(b, (list, tuple))):
            r = self.seq_eq(a, b)
            if isinstance(op, ast.NotEq):
                return (~r) if isinstance(r, SBool) else (not r)
            return r
        try:
            if isinstance(op, ast.Eq):
                return a == b
            if isinstance(op, ast.NotEq):
                return a != b
            if isinstance(op, ast.Lt):
                return a < b
            if isinstance(op, ast.LtE):
                return a <= b
            if isinstance(op, ast.Gt):
                return a > b
            if isinstance(op, ast.GtE):
                return a >= b
        except (RaiseSig, Unsupported, core.PathInfeasible, core.SpecAbort):
            raise
        except Exception as ex:
            raise RaiseSig(ex)
        raise Unsupported("comparison op")

    def seq_eq(self, a, b):
        if isinstance(a, (list, tuple)) and isinstance(b, (list, tuple)):
            if type(a) is not type(b):
                return False
            if len(a) != len(b):
                return False
            parts = []
            for x, y in zip(a, b):
                r = self.compare(ast.Eq(), x, y)
                if isinstance(r, SBool):
                    parts.append(r)
                elif not self.truth(r):
                    return False
            if not parts:
                return True
            return core.And(*parts)
        if getattr(a, "_pyvc_symbolic", False) or getattr(b, "_pyvc_symbolic", False):
            s = a if getattr(a, "_pyvc_symbolic", False) else b
            o = b if s is a else a
            return s.eq_seq(o)
        return False

    def contains(self, container, item):
        if isinstance(container, (list, tuple)) and isinstance(item, SInt) and container \
                and all(isinstance(x, int) for x in container) and not ctx().spec:
            # python compares element by element; forking per element leaves `item == k` on the path
            for x in container:
                if self.truth(item == x):
                    return True
            return False
        if isinstance(container, (list, tuple)):
            parts = []
            for x in container:
                r = self.compare(ast.Eq(), item, x)
                if isinstance(r, SBool):
                    parts.append(r)
                elif self.truth(r):
                    return True
            if not parts:
                return False
            return core.Or(*parts)
        if getattr(container, "_pyvc_symbolic", False):
            return container.contains(item)
        if isinstance(container, SObj):
            owner, raw = lookup_class_attr(container.cls, "__contains__")
            if isinstance(raw, types.FunctionType):
                return self.call_real(raw, (container, item), {}, owner=owner)
            raise Unsupported("in on repo object")
        if contains_sym(item):
            mm = METHOD_MODELS.get((type(container), "__contains__"))
            if mm:
                return mm(self, container, item)
            if isinstance(container, (dict, set, frozenset)) and isinstance(item, (SInt, SU64)):
                parts = [self.compare(ast.Eq(), item, k) for k in container]
                parts = [p for p in parts if p is not False]
                if any(p is True for p in parts):
                    return True
                return core.Or(*parts) if parts else False
            if isinstance(container, (str,)):
                return False
            raise Unsupported(f"symbolic membership test in {type(container).__name__}")
        try:
            return item in container
        except Exception as ex:
            raise RaiseSig(ex)

    def e_Compare(self, e, fr):
        left = self.eval(e.left, fr)
        result = None
        for i, (op, right_node) in enumerate(zip(e.ops, e.comparators)):
            right = self.eval(right_node, fr)
            r = self.compare(op, left, right)
            if i == len(e.ops) - 1 and result is None:
                return r
            if not self.truth(r):
                return False
            result = True
            left = right
        return True

    def e_Attribute(self, e, fr):
        o = self.eval(e.value, fr)
        return self.getattr(o, e.attr, fr)

    def getattr(self, o, name, fr=None):
        if isinstance(o, SObj):
            if name in o.attrs:
                return o.attrs[name]
            if name == "__class__":
                return o.cls
            owner, raw = lookup_class_attr(o.cls, name)
            if owner is None:
                if getattr(o, "harness_built", False) and not getattr(self, "_in_getattr_default", False):
                    raise Unsupported(f"the code reads attribute {name!r} of a {o.cls.__name__} that the contract's harness "
                                      "does not provide (class representation changed?)")
                raise RaiseSig(AttributeError(f"{o.cls.__name__} object has no attribute {name}"))
            if isinstance(raw, property):
                qn = f"{owner.__module__}.{owner.__qualname__}.{name}"
                con = self.contracts.get(qn)
                if con is not None and self.verifying != qn and qn not in self.force_inline:
                    self.contract_applied.add(qn)
                    return con.apply(self, raw.fget, (o,), {})
                return self.call_real(raw.fget, (o,), {}, owner=owner)
            if isinstance(raw, types.FunctionType):
                return IBound(o, raw, owner)
            if isinstance(raw, staticmethod):
                return raw.__func__
            if isinstance(raw, classmethod):
                return IBound(o.cls, raw.__func__, owner)
            return raw
        if isinstance(o, SSuper):
            mro = o.obj.cls.__mro__
            i = mro.index(o.after)
            for k in mro[i + 1:]:
                if name in k.__dict__:
                    raw = k.__dict__[name]
                    if isinstance(raw, types.FunctionType):
                        return IBound(o.obj, raw, k)
                    if isinstance(raw, property):
                        return self.call_real(raw.fget, (o.obj,), {}, owner=k)
                    if k is object and name == "__init__":
                        return NoOp("object.__init__")
                    if k in (dict, bytearray, list) and name == "__init__":
                        return NoOp("builtin.__init__")
                    return raw
            raise RaiseSig(AttributeError(name))
        if isinstance(o, logging.Logger):
            return NoOp("logger." + name)
        if isinstance(o, NoOp):
            return getattr(o, name)
        if isinstance(o, SU64):
            if name == "dtype":
                return np.dtype(np.uint64)
        try:
            return getattr(o, name)
        except RaiseSig:
            raise
        except AttributeError as ex:
            if is_sym(o) or getattr(o, "_pyvc_symbolic", False) or isinstance(o, core.Sym):
                # the attribute exists on the real value (int.bit_length, str.lstrip, ...) but not on its symbolic
                # stand-in: the executor cannot follow, which is NOT an AttributeError of the program
                raise Unsupported(f"attribute {name!r} of a symbolic {type(o).__name__} (no model)")
            raise RaiseSig(ex)

    def e_Subscript(self, e, fr):
        o = self.eval(e.value, fr)
        k = self.eval(e.slice, fr)
        return self.getitem(o, k)

    def getitem(self, o, k):
        if o is np.s_ or o is np.index_exp:
            return k
        if getattr(o, "_pyvc_symbolic", False):
            return o.getitem(k)
        if isinstance(o, SObj):
            owner, raw = lookup_class_attr(o.cls, "__getitem__")
            if isinstance(raw, types.FunctionType):
                return self.call_real(raw, (o, k), {}, owner=owner)
            raise Unsupported("subscript on repo object")
        if isinstance(o, (list, tuple)) and contains_sym(k):
            if isinstance(k, SInt):
                return self.select(o, k)
            if isinstance(k, slice):
                return self.slice_list(o, k)
            raise Unsupported("list index of unsupported symbolic kind")
        if contains_sym(k):
            mm = METHOD_MODELS.get((type(o), "__getitem__"))
            if mm:
                return mm(self, o, k)
            if isinstance(o, dict) and isinstance(k, (SInt, SU64)):
                # python compares the key with the stored ones: one path per stored key it can equal
                for kk in list(o):
                    if isinstance(kk, (int, np.integer)) and self.truth(k == (SU64(core._u64(int(kk))) if isinstance(k, SU64) else int(kk))):
                        return o[kk]
                raise RaiseSig(KeyError("key"))
            raise Unsupported(f"symbolic subscript on {type(o).__name__}")
        try:
            return o[k]
        except RaiseSig:
            raise
        except Exception as ex:
            raise RaiseSig(ex)

    def case_split_value(self, k, limit=16):
        """a concrete value of the symbolic integer k, chosen by forking (at most `limit` values)"""
        c = ctx()
        t = k.t if isinstance(k, SU64) else core._i(k)
        for _ in range(limit):
            if c.solver.check() != core.Z.sat:
                raise core.PathInfeasible()
            mv = c.solver.model().eval(t, model_completion=True)
            v = mv.as_long()
            if self.truth(SBool(t == mv)):
                return v
        raise Unsupported("a symbolic container key with more than %d possible values" % limit)

    def slice_list(self, o, k):
        raise Unsupported("symbolic slice of a python list")

    def select(self, seq, idx):
        """seq[idx] for concrete-length seq and symbolic int idx (with Python negative indexing)"""
        n = len(seq)
        c = ctx()
        if not self.truth(core.And(idx >= -n, idx < n)):
            raise RaiseSig(IndexError("list index out of range"))
        if n == 0:
            raise RaiseSig(IndexError("list index out of range"))
        if not all(_scalar(x) for x in seq):
            # fork on the index value
            for j in range(n):
                if self.truth(core.Or(idx == j, idx == j - n)):
                    return seq[j]
            raise core.PathInfeasible()
        r = seq[n - 1]
        for j in range(n - 2, -1, -1):
            r = ite(core.Or(idx == j, idx == j - n), seq[j], r)
        return r

    def e_Slice(self, e, fr):
        lo = self.eval(e.lower, fr) if e.lower is not None else None
        hi = self.eval(e.upper, fr) if e.upper is not None else None
        st = self.eval(e.step, fr) if e.step is not None else None
        return slice(lo, hi, st)

    def e_Starred(self, e, fr):
        raise Unsupported("starred expression outside call/collection")

    def e_Call(self, e, fr):
        # super() needs the frame
        if isinstance(e.func, ast.Name) and e.func.id == "super" and not e.args:
            if fr.owner is None or not isinstance(fr.self_obj, SObj):
                raise Unsupported("super() outside a method on a symbolic object")
            return SSuper(fr.self_obj, fr.owner)
        f = self.eval(e.func, fr)
        args = []
        for a in e.args:
            if isinstance(a, ast.Starred):
                args.extend(self.iterate(self.eval(a.value, fr)))
            else:
                args.append(self.eval(a, fr))
        kwargs = {}
        for k in e.keywords:
            if k.arg is None:
                kwargs.update(self.eval(k.value, fr))
            else:
                kwargs[k.arg] = self.eval(k.value, fr)
        ctx().cur_line = f"{fr.fn_name.split('.')[-1]}:{getattr(e, 'lineno', '?')}"
        return self.call(f, args, kwargs)

    # comprehensions
    def _comp(self, generators, fr, emit):
        inner = Frame({}, fr, fr.globals, fr.fn_name, owner=fr.owner, self_obj=fr.self_obj)

        def rec(i):
            if i == len(generators):
                emit(inner)
                return
            g = generators[i]
            src_frame = fr if i == 0 else inner
            it = self.eval(g.iter, src_frame)
            if isinstance(it, (SRange, SNdIndex)):
                raise Unsupported("comprehension over symbolic range")
            for v in self.iterate(it):
                self.assign(g.target, v, inner)
                if all(self.truth(self.eval(c, inner)) for c in g.ifs):
                    rec(i + 1)
        rec(0)

    def e_ListComp(self, e, fr):
        if len(e.generators) == 1 and not e.generators[0].ifs:
            g = e.generators[0]
            it = self.eval(g.iter, fr)
            if isinstance(it, SRange) and it.step == 1:
                from .symseq import SymSeq
                interp = self
                ctx().trust("list comprehension over range(n) with symbolic n: element i is the element expression evaluated at start+i (evaluated lazily, on demand)")

                def item(i):
                    inner = Frame({}, fr, fr.globals, fr.fn_name, owner=fr.owner, self_obj=fr.self_obj)
                    interp.assign(g.target, it.start + i, inner)
                    return interp.eval(e.elt, inner)
                n = it.stop - it.start
                return SymSeq(smax(n, 0), item)
            if getattr(it, "_pyvc_symseq", False):
                return self.e_GeneratorExp(e, fr)
            out = []
            for v in self.iterate(it):
                inner = Frame({}, fr, fr.globals, fr.fn_name, owner=fr.owner, self_obj=fr.self_obj)
                self.assign(g.target, v, inner)
                out.append(self.eval(e.elt, inner))
            return out
        out = []
        self._comp(e.generators, fr, lambda f: out.append(self.eval(e.elt, f)))
        return out

    def e_GeneratorExp(self, e, fr):
        if len(e.generators) == 1 and not e.generators[0].ifs:
            g = e.generators[0]
            it = self.eval(g.iter, fr)
            if getattr(it, "_pyvc_symset", False):
                interp0 = self

                def per_key(k):
                    inner = Frame({}, fr, fr.globals, fr.fn_name, owner=fr.owner, self_obj=fr.self_obj)
                    interp0.assign(g.target, k, inner)
                    return interp0.eval(e.elt, inner)
                return it.mapped(per_key)
            if getattr(it, "_pyvc_symseq", False):
                interp = self

                def item(i):
                    inner = Frame({}, fr, fr.globals, fr.fn_name, owner=fr.owner, self_obj=fr.self_obj)
                    interp.assign(g.target, it.item(i), inner)
                    return interp.eval(e.elt, inner)
                return it.mapped(item)
            out = []
            for v in self.iterate(it):
                inner = Frame({}, fr, fr.globals, fr.fn_name, owner=fr.owner, self_obj=fr.self_obj)
                self.assign(g.target, v, inner)
                out.append(self.eval(e.elt, inner))
            return out
        return self.e_ListComp(e, fr)

    def e_SetComp(self, e, fr):
        out = self.e_ListComp(e, fr)
        if contains_sym(out):
            return SymSet(self, out)
        return set(out)

    def e_DictComp(self, e, fr):
        out = {}

        def emit(f):
            k = self.eval(e.key, f)
            if contains_sym(k):
                raise Unsupported("dict comprehension with symbolic key")
            out[k] = self.eval(e.value, f)
        self._comp(e.generators, fr, emit)
        return out


class SymSet:
    """{x for x in ...} with symbolic members; only len() is supported"""
    _pyvc_symbolic = True

    def __init__(self, interp, items):
        self.items = items
        self.interp = interp

    def length(self):
        # number of distinct values
        items = self.items
        total = 0
        for i, x in enumerate(items):
            is_new = True
            for y in items[:i]:
                r = self.interp.compare(ast.Eq(), x, y)
                is_new = core.And(is_new, core.Not(r)) if (isinstance(r, SBool) or isinstance(is_new, SBool)) else (is_new and not r)
            total = total + (ite(is_new, 1, 0) if isinstance(is_new, SBool) else int(is_new))
        return total

    def truth(self):
        return len(self.items) > 0


_MISSING = object()


def _scalar(v):
    return isinstance(v, (SInt, SBool, SU64, SReal, core.SBV, int, bool, np.integer)) and not isinstance(v, SymStr)


def _np_scalar_to_sym(v):
    return int(v)


def _as_load(t):
    if isinstance(t, ast.Name):
        return ast.Name(id=t.id, ctx=ast.Load())
    if isinstance(t, ast.Attribute):
        return ast.Attribute(value=t.value, attr=t.attr, ctx=ast.Load())
    if isinstance(t, ast.Subscript):
        return ast.Subscript(value=t.value, slice=t.slice, ctx=ast.Load())
    raise Unsupported("augmented assignment target")


def _simple_body(body):
    """body made only of assignments to plain names / pass (candidate for if-merging)"""
    for s in body:
        if isinstance(s, ast.Pass):
            continue
        if isinstance(s, ast.Assign) and all(isinstance(t, ast.Name) for t in s.targets):
            continue
        if isinstance(s, ast.AugAssign) and isinstance(s.target, ast.Name):
            continue
        return False
    return True


# --------------------------------------------------------------------------- loop rules

def assigned_names(stmts):
    out = set()
    for s in stmts:
        for n in ast.walk(s):
            if isinstance(n, ast.Name) and isinstance(n.ctx, (ast.Store, ast.Del)):
                out.add(n.id)
    return out


def loop_carried(body, targets):
    """names assigned in the body that may be read before being assigned in the same iteration"""
    assigned_somewhere = assigned_names(body) - targets
    carried = set()

    def reads(node, defined):
        for n in ast.walk(node):
            if isinstance(n, ast.Name) and isinstance(n.ctx, ast.Load) and n.id in assigned_somewhere \
                    and n.id not in defined:
                carried.add(n.id)

    def walk(stmts, defined):
        defined = set(defined)
        for s in stmts:
            if isinstance(s, ast.Assign):
                reads(s.value, defined)
                for t in s.targets:
                    for n in ast.walk(t):
                        if isinstance(n, ast.Name) and isinstance(n.ctx, ast.Store):
                            defined.add(n.id)
                        elif isinstance(n, ast.Name):
                            reads(n, defined)
            elif isinstance(s, ast.AugAssign):
                reads(s.value, defined)
                reads(_as_load(s.target), defined)
            elif isinstance(s, ast.If):
                reads(s.test, defined)
                d1 = walk(s.body, defined)
                d2 = walk(s.orelse, defined)
                defined = d1 & d2
            elif isinstance(s, (ast.For, ast.While)):
                if isinstance(s, ast.For):
                    reads(s.iter, defined)
                    inner = set(defined) | {n.id for n in ast.walk(s.target) if isinstance(n, ast.Name)}
                else:
                    reads(s.test, defined)
                    inner = set(defined)
                walk(s.body, inner)
                # names assigned only inside an inner loop are not definitely defined afterwards
            elif isinstance(s, ast.FunctionDef):
                defined.add(s.name)
            elif isinstance(s, ast.Delete):
                for t in s.targets:
                    if isinstance(t, ast.Name):
                        defined.discard(t.id)
            else:
                reads(s, defined)
        return defined

    walk(body, set())
    return carried


class LoopSpec:
    def __init__(self, fn_substr, sig_substr):
        self.fn_substr = fn_substr
        self.sig_substr = sig_substr

    def matches(self, fn_name, sig):
        return self.fn_substr in fn_name and self.sig_substr in sig


class MapLoop(LoopSpec):
    """Independent-iteration rule: the body is executed once for an arbitrary index in range.
    Refused (Unsupported) if a local is carried from one iteration to the next."""

    def __init__(self, fn_substr="", sig_substr=""):
        super().__init__(fn_substr, sig_substr)

    def run_for(self, interp, s, fr, it):
        c = ctx()
        tnames = {n.id for n in ast.walk(s.target) if isinstance(n, ast.Name)}
        # locals assigned in the body are poisoned at the start of the (arbitrary) iteration: a read
        # before the iteration's own assignment is a loop-carried dependency -> Unsupported
        for n in assigned_names(s.body) - tnames:
            fr.locals[n] = Havoc(n)
        if s.orelse:
            raise Unsupported("for-else under the map rule")
        if isinstance(it, SRange):
            if not isinstance(it.step, int) or it.step != 1:
                # range(start, stop, step), step > 0: the values start + step*k for 0 <= k < ceil((stop-start)/step);
                # the loop variable recorded for coverage obligations is the ordinal k
                if not interp.truth(it.step > 0):
                    raise Unsupported("map rule over a symbolic range whose step is not known to be positive")
                if not interp.truth(it.stop > it.start):
                    return
                q_, r_ = c.divmod(it.stop - it.start, it.step)
                cnt = ite(r_ == 0, q_, q_ + 1)
                kk = c.int("k_" + "_".join(sorted(tnames)))
                c.assume(core.And(kk >= 0, kk < cnt))
                v = it.start + it.step * kk
                c.loop_vars.append((ast.unparse(s.target), kk, 0, cnt))
                nvars = 1
                interp.assign(s.target, v, fr)
            elif not interp.truth(it.stop > it.start):
                return      # empty range: no iteration
            else:
                v = c.int("i_" + "_".join(sorted(tnames)))
                c.assume(core.And(v >= it.start, v < it.stop))
                c.loop_vars.append((ast.unparse(s.target), v, it.start, it.stop))
                nvars = 1
                interp.assign(s.target, v, fr)
        elif isinstance(it, SNdIndex):
            if not interp.truth(core.And(*[d > 0 for d in it.dims])):
                return
            vs = []
            for k, d in enumerate(it.dims):
                v = c.int(f"nd{k}_" + "_".join(sorted(tnames)))
                c.assume(core.And(v >= 0, v < d))
                vs.append(v)
                c.loop_vars.append((f"{ast.unparse(s.target)}[{k}]", v, 0, d))
            nvars = len(vs)
            interp.assign(s.target, tuple(vs), fr)
        else:
            raise Unsupported("map rule over a non-range iterable")
        c.trust("loop: range/np.ndindex visit every index tuple in range exactly once (map rule)")
        saved = dict(fr.locals)
        try:
            interp.exec_block(s.body, fr)
        except ContinueSig:
            pass            # `continue` ends this (arbitrary) iteration: nothing of it is carried to another one
        except BreakSig:
            raise Unsupported("break under the map rule (later iterations depend on this one)")
        finally:
            pass
        # after the loop: locals assigned in the body are unknown; the iteration that was executed
        # is an arbitrary one, so nothing about it may be kept. We end the path here for
        # postconditions that only concern per-iteration effects, by havocking assigned locals.
        for n in assigned_names(s.body) | tnames:
            fr.locals[n] = Havoc(n)
        if not hasattr(c, "closed_loops"):
            c.closed_loops = []
        c.closed_loops.append(list(c.loop_vars[-nvars:]))
        del c.loop_vars[-nvars:]


class Havoc:
    """value of a local after a map-rule loop: any use is unsupported"""

    def __init__(self, name):
        self.name = name

    def __repr__(self):
        return f"<havoc {self.name}>"


class UnrollLoop(LoopSpec):
    """Width-bounded unrolling: `for i in range(n)` with symbolic n is unrolled `bound` times,
    each iteration guarded by i < n; afterwards the unwinding assertion n <= bound is an
    obligation (so the unrolling is complete for the stated domain)."""

    def __init__(self, fn_substr, sig_substr, bound):
        super().__init__(fn_substr, sig_substr)
        self.bound = bound

    def run_for(self, interp, s, fr, it):
        c = ctx()
        if not isinstance(it, SRange):
            vals = interp.iterate(it)
            for v in vals:
                interp.assign(s.target, v, fr)
                interp.exec_block(s.body, fr)
            return
        if it.step != 1 or not isinstance(it.start, int):
            raise Unsupported("unroll rule: range form")
        for i in range(it.start, it.start + self.bound):
            if not interp.truth(it.stop > i):
                return
            interp.assign(s.target, i, fr)
            try:
                interp.exec_block(s.body, fr)
            except BreakSig:
                return
            except ContinueSig:
                continue
        c.prove(f"unwind:{fr.fn_name.split('.')[-1]}:{s.lineno}", it.stop <= it.start + self.bound, kind="unwind")


class InvariantLoop(LoopSpec):
    """Classic invariant rule for while / for-range loops.
    inv(get) -> SBool, where get(name) reads a local; `modifies` lists locals the body may change
    (computed from the AST if None); heap effects must be covered by inv through ghost state."""

    def __init__(self, fn_substr, sig_substr, inv, decreases=None, havoc=None, name=None):
        super().__init__(fn_substr, sig_substr)
        self.inv = inv
        self.decreases = decreases
        self.havoc = havoc
        self.name = name or sig_substr

    def _havoc_locals(self, interp, fr, names, env):
        c = ctx()
        for n in names:
            old = fr.locals.get(n, _MISSING)
            if isinstance(old, (SInt, int)) and not isinstance(old, bool):
                fr.locals[n] = c.int("h_" + n)
            elif isinstance(old, SU64) or isinstance(old, np.uint64):
                fr.locals[n] = c.u64("h_" + n)
            elif isinstance(old, (SBool, bool)):
                fr.locals[n] = c.bool("h_" + n)
            elif self.havoc and n in self.havoc:
                fr.locals[n] = self.havoc[n](c, old)
            elif old is _MISSING:
                fr.locals[n] = Havoc(n)
            else:
                raise Unsupported(f"invariant rule: cannot havoc local {n} of type {type(old).__name__}")

    def run_while(self, interp, s, fr):
        c = ctx()
        get = lambda n: fr.contract_lookup(n)
        c.ghost["frame_get"] = get          # contracts may read the loop's locals (e.g. at a raise)
        tag = f"{fr.fn_name.split('.')[-1]}:{s.lineno}"
        c.prove(f"inv-entry:{self.name}@{tag}", self.inv(get, interp), kind="invariant")
        names = sorted(assigned_names(s.body))
        self._havoc_locals(interp, fr, names, get)
        if self.havoc and "__heap__" in self.havoc:
            self.havoc["__heap__"](c, fr, interp)
        c.assume(core._b(self.inv(get, interp)))
        test = interp.eval(s.test, fr)
        if interp.truth(test):
            d0 = self.decreases(get, interp) if self.decreases else None
            try:
                interp.exec_block(s.body, fr)
            except (BreakSig, ContinueSig):
                raise Unsupported("break/continue under the invariant rule")
            c.prove(f"inv-preserved:{self.name}@{tag}", self.inv(get, interp), kind="invariant")
            if d0 is not None:
                d1 = self.decreases(get, interp)
                c.prove(f"decreases:{self.name}@{tag}", core.And(d0 >= 0, d1 < d0), kind="termination")
            c.cover(f"arbitrary-iteration:{self.name}@{tag}")
            raise core.PathInfeasible()   # end of the arbitrary-iteration path
        # loop exit: continue with invariant and negated guard
        if s.orelse:
            interp.exec_block(s.orelse, fr)


# --------------------------------------------------------------------------- builtin models

@model(isinstance)
def m_isinstance(interp, v, t):
    ts = t if isinstance(t, tuple) else (t,)
    if isinstance(v, SObj):
        return any(isinstance(k, type) and issubclass(v.cls, k) for k in ts)
    if isinstance(v, SInt):
        return any(k in (int, object) or (isinstance(k, type) and issubclass(int, k) and k is not bool) for k in ts)
    if isinstance(v, SBool):
        return any(k in (bool, int, object) for k in ts)
    if isinstance(v, SU64):
        return any(k in (np.uint64, np.integer, np.unsignedinteger, np.number, np.generic, object) for k in ts)
    if isinstance(v, (SReal, STrueDiv)):
        return any(k in (float, object) for k in ts)
    if getattr(v, "_pyvc_symbolic", False):
        return v.isinstance_of(ts)
    return isinstance(v, ts)


@model(len)
def m_len(interp, v):
    if getattr(v, "_pyvc_symbolic", False):
        return v.length()
    if isinstance(v, SObj):
        owner, raw = lookup_class_attr(v.cls, "__len__")
        if isinstance(raw, types.FunctionType):
            return interp.call_real(raw, (v,), {}, owner=owner)
        raise Unsupported("len of repo object")
    try:
        return len(v)
    except Exception as e:
        raise RaiseSig(e)


@model(range)
def m_range(interp, *a):
    if contains_sym(a):
        conc = [ctx().concretize(x) if isinstance(x, SInt) else x for x in a]
        if all(isinstance(x, int) for x in conc):
            return range(*conc)
        if len(a) == 1:
            return SRange(0, a[0], 1)
        if len(a) == 2:
            return SRange(a[0], a[1], 1)
        return SRange(*a)
    return range(*a)


@model(np.ndindex)
def m_ndindex(interp, *shape):
    if len(shape) == 1 and isinstance(shape[0], (tuple, list)):
        shape = tuple(shape[0])
    if contains_sym(shape):
        return SNdIndex(shape)
    return list(np.ndindex(*shape))


def _fold(f, args):
    r = args[0]
    for x in args[1:]:
        r = f(r, x)
    return r


@model(min)
def m_min(interp, *a, **kw):
    if kw:
        raise Unsupported("min with key/default")
    vals = interp.iterate(a[0]) if len(a) == 1 else list(a)
    if not vals:
        raise RaiseSig(ValueError("min() arg is an empty sequence"))
    if not contains_sym(vals):
        return min(vals)
    return _fold(smin, vals)


@model(max)
def m_max(interp, *a, **kw):
    if kw:
        raise Unsupported("max with key/default")
    vals = interp.iterate(a[0]) if len(a) == 1 else list(a)
    if not vals:
        raise RaiseSig(ValueError("max() arg is an empty sequence"))
    if not contains_sym(vals):
        return max(vals)
    return _fold(smax, vals)


@model(abs)
def m_abs(interp, v):
    return abs(v)


@model(sum)
def m_sum(interp, it, start=0):
    r = start
    for v in interp.iterate(it):
        r = interp.binop(ast.Add(), r, v)
    return r


@model(any)
def m_any(interp, it):
    from .symmap import SSetMapped, quantify
    if isinstance(it, SSetMapped):
        return quantify(it, universal=False)
    vals = interp.iterate(it)
    parts = []
    for v in vals:
        if isinstance(v, SBool):
            parts.append(v)
        elif interp.truth(v):
            return True
    return core.Or(*parts) if parts else False


@model(all)
def m_all(interp, it):
    from .symmap import SSetMapped, quantify
    if isinstance(it, SSetMapped):
        return quantify(it, universal=True)
    vals = interp.iterate(it)
    parts = []
    for v in vals:
        if isinstance(v, SBool):
            parts.append(v)
        elif not interp.truth(v):
            return False
    return core.And(*parts) if parts else True


@model(int)
def m_int(interp, v=0, base=None):
    c = ctx()
    if isinstance(v, SInt):
        return v
    if isinstance(v, SBool):
        return ite(v, 1, 0)
    if isinstance(v, SU64):
        return SInt(core.Z.BV2Int(v.t, False))
    if isinstance(v, STrueDiv):
        # CPython: correctly rounded quotient, then truncation. Exact when b | a and |a/b| < 2^53.
        a, b = v.a, v.b
        q, r = c.divmod(a, b)
        res = c.int("int_truediv")
        lim = 1 << 53
        c.assume(core.implies(core.And(r == 0, q < lim, q > -lim), res == q))
        # rounding is monotonic: an exact quotient beyond +-2^53 stays beyond it
        c.assume(core.implies(core.And(r == 0, q >= lim), res >= lim))
        c.assume(core.implies(core.And(r == 0, q <= -lim), res <= -lim))
        c.note("int(a/b) == a//b is used only where b | a and |a/b| < 2^53 are known (CPython true division is correctly rounded); otherwise the value is unconstrained")
        return res
    if isinstance(v, SLog2R):
        # int(math.log2(x)): truncation. Its own function symbol (it is NOT round(log2 x)), with the facts
        # that hold of the float computation: 0 at x == 1, >= 0 for x >= 1, monotone, and
        # 2^t <= x < 2^(t+1) for 0 <= t <= 64 (exact powers of two have exact logarithms)
        c.trust("int(math.log2(x)) for x >= 1: the t with 2^t <= x < 2^(t+1) (real regime)")
        t = c.int("trunc_log2")
        c.assume(SBool(t.t == _TRUNCLOG2(v.x.t)))
        c.assume(core.implies(v.x == 1, t == 0))
        c.assume(core.implies(v.x >= 1, t >= 0))
        for k in range(0, 65):
            c.assume(core.implies(core.And(v.x >= 1, t == k), core.And(v.x >= (1 << k), v.x < (1 << (k + 1)))))
        seen = c.ghost.setdefault("trunclog2", [])
        for (x2, t2) in seen:
            c.assume(core.implies(v.x <= x2, t <= t2))
            c.assume(core.implies(x2 <= v.x, t2 <= t))
        seen.append((v.x, t))
        return t
    if isinstance(v, SReal):
        # truncation toward zero
        fl = core.Z.ToInt(v.t)
        return SInt(core.Z.If(v.t >= 0, fl, -core.Z.ToInt(-v.t)))
    if contains_sym(v):
        raise Unsupported(f"int() of {type(v).__name__}")
    try:
        return int(v) if base is None else int(v, base)
    except Exception as e:
        raise RaiseSig(e)


@model(float)
def m_float(interp, v=0.0):
    if isinstance(v, SInt):
        ctx().note("float(int) treated as exact real (regime real)")
        return SReal(core.Z.ToReal(v.t))
    if isinstance(v, SReal):
        return v
    if contains_sym(v):
        raise Unsupported("float() of symbolic")
    try:
        return float(v)
    except Exception as e:
        raise RaiseSig(e)


@model(bool)
def m_bool(interp, v=False):
    if isinstance(v, SBool):
        return v
    if isinstance(v, (SInt, SU64, SReal)):
        return v != 0
    return interp.truth(v)


@model(bytearray)
def m_bytearray(interp, v=b"", *a):
    if isinstance(v, SInt):
        from .sbytes import zero_bytearray
        if interp.truth(v < 0):
            raise RaiseSig(ValueError("negative count"))
        return zero_bytearray(v)
    if getattr(v, "_pyvc_symbolic", False) and type(v).__name__ == "SBytes":
        from .sbytes import SBytes
        return SBytes(v.len, v.fn, mutable=True, regions=v.regions)
    if contains_sym(v):
        raise Unsupported("bytearray() of a symbolic value")
    return bytearray(v, *a)


@model(bytes)
def m_bytes(interp, v=b"", *a):
    if getattr(v, "_pyvc_symbolic", False) and type(v).__name__ == "SBytes":
        return v
    if contains_sym(v):
        raise Unsupported("bytes() of a symbolic value")
    return bytes(v, *a)


@model(tuple)
def m_tuple(interp, it=()):
    return tuple(interp.iterate(it))


@model(list)
def m_list(interp, it=()):
    return list(interp.iterate(it))


@model(zip)
def m_zip(interp, *its, strict=False):
    ls = [interp.iterate(i) for i in its]
    return list(zip(*ls))


import itertools as _it


@model(_it.zip_longest)
def m_zip_longest(interp, *its, fillvalue=None):
    ls = [interp.iterate(i) for i in its]
    return list(_it.zip_longest(*ls, fillvalue=fillvalue))


@model(enumerate)
def m_enumerate(interp, it, start=0):
    return list(enumerate(interp.iterate(it), start))


@model(reversed)
def m_reversed(interp, it):
    if isinstance(it, SRange):
        raise Unsupported("reversed symbolic range")
    return list(reversed(interp.iterate(it)))


@model(sorted)
def m_sorted(interp, it, **kw):
    vals = interp.iterate(it)
    if contains_sym(vals):
        raise Unsupported("sorted of symbolic values")
    return sorted(vals, **kw)


@model(print)
def m_print(interp, *a, **kw):
    ctx().print_log.append(a)
    return None


class SFloatRepr:
    """str(x) of a symbolic float: only endswith('.0') is supported"""
    _pyvc_symbolic = True
    _pyvc_strlike = True

    def __init__(self, x):
        self.x = x

    def endswith(self, suffix):
        if suffix != ".0":
            raise Unsupported("str(float).endswith with another suffix")
        ctx().trust("repr(float) ends with '.0' exactly for integral values of magnitude < 1e16")
        x = self.x
        fl = core.Z.ToInt(x.t)
        return SBool(core.Z.And(core.Z.ToReal(fl) == x.t, x.t < 10 ** 16, x.t > -(10 ** 16)))

    def truth(self):
        return True


@model(str)
def m_str(interp, v=""):
    if getattr(v, "_pyvc_strlike", False):
        return v
    if isinstance(v, SReal):
        return SFloatRepr(v)
    if contains_sym(v):
        return SymStr("<sym>")
    return str(v)


@model(repr)
def m_repr(interp, v):
    if contains_sym(v):
        return SymStr("<sym>")
    return repr(v)


@model(hasattr)
def m_hasattr(interp, o, name):
    if isinstance(o, SObj):
        if name in o.attrs:
            return True
        owner, raw = lookup_class_attr(o.cls, name)
        return owner is not None
    return hasattr(o, name)


@model(getattr)
def m_getattr(interp, o, name, *default):
    try:
        interp._in_getattr_default = bool(default)
        try:
            return interp.getattr(o, name)
        finally:
            interp._in_getattr_default = False
    except RaiseSig as e:
        if default and isinstance(e.exc, AttributeError):
            return default[0]
        raise


@model(np.uint64)
def m_uint64(interp, v=0):
    if isinstance(v, SU64):
        return v
    if isinstance(v, SInt):
        if not interp.truth(core.And(v >= 0, v <= core._M64)):
            raise RaiseSig(OverflowError("Python integer out of bounds for uint64"))
        return SU64(core.Z.Int2BV(v.t, 64))
    if isinstance(v, SBool):
        return SU64(core.Z.If(v.t, core.Z.BitVecVal(1, 64), core.Z.BitVecVal(0, 64)))
    if contains_sym(v):
        raise Unsupported(f"np.uint64 of {type(v).__name__}")
    try:
        return np.uint64(v)
    except Exception as e:
        raise RaiseSig(e)


import math as _math


@model(_math.ceil)
def m_ceil(interp, v):
    c = ctx()
    if isinstance(v, SInt):
        return v
    if isinstance(v, SU64):
        return SInt(core.Z.BV2Int(v.t, False))
    if isinstance(v, STrueDiv):
        a, b = v.a, v.b
        if isinstance(a, SU64):
            a = SInt(core.Z.BV2Int(a.t, False))
        res = c.int("ceil_truediv")
        q, r = c.divmod(a, b)
        exact = ite(r == 0, q, q + 1)
        c.assume(core.implies(core.And(core._i(a) >= 0, core._i(a) < (1 << 53), core._i(b) >= 1), res == exact))
        c.note("math.ceil(a/b) == ceil_div(a,b) for 0 <= a < 2^53, b >= 1 (error-bound argument on correctly rounded division); unconstrained otherwise")
        return res
    if isinstance(v, SLog2Q):
        # least n with t * 2^n >= a, for -40 <= n <= 80 (a < 2^80); libm accuracy at the boundaries assumed
        a, t = v.a, v.t
        c.note("math.ceil(math.log2(a/t)) == least n with t*2^n >= a (exact arithmetic; float accuracy at exact powers assumed, probed natively)")
        r = core.Z.IntVal(81)
        for k in range(80, -41, -1):
            cond = (a.t <= t * (1 << k)) if k >= 0 else (a.t * (1 << -k) <= t)
            r = core.Z.If(cond, core.Z.IntVal(k), r)
        return SInt(r)
    if isinstance(v, SLog2QRounded):
        # ceil(round(log2(a/t), nd)): the rounding moves the logarithm by at most h = 0.5*10^-nd, so the
        # result is the least n with a <= t * 2^n * 2^h, up to the tie band; 2^h is bracketed by rationals
        # lo < 2^h < hi (30 digits) and inside the band either neighbour is allowed (sound: both explored)
        from decimal import Decimal, getcontext
        from fractions import Fraction
        getcontext().prec = 60
        cexact = Decimal(2) ** (Decimal(5) / Decimal(10) ** (v.nd + 1))
        lo = Fraction(int(cexact * 10 ** 30), 10 ** 30)
        hi = lo + Fraction(1, 10 ** 30)
        a, t = v.a, v.t
        c.note("math.ceil(round(math.log2(a/t), nd)): least n with a <= t*2^n*2^(0.5*10^-nd) (real regime; either neighbour inside a 1e-30 relative tie band)")
        res = c.int("ceil_rounded_log2")
        c.assume(core.And(res >= -41, res <= 81))
        for k in range(80, -41, -1):
            p2 = Fraction(1 << k) if k >= 0 else Fraction(1, 1 << -k)
            below = SBool(a.t * (t * p2 * lo).denominator <= (t * p2 * lo).numerator)      # a <= t*2^k*lo
            above = SBool(a.t * (t * p2 * hi).denominator > (t * p2 * hi).numerator)       # a >  t*2^k*hi
            c.assume(core.implies(below, res <= k))
            c.assume(core.implies(above, res > k))
        return res
    if isinstance(v, SLog2):
        n = v.n
        res = c.int("ceil_log2")
        p = c.pow2(res) if False else None
        # k = ceil(log2 n)  <=>  n >= 1 and 2^(k-1) < n <= 2^k  (k = 0 for n = 1)
        bl = core.Z.Sum([core.Z.If(n.t > (1 << i), 1, 0) for i in range(48)])
        c.assume(core.implies(core.And(n >= 1, n <= (1 << 48)), SBool(res.t == bl)))
        c.note("math.ceil(math.log2(n)) == bit_length(n-1) for 1 <= n <= 2^48 (libm accuracy: assumed, probed natively at 2^k, 2^k+-1); unconstrained for larger n")
        return res
    if isinstance(v, SReal):
        fl = core.Z.ToInt(v.t)
        return SInt(core.Z.If(core.Z.ToReal(fl) == v.t, fl, fl + 1))
    if contains_sym(v):
        raise Unsupported("math.ceil of symbolic")
    try:
        return _math.ceil(v)
    except Exception as e:
        raise RaiseSig(e)


class SLog2(Sym):
    __slots__ = ("n",)

    def __init__(self, n):
        self.n = n


class SLog2R(Sym):
    """log2 of a positive real (kept symbolic; only round() is supported)"""
    __slots__ = ("x",)

    def __init__(self, x):
        self.x = x


class SLog2Q(Sym):
    """log2(a / t) for a symbolic int a and a concrete positive int t"""
    __slots__ = ("a", "t")

    def __init__(self, a, t):
        self.a, self.t = a, t


class SLog2QRounded(Sym):
    """round(log2(a / t), nd) with nd >= 1 digits"""
    __slots__ = ("a", "t", "nd")

    def __init__(self, a, t, nd):
        self.a, self.t, self.nd = a, t, nd


_ROUNDLOG2 = core.Z.Function("round_log2", core.Z.RealSort(), core.Z.IntSort())
_TRUNCLOG2 = core.Z.Function("trunc_log2", core.Z.RealSort(), core.Z.IntSort())


@model(round)
def m_round(interp, v, nd=None):
    c = ctx()
    if nd is not None and isinstance(v, SLog2Q) and isinstance(nd, int) and 1 <= nd <= 12:
        return SLog2QRounded(v.a, v.t, nd)
    if nd is not None:
        raise Unsupported("round with ndigits")
    if isinstance(v, SInt):
        return v
    if isinstance(v, SLog2R):
        # D(x) = round(log2 x): only monotonicity and D(1) == 0 are used (sound abstraction of the float
        # computation: log2 and round are monotone, log2(1.0) == 0.0 exactly)
        c.trust("round(math.log2(x)) abstracted as a monotone integer function with value 0 at x == 1")
        d = c.int("delay")
        c.assume(SBool(d.t == _ROUNDLOG2(v.x.t)))
        c.assume(core.implies(v.x == 1, d == 0))
        c.assume(core.implies(v.x >= 1, d >= 0))
        # meaning, for the delays that matter (0..64): d == round(log2 x)  =>  2^(d-1/2) <= x <= 2^(d+1/2),
        # stated on squares to stay rational
        for k in range(0, 65):
            c.assume(core.implies(core.And(v.x >= 1, d == k),
                                  core.And(2 * v.x * v.x >= (1 << (2 * k)), v.x * v.x <= (1 << (2 * k + 1)))))
        seen = c.ghost.setdefault("roundlog2", [])
        for (x2, d2) in seen:
            c.assume(core.implies(v.x <= x2, d <= d2))
            c.assume(core.implies(x2 <= v.x, d2 <= d))
        seen.append((v.x, d))
        return d
    if isinstance(v, SLog2E):
        return v.e
    if isinstance(v, SReal):
        from .models_numpy import round_half_even_real
        r = round_half_even_real(v)
        return SInt(core.Z.ToInt(r.t))
    if contains_sym(v):
        raise Unsupported(f"round of {type(v).__name__}")
    return round(v)


class SLog2E(Sym):
    """log2(2**e) == e exactly"""
    __slots__ = ("e",)

    def __init__(self, e):
        self.e = e


@model(_math.log2)
def m_log2(interp, v):
    if isinstance(v, SReal):
        if interp.truth(v <= 0):
            raise RaiseSig(ValueError("math domain error"))
        return SLog2R(v)
    if isinstance(v, STrueDiv) and isinstance(v.a, SInt) and isinstance(v.b, int) and v.b > 0:
        if interp.truth(v.a <= 0):
            raise RaiseSig(ValueError("math domain error"))
        return SLog2Q(v.a, v.b)
    if isinstance(v, SInt) and core.Z.is_app(v.t) and v.t.decl().name() == "pow2":
        ctx().trust("math.log2(2**e) == e exactly (e < 1024)")
        return SLog2E(SInt(v.t.arg(0)))
    if isinstance(v, SInt):
        if interp.truth(v <= 0):
            raise RaiseSig(ValueError("math domain error"))
        return SLog2(v)
    if contains_sym(v):
        raise Unsupported("math.log2 of symbolic non-int")
    try:
        return _math.log2(v)
    except Exception as e:
        raise RaiseSig(e)


try:
    import tqdm as _tqdm

    @model(_tqdm.tqdm)
    def m_tqdm(interp, iterable=None, *a, **kw):
        if iterable is None:
            return NoOp("tqdm")
        return iterable

    @model(_tqdm.trange)
    def m_trange(interp, *a, **kw):
        return m_range(interp, *a)

    @model(_tqdm.tqdm.write.__func__)
    def m_tqdm_write(interp, *a, **kw):
        return None
except Exception:  # pragma: no cover
    pass


import copy as _copy


@model(_copy.deepcopy)
def m_deepcopy(interp, v):
    def cp(x):
        if isinstance(x, dict):
            return {k: cp(y) for k, y in x.items()}
        if isinstance(x, list):
            return [cp(y) for y in x]
        if isinstance(x, tuple):
            return tuple(cp(y) for y in x)
        if is_sym(x) or isinstance(x, (int, float, str, bool, type(None))):
            return x
        if contains_sym(x):
            raise Unsupported("deepcopy of symbolic object")
        return _copy.deepcopy(x)
    return cp(v)
