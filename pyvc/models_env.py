"""Environment models: file-like objects over symbolic bytes (ghost write log / read cursor)."""
from . import core
from .core import And, RaiseSig, SInt, Unsupported, ctx, ite, smax, smin
from .sbytes import SBytes, as_sbytes


class SWriteFile:
    """binary file opened for writing: records every write (ghost log)"""
    _pyvc_symbolic = True

    def __init__(self):
        self.writes = []

    def write(self, b):
        ctx().interp.heap_write()
        self.writes.append(as_sbytes(b) if not isinstance(b, SBytes) else b)
        return None

    def truth(self):
        return True

    def __enter__(self):
        return self

    def __exit__(self, *a):
        return False


class SReadFile:
    """binary file opened for reading over a byte string; read(n) returns min(n, remaining) bytes"""
    _pyvc_symbolic = True

    def __init__(self, data):
        self.data = data
        self.pos = 0

    def read(self, n=None):
        c = ctx()
        c.trust("file.read(n): the next min(n, remaining) bytes; read() the rest (regular in-memory/local file)")
        rem = self.data.len - self.pos
        if n is None:
            ln = rem
        else:
            if c.interp.truth(n < 0) if isinstance(n, SInt) else n < 0:
                ln = rem
            else:
                ln = smin(n, rem)
        start = self.pos
        src = self.data.fn
        out = SBytes(ln, lambda i: src(start + i))
        c.interp.heap_write()
        self.pos = start + ln
        return out

    def truth(self):
        return True

    def __enter__(self):
        return self

    def __exit__(self, *a):
        return False
