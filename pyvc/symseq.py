"""Symbolic-length sequences (lists of file names, ...): length + item function."""
from . import core
from .arrays import norm_slice
from .core import And, RaiseSig, SInt, Unsupported, ctx, ite


class SymSeq:
    _pyvc_symbolic = True
    _pyvc_symseq = True

    def __init__(self, length, item_fn):
        self.len = length
        self.item_fn = item_fn

    def length(self):
        return self.len

    def item(self, i):
        return self.item_fn(i)

    def truth(self):
        return ctx().interp.truth(self.len != 0)

    def isinstance_of(self, ts):
        return any(t in (list, object) for t in ts)

    def getitem(self, k):
        c = ctx()
        if isinstance(k, slice):
            lo, st, ln = norm_slice(k, self.len)
            src = self
            return SymSeq(ln, lambda i: src.item(lo + st * i))
        i = ite(k < 0, k + self.len, k) if isinstance(k, SInt) else (k + self.len if k < 0 else k)
        if not c.interp.truth(And(i >= 0, i < self.len)):
            raise RaiseSig(IndexError("list index out of range"))
        return self.item(i)

    def mapped(self, f):
        src = self
        return SymSeq(self.len, lambda i: f(i) if False else f(i))

    def iterate(self):
        raise Unsupported("iteration over a sequence of symbolic length (only lazy generator expressions are supported)")
