"""Abstract finite map  uint64 key -> byte string  (the contract shared by `dict` and the repo's
OnDiskBytesDict as MiniShard uses them): membership, store, pop, len, iteration over the keys inside
any()/all().  Functional representation: `has(k)` and `get(k)` are Python closures over z3 terms, an
update wraps them in if-then-else on the key, so no quantifier reaches the solver; universally
quantified facts (\"no key below x\") are kept as objects that a contract instantiates at the keys it
needs (`SExists.instance(k)`)."""
import z3

from . import core
from .core import And, Not, Or, RaiseSig, SBool, SInt, SU64, Unsupported, ctx, implies, ite
from .sbytes import SBytes, as_sbytes


def _key(k):
    import numpy as np
    if isinstance(k, SU64):
        return k
    if isinstance(k, (int, np.integer)):
        return SU64(core._u64(int(k)))
    raise Unsupported(f"map key of type {type(k).__name__}")


class SBytesMap:
    _pyvc_symbolic = True

    def __init__(self, has, get, card):
        self.has, self.get, self.card = has, get, card

    @staticmethod
    def fresh(c, name):
        """arbitrary finite map"""
        hf = c.func(name + "_has", z3.BitVecSort(64), z3.BoolSort(), inp=False)
        lf = c.func(name + "_len", z3.BitVecSort(64), z3.IntSort(), inp=False)
        bf = c.func(name + "_byte", z3.BitVecSort(64), z3.IntSort(), z3.IntSort(), inp=False)
        card = c.int(name + "_size")
        c.assume(card >= 0)

        def has(k):
            return SBool(hf(k.t))

        def get(k):
            ln = SInt(lf(k.t))
            ctx().assume(ln >= 0)
            return SBytes(ln, lambda i, k=k: SInt(bf(k.t, core._i(i))))
        m = SBytesMap(has, get, card)
        m.origin = m
        return m

    # ---- protocol used by the interpreter
    def contains(self, k):
        k = _key(k)
        r = self.has(k)
        c = ctx()
        c.assume(implies(r, self.card >= 1))            # a member exists -> the map is not empty
        return r

    def getitem(self, k):
        k = _key(k)
        if not ctx().interp.truth(self.has(k)):
            raise RaiseSig(KeyError("key"))
        return self.get(k)

    def setitem(self, k, v):
        k = _key(k)
        v = as_sbytes(v)
        old_has, old_get, old_card = self.has, self.get, self.card
        was = old_has(k)
        self.has = lambda q, k=k, f=old_has: Or(q == k, f(q))
        self.get = lambda q, k=k, v=v, g=old_get: _pick_bytes(q == k, v, g, q)
        self.card = old_card + ite(was, 0, 1)

    def pop(self, k, *default):
        k = _key(k)
        if not ctx().interp.truth(self.has(k)):
            if default:
                return default[0]
            raise RaiseSig(KeyError("key"))
        v = self.get(k)
        old_has, old_card = self.has, self.card
        self.has = lambda q, k=k, f=old_has: And(Not(q == k), f(q))
        self.card = old_card - 1
        ctx().assume(old_card >= 1)
        return v

    def keys(self):
        return SKeySet(self)

    def iterate(self):
        # the abstract map has no enumeration order (dict keeps insertion order, OnDiskBytesDict iterates as an
        # EMPTY dict): code that iterates over it directly depends on the concrete class -- not modelled
        raise Unsupported("iteration over the abstract buffer map (behaviour differs between dict and OnDiskBytesDict)")

    def __iter__(self):
        raise Unsupported("iteration over the abstract buffer map (behaviour differs between dict and OnDiskBytesDict)")

    def length(self):
        return self.card

    def truth(self):
        return ctx().interp.truth(self.card > 0)

    def snapshot(self):
        return SBytesMap(self.has, self.get, self.card)


def _pick_bytes(cond, v, g, q):
    """bytes value  `v if cond else g(q)`  (lengths and contents merged lazily)"""
    o = g(q)
    return SBytes(ite(cond, v.len, o.len), lambda i: ite(cond, v.fn(i), o.fn(i)))


class SKeySet:
    """dict.keys() of an abstract map: only usable as the iterable of a generator expression"""
    _pyvc_symbolic = True
    _pyvc_symset = True

    def __init__(self, m):
        self.m = m

    def mapped(self, fn):
        return SSetMapped(self.m, fn)

    def length(self):
        return self.m.card

    def truth(self):
        return self.m.truth()


class SSetMapped:
    """(f(k) for k in map.keys())"""
    _pyvc_symbolic = True

    def __init__(self, m, fn):
        self.m, self.fn = m, fn
        self.has = m.has                     # membership at the time the generator was created/consumed


class SExists(SBool):
    """any(f(k) for k in keys): a boolean b with  b => has(w) and f(w)  for a fresh witness w, and the
    universal direction  (not b) => for all k: has(k) => not f(k)  available through instance(k)"""
    __slots__ = ("has", "fn", "universal", "witness")

    def __init__(self, t, has, fn, universal):
        super().__init__(t)
        self.has, self.fn, self.universal = has, fn, universal

    def instance(self, k):
        c = ctx()
        if self.universal:      # all(): b => (has(k) => f(k))
            c.assume(implies(And(self, self.has(k)), self.fn(k)))
        else:                   # any(): not b => (has(k) => not f(k))
            c.assume(implies(And(Not(self), self.has(k)), Not(self.fn(k))))


def quantify(sm, universal):
    c = ctx()
    b = c.bool(c.fresh_name("all_keys" if universal else "some_key"))
    w = c.u64(c.fresh_name("witness_key"))
    has = sm.m.has
    if universal:
        c.assume(implies(Not(b), And(has(w), Not(sm.fn(w)))))
    else:
        c.assume(implies(b, And(has(w), sm.fn(w))))
    q = SExists(b.t, has, sm.fn, universal)
    q.witness = w
    c.ghost.setdefault("quantified", []).append(q)
    return q
