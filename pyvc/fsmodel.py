"""POSIX file-system / pathlib / gzip model (assumed contracts; the trusted base of C12, C18, C04).

Paths stay native pathlib/str objects; symbolic integers inside names are carried as *tokens*
(TokStr), so every pure path operation (/, parent, name, with_name, relative_to, parts, format) is the
real library's. Only the operations that touch the file system are modelled:
  Path.is_file / exists / open / mkdir / unlink, builtins.open, os.makedirs, gzip.open.
A file is a byte string; `open` modes rb / wb / xb / ab; a path never seen before has an arbitrary
(unconstrained) initial state. With faults enabled every operation may instead raise OSError,
possibly after a partial effect on its one target path.
"""
import builtins
import gzip as _gzip
import os as _os
import pathlib
import re

from . import core
from .core import And, Not, Or, RaiseSig, SBool, SInt, Unsupported, ctx, ite
from .interp import METHOD_MODELS, contains_sym, model
from .sbytes import SBytes, as_sbytes

_TOK = re.compile("\x01(\\d+)\x02")


def tok(v):
    """token text standing for the rendering of a symbolic number (int or real)"""
    reg = ctx().ghost.setdefault("tokens", [])
    for i, x in enumerate(reg):
        if x is v:
            return f"\x01{i}\x02"
    reg.append(v)
    return f"\x01{len(reg) - 1}\x02"


def fmt(template, *args, **kw):
    """str.format with tokens for symbolic ints"""
    import string
    sym = any(isinstance(x, SInt) for x in list(args) + list(kw.values()))
    if sym:
        # a symbolic number travels as an opaque token: only plain replacement fields ({} / {0} / {name}) render
        # it faithfully; a format spec (width, base, precision ...) on it is not modelled
        for _, field, spec, conv in string.Formatter().parse(template):
            if field is not None and (spec or conv):
                raise Unsupported(f"format spec {spec!r} applied in a template that renders a symbolic number")
    a = [tok(x) if isinstance(x, SInt) else x for x in args]
    k = {n: (tok(x) if isinstance(x, SInt) else x) for n, x in kw.items()}
    try:
        return template.format(*a, **k)
    except (ValueError, TypeError, IndexError, KeyError) as e:
        if sym:
            raise Unsupported(f"str.format on a symbolic number: {e}")
        raise RaiseSig(e)


def str_eq(a, b):
    """semantic equality of two tokenised strings -> bool | SBool"""
    a, b = str(a), str(b)
    sa, sb = _TOK.split(a), _TOK.split(b)
    if len(sa) != len(sb):
        return False
    reg = ctx().ghost.get("tokens", [])
    conds = []
    for i, (x, y) in enumerate(zip(sa, sb)):
        if i % 2 == 0:
            if x != y:
                return False
        else:
            vx, vy = reg[int(x)], reg[int(y)]
            if vx is not vy:
                conds.append(vx == vy)
    return And(*conds) if conds else True


class GzBytes:
    """content of a file written through gzip: a valid gzip stream of `payload`"""

    def __init__(self, payload, complete=True):
        self.payload = payload
        self.complete = complete


class FSEntry:
    def __init__(self, path, exists, content):
        self.path = path
        self.exists = exists          # bool | SBool
        self.content = content        # SBytes | GzBytes | None
        self.initial = True


class FS:
    def __init__(self):
        self.entries = []
        self.log = []                 # (op, path) of every file-system operation performed
        self.faults = False

    def entry(self, path):
        c = ctx()
        p = str(path)
        for e in self.entries:
            if c.interp.truth(str_eq(e.path, p)):
                return e
        k = len(self.entries)
        ex = c.bool(f"fs_exists{k}") if getattr(self, "unseen_paths_absent", False) is False else False
        e = FSEntry(p, ex, None)
        self.entries.append(e)
        return e

    def op(self, name, path):
        c = ctx()
        self.log.append((name, str(path)))
        if self.faults and c.interp.truth(c.bool(f"fault_{name}_{len(self.log)}")):
            raise RaiseSig(OSError(f"injected fault in {name}"))

    def initial_content(self, e):
        c = ctx()
        if e.content is None:
            k = self.entries.index(e)
            # an unknown pre-existing file: either plain bytes or a gzip stream (or garbage for gzip)
            e.content = SBytes.fresh(c, f"fs_content{k}", inp=False)
            e.content.maybe_gzip = True
        return e.content


def get_fs():
    c = ctx()
    fs = c.ghost.get("fs")
    if fs is None:
        fs = FS()
        c.ghost["fs"] = fs
    return fs


class SWriter:
    _pyvc_symbolic = True

    def __init__(self, fs, entry, gz, append_to=None):
        self.fs, self.e, self.gz = fs, entry, gz
        self.data = append_to if append_to is not None else SBytes(0, lambda i: 0)
        self.closed = False
        self.writes = []

    pos = None       # None: at the end (append position)

    def write(self, b):
        c = ctx()
        c.interp.heap_write()
        self.fs.op("write", self.e.path)
        b = as_sbytes(b)
        self.writes.append((self.pos, b))
        if self.pos is None:
            self.data = self.data + b
        else:
            # positioned write: overwrite [pos, pos+len(b)), extending the file if needed
            old, p, lb = self.data, self.pos, b.len
            from .core import smax
            new_len = smax(old.len, p + lb)
            def fn(i, old=old, p=p, lb=lb, b=b):
                cnd = And(i >= p, i < p + lb)
                if isinstance(cnd, bool):
                    return b.fn(i - p) if cnd else old.fn(i)
                return ite(cnd, b.fn(i - p), old.fn(i))
            regs = [r for r in old.regions]          # (an overwritten range shadows older provenance: newest first in read_uint)
            regs += [(p + st, ln, kd, pl) for (st, ln, kd, pl) in b.regions]
            self.data = SBytes(new_len, fn, regions=regs)
            self.pos = p + lb
        self._commit(complete=False)
        return None

    def seek(self, pos, whence=0):
        if whence != 0:
            raise Unsupported("seek whence != 0")
        ctx().interp.heap_write()
        self.fs.op("seek", self.e.path)
        self.pos = pos
        return pos

    def _commit(self, complete):
        if self.e.initial:
            self.e.pre_exists = self.e.exists          # old(exists), for "no overwrite without permission"
        self.e.exists = True
        self.e.initial = False
        self.e.writes = self.writes                  # (position or None for append, bytes) of every write so far
        self.e.content = GzBytes(self.data, complete) if self.gz else self.data

    def truth(self):
        return True

    def __enter__(self):
        return self

    def __exit__(self, *a):
        self._commit(complete=True)
        self.closed = True
        return False


def _pick3(cond, a, b):
    if isinstance(cond, bool):
        return a if cond else b
    return ite(cond, a, b)


class SReader:
    _pyvc_symbolic = True

    def __init__(self, fs, entry, data):
        self.fs, self.e, self.data = fs, entry, data
        self.pos = 0

    def seek(self, offset, whence=0):
        c = ctx()
        if whence != 0:
            raise Unsupported("seek relative to the current position / end")
        if c.interp.truth(offset < 0):
            raise RaiseSig(OSError(22, "Invalid argument"))
        self.fs.op("seek", self.e.path)
        self.pos = offset
        return offset

    def read(self, n=None):
        """file.read(n): up to n bytes from the cursor (fewer at end of file); n None or negative: the rest"""
        c = ctx()
        self.fs.op("read", self.e.path)
        if n is None and isinstance(self.pos, int) and self.pos == 0:
            self.pos = self.data.len
            return self.data
        data, pos = self.data, self.pos
        rest = core.smax(0, data.len - pos)
        if n is None or (not isinstance(n, int) and c.interp.truth(n < 0)) or (isinstance(n, int) and n < 0):
            ln = rest
        else:
            ln = core.smin(n, rest)
        self.pos = pos + ln
        return SBytes(ln, lambda i, data=data, pos=pos: data.fn(pos + i))

    def truth(self):
        return True

    def __enter__(self):
        return self

    def __exit__(self, *a):
        return False


def fs_open(path, mode="r", gz=False):
    c = ctx()
    fs = get_fs()
    e = fs.entry(path)
    fs.op("open:" + mode + (":gz" if gz else ""), path)
    if mode in ("rb",):
        if not c.interp.truth(e.exists):
            raise RaiseSig(FileNotFoundError(2, "No such file or directory"))
        content = e.content if e.content is not None else fs.initial_content(e)
        if gz:
            return SGzReader(fs, e, content)
        if isinstance(content, GzBytes):
            raw = SBytes.fresh(c, c.fresh_name("gzstream"), inp=False)
            raw.gz_of = content
            return SReader(fs, e, raw)
        return SReader(fs, e, content)
    if mode == "xb":
        if c.interp.truth(e.exists):
            raise RaiseSig(FileExistsError(17, "File exists"))
        w = SWriter(fs, e, gz)
        w._commit(complete=False)
        return w
    if mode == "wb":
        w = SWriter(fs, e, gz)
        w._commit(complete=False)
        return w
    if mode == "ab" and not gz:
        # append: the file is created when absent, earlier content stays and every write goes to the end
        if c.interp.truth(e.exists):
            old = e.content if e.content is not None else fs.initial_content(e)
            if isinstance(old, GzBytes):
                raise Unsupported("append to a gzip stream")
        else:
            old = None
        w = SWriter(fs, e, False, append_to=old)
        w._commit(complete=False)
        return w
    raise Unsupported(f"open mode {mode!r}")


class SGzReader:
    """gzip.open(path, 'rb'): the failure classes of CPython's gzip on a file that is not a complete
    gzip stream are OSError (BadGzipFile), EOFError (truncated) and zlib.error; a file of length 0 is
    read as b"" without error (checked natively by tools/model_probes.py)"""
    _pyvc_symbolic = True

    def __init__(self, fs, entry, content):
        self.fs, self.e, self.content = fs, entry, content

    def read(self, n=None):
        import zlib
        c = ctx()
        self.fs.op("read:gz", self.e.path)
        ct = self.content
        if isinstance(ct, GzBytes) and ct.complete:
            return ct.payload
        c.trust("gzip read of a file that is not a complete gzip stream raises BadGzipFile (OSError), EOFError or zlib.error")
        if isinstance(ct, GzBytes):
            # CPython's gzip reads a file of length 0 as an empty stream (returns b""); any longer strict
            # prefix of a gzip member raises EOFError (or BadGzipFile inside the 10-byte header)
            if c.interp.truth(c.bool("interrupted_before_the_first_byte_reached_the_file")):
                return SBytes.from_concrete(b"")
            raise RaiseSig(EOFError("Compressed file ended before the end-of-stream marker was reached"))
        if getattr(ct, "maybe_gzip", False) and c.interp.truth(c.bool("initial_file_is_valid_gzip")):
            payload = SBytes.fresh(c, c.fresh_name("gz_payload"), inp=False)
            ct.gz_payload = payload
            return payload
        k = c.int("gz_failure_kind")
        if c.interp.truth(k == 0):
            raise RaiseSig(_gzip.BadGzipFile("Not a gzipped file"))
        if c.interp.truth(k == 1):
            raise RaiseSig(EOFError("Compressed file ended before the end-of-stream marker was reached"))
        raise RaiseSig(zlib.error("Error -3 while decompressing data"))

    def truth(self):
        return True

    def __enter__(self):
        return self

    def __exit__(self, *a):
        return False


# --------------------------------------------------------------------------- library entry points

@model(builtins.open)
def m_open(interp, file, mode="r", *a, **k):
    return fs_open(file, mode)


@model(_gzip.open)
def m_gzip_open(interp, filename, mode="rb", compresslevel=9, *a, **k):
    if not (isinstance(compresslevel, int) and 0 <= compresslevel <= 9):
        raise RaiseSig(ValueError("Invalid compresslevel"))
    return fs_open(filename, mode, gz=True)


@model(_os.makedirs)
def m_makedirs(interp, name, mode=0o777, exist_ok=False):
    fs = get_fs()
    fs.op("makedirs", name)
    return None


def _os_fs_call(name):
    """os-level calls on a path. Inside a unit that uses the file-system model they must go through the model
    (a native call would look at the real disk, find nothing, and hide the effect from the frame obligations)."""
    def m(interp, path, *a, **k):
        import pathlib
        if "fs" not in ctx().ghost:
            try:
                return getattr(_os, name)(path, *a, **k)
            except Exception as ex:
                raise RaiseSig(ex)
        if name in ("unlink", "remove"):
            return path_method(interp, path if isinstance(path, pathlib.PurePath) else pathlib.Path(path), "unlink", (), {})
        raise Unsupported(f"os.{name} is not modelled (it would touch the real file system)")
    return m


for _n in ("unlink", "remove", "rename", "replace", "rmdir", "truncate", "link", "symlink", "chmod", "removedirs", "renames"):
    model(getattr(_os, _n))(_os_fs_call(_n))


PURE_PATH_METHODS = {"with_name", "with_suffix", "relative_to", "joinpath", "is_absolute", "as_posix", "__truediv__",
                     "__rtruediv__", "__str__", "__fspath__", "__eq__", "__hash__", "match"}


def path_method(interp, p, name, args, kwargs):
    """dispatch of a bound pathlib method: pure ones natively, file-system ones through the model"""
    fs = get_fs()
    if name == "is_file":
        fs.op("is_file", p)
        e = fs.entry(p)
        return e.exists
    if name == "exists":
        fs.op("exists", p)
        return fs.entry(p).exists
    if name == "open":
        return fs_open(p, *args, **kwargs)
    if name in ("write_bytes", "read_bytes"):
        # Path.write_bytes(b) == open('wb') + write + close; Path.read_bytes() == open('rb') + read + close
        if name == "write_bytes":
            w = fs_open(p, "wb")
            data = as_sbytes(args[0])
            w.write(data)
            w.__exit__(None, None, None)
            gz = getattr(data, "gzip_stream_of", None)
            if gz is not None:                      # the bytes are a complete gzip stream (gzip.compress)
                w.e.content = GzBytes(gz, True)
            return data.len
        r = fs_open(p, "rb")
        return r.read()
    if name == "mkdir":
        fs.op("mkdir", p)
        return None
    if name == "unlink":
        fs.op("unlink", p)
        e = fs.entry(p)
        if not ctx().interp.truth(e.exists):
            raise RaiseSig(FileNotFoundError(2, "No such file or directory"))
        e.unlinked = True                 # (e.initial stays as it was: 'deleted while never written' is observable)
        e.exists = False
        return None
    if name in PURE_PATH_METHODS:
        try:
            return getattr(p, name)(*args, **kwargs)
        except Exception as ex:
            raise RaiseSig(ex)
    raise Unsupported(f"pathlib method {name} is not modelled (it would touch the real file system)")


@model(_gzip.compress)
def m_gzip_compress(interp, data, compresslevel=9, **kw):
    """gzip.compress(b): a complete gzip stream of b (opaque bytes that remember their payload)"""
    c = ctx()
    c.trust("gzip.compress(b): a complete gzip stream whose decompression is b")
    out = SBytes.fresh(c, c.fresh_name("gzip_stream"), inp=False)
    c.assume(out.len >= 18)
    out.gzip_stream_of = as_sbytes(data)
    return out


# --------------------------------------------------------------------------- HTTP (requests) model

import requests as _requests  # noqa: E402


class HttpWorld:
    """served-files map: url -> outcome. An unseen URL gets an arbitrary outcome (any status, any body,
    or a connection failure)."""

    def __init__(self):
        self.entries = []     # (url, dict)
        self.log = []

    def outcome(self, url, method):
        c = ctx()
        for u, o in self.entries:
            if c.interp.truth(str_eq(u, url)):
                return o
        k = len(self.entries)
        o = {"fails": c.bool(f"http_conn_fails{k}"), "status": c.int(f"http_status{k}"),
             "body": SBytes.fresh(c, f"http_body{k}", inp=False)}
        c.assume(And(o["status"] >= 100, o["status"] <= 599))
        self.entries.append((str(url), o))
        return o


def get_http():
    c = ctx()
    w = c.ghost.get("http")
    if w is None:
        w = HttpWorld()
        c.ghost["http"] = w
    return w


class SResponse:
    _pyvc_symbolic = True

    def __init__(self, status, body, url):
        self.status_code = status
        self.content = body
        self.url = url

    def raise_for_status(self):
        c = ctx()
        c.trust("requests.Response.raise_for_status: raises HTTPError (a RequestException) iff 400 <= status < 600")
        if c.interp.truth(self.status_code >= 400):
            raise RaiseSig(_requests.exceptions.HTTPError("status"))
        return None

    def truth(self):
        return ctx().interp.truth(self.status_code < 400)

    # requests.Response is a context manager (close on exit); the undecoded stream `raw`, `iter_content`, headers and
    # Content-Encoding are NOT modelled: code that reads them is 'unsupported' (undecided), never judged
    def __enter__(self):
        return self

    def __exit__(self, *a):
        return False

    def close(self):
        return None


class AnyOtherRequestException(_requests.exceptions.RequestException):
    """stands for every RequestException subclass that is none of ConnectionError, Timeout, HTTPError"""


def _http(interp, method, self_, url, **kw):
    c = ctx()
    w = get_http()
    c.trust("requests.Session.get/head: raises a RequestException on connection failure, else a response with a status code and a body")
    hdrs = kw.get("headers") or {}
    w.log.append((method, str(url), dict(hdrs)))
    o = w.outcome(url, method)
    if interp.truth(o["fails"]):
        # the assumed contract only says "some RequestException": the caller has to cope with every
        # subclass, so besides the two common ones an exception class that is a RequestException and
        # nothing more specific (as ChunkedEncodingError, TooManyRedirects, ... are to a caller that
        # lists ConnectionError/Timeout/HTTPError) is raised on its own path
        k = c.int(c.fresh_name("http_failure_kind"))
        if interp.truth(k == 0):
            raise RaiseSig(_requests.exceptions.ConnectionError("connection reset"))
        if interp.truth(k == 1):
            raise RaiseSig(_requests.exceptions.Timeout("timed out"))
        raise RaiseSig(AnyOtherRequestException("body transfer interrupted / too many redirects / ..."))
    body = o["body"]
    if "Range" in hdrs and "range_body" in o:
        body = o["range_body"](hdrs["Range"])
    return SResponse(o["status"], body if method == "GET" else SBytes(0, lambda i: 0), str(url))


@model(_requests.Session.get)
def m_session_get(interp, self_, url, **kw):
    return _http(interp, "GET", self_, url, **kw)


@model(_requests.Session.head)
def m_session_head(interp, self_, url, **kw):
    return _http(interp, "HEAD", self_, url, **kw)


import atexit as _atexit  # noqa: E402


@model(_atexit.register)
def m_atexit_register(interp, f, *a, **k):
    ctx().ghost.setdefault("atexit", []).append(f)
    return f


import json as _json  # noqa: E402


SENTINEL = 10 ** 40


@model(_json.loads)
def m_json_loads(interp, s, **kw):
    if isinstance(s, SBytes):
        conc = getattr(s, "concrete", None)
        if conc is None:
            raise Unsupported("json.loads of symbolic bytes")
        s = conc
    if isinstance(s, str) and _TOK.search(s):
        # symbolic numbers inside a JSON text: parse with sentinel integers and map them back
        reg = ctx().ghost.get("tokens", [])
        ctx().trust("json.loads(text) returns the numbers written in the text (symbolic numbers travel through sentinels)")
        txt = _TOK.sub(lambda m: str(SENTINEL + int(m.group(1))), s)
        try:
            val = _json.loads(txt, **kw)
        except Exception as e:
            raise RaiseSig(e)

        def back(v):
            if isinstance(v, int) and not isinstance(v, bool) and SENTINEL <= v < SENTINEL + len(reg):
                return reg[v - SENTINEL]
            if isinstance(v, list):
                return [back(x) for x in v]
            if isinstance(v, dict):
                return {k: back(x) for k, x in v.items()}
            return v
        return back(val)
    try:
        return _json.loads(s, **kw)
    except Exception as e:
        raise RaiseSig(e)


class SJsonText:
    """json.dumps of a structure containing symbolic numbers: the structure itself (the text is the
    standard rendering of it; numbers round-trip by the assumed json float repr contract)"""
    _pyvc_symbolic = True
    _pyvc_strlike = True

    def __init__(self, value, kw):
        self.value = value
        self.kw = kw

    def encode(self, *a):
        b = SBytes.fresh(ctx(), ctx().fresh_name("json_bytes"), inp=False)
        b.json_of = self
        return b

    def truth(self):
        return True


@model(_json.dumps)
def m_json_dumps(interp, obj, **kw):
    if not contains_sym(obj):
        try:
            return _json.dumps(obj, **kw)
        except Exception as e:
            raise RaiseSig(e)
    ctx().trust("json.dumps/loads round-trip numbers exactly (float repr is shortest round-tripping)")
    return SJsonText(obj, kw)
