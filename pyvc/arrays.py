"""pyvc.arrays -- functional models of numpy.ndarray and bytes (assumed contracts of NumPy).

An SArr is a strided view over a buffer: every buffer axis is either fixed at an index or an
affine function  start + step*k  of one view axis (exactly NumPy's basic-indexing views:
slices, integers, newaxis, transpose/moveaxis, flips). Element reads go through the buffer's
element function (index tuple -> scalar term); writes replace that function by an
if-then-else on the written region, so aliasing between views of one buffer is modelled.
Operations that NumPy implements by copying (astype, arithmetic, pad, reshape-as-copy,
tobytes/frombuffer) create a new buffer.
"""
import itertools

import numpy as np

from . import core
from .core import (And, Not, Or, RaiseSig, SBool, SBV, SInt, SReal, SU64, Sym, Unsupported, ctx, implies)
from .core import ite, smax, smin  # noqa: F401  (dyadic-aware versions)

_ids = itertools.count()


def sym_prod(xs):
    r = 1
    for x in xs:
        r = r * x
    return r


def norm_slice(sl, n):
    """Python slice normalisation -> (start, step, length); step must be a concrete non-zero int"""
    st = 1 if sl.step is None else sl.step
    if isinstance(st, (SInt,)):
        c = ctx()
        if c.interp.truth(st == 0):
            raise RaiseSig(ValueError("slice step cannot be zero"))
        if c.interp.truth(st < 0):
            raise Unsupported("slice with symbolic negative step")
        if sl.start is None and sl.stop is None:
            q, r = c.divmod(n, st)
            return 0, st, ite(r == 0, q, q + 1)
        lo = 0 if sl.start is None else sl.start
        hi = n if sl.stop is None else sl.stop
        lo = smin(smax(ite(lo < 0, lo + n, lo) if isinstance(lo, SInt) else (lo + n if lo < 0 else lo), 0), n)
        hi = smin(smax(ite(hi < 0, hi + n, hi) if isinstance(hi, SInt) else (hi + n if hi < 0 else hi), 0), n)
        d = smax(hi - lo, 0)
        q, r = c.divmod(d, st)
        return lo, st, ite(r == 0, q, q + 1)
    if st == 0:
        raise RaiseSig(ValueError("slice step cannot be zero"))
    lo, hi = sl.start, sl.stop

    def clamp(v, low, high):
        return smin(smax(v, low), high)
    if st > 0:
        lo = 0 if lo is None else lo
        hi = n if hi is None else hi
        lo = clamp(ite(lo < 0, lo + n, lo) if isinstance(lo, SInt) else (lo + n if lo < 0 else lo), 0, n)
        hi = clamp(ite(hi < 0, hi + n, hi) if isinstance(hi, SInt) else (hi + n if hi < 0 else hi), 0, n)
        if st == 1:
            ln = smax(hi - lo, 0)
        else:
            d = smax(hi - lo, 0)
            ln = (d + (st - 1)) // st
        return lo, st, ln
    # negative step
    lo = (n - 1) if lo is None else clamp(ite(lo < 0, lo + n, lo) if isinstance(lo, SInt) else (lo + n if lo < 0 else lo), -1, n - 1)
    hi = -1 if hi is None else clamp(ite(hi < 0, hi + n, hi) if isinstance(hi, SInt) else (hi + n if hi < 0 else hi), -1, n - 1)
    d = smax(lo - hi, 0)
    ln = d if st == -1 else (d + (-st - 1)) // (-st)
    return lo, st, ln


class SBuf:
    def __init__(self, fn, shape, name=None):
        self.fn = fn              # callable(*idx) -> scalar
        self.shape = tuple(shape)
        self.id = next(_ids)
        self.name = name or f"buf{self.id}"
        self.written = False


class Ax:
    """how one buffer axis is addressed by the view"""
    __slots__ = ("kind", "start", "step", "vax")

    def __init__(self, kind, start=0, step=1, vax=None):
        self.kind = kind      # "fixed" | "aff"
        self.start = start
        self.step = step
        self.vax = vax


def _is_int(v):
    return isinstance(v, (int, SInt, np.integer)) and not isinstance(v, bool)


class SArr:
    _pyvc_symbolic = True

    def __init__(self, buf, shape, axes, dtype, writeable=True):
        self.buf = buf
        self.shape = tuple(shape)
        self.axes = list(axes)          # one Ax per buffer axis
        self.dtype = np.dtype(dtype)
        self.writeable = writeable

    # ---- construction helpers
    @staticmethod
    def fresh(c, name, dtype, shape, kind="int", inp=True, ranged=True):
        """array of unconstrained elements; kind: 'int' (mathematical ints with dtype range facts added
        on each read), 'opaque' (uninterpreted ints), 'real', 'bv' (bit-vectors of the dtype width)"""
        dtype = np.dtype(dtype)
        nd = len(shape)
        Z = core.Z
        if kind == "fp":
            srt = _fsort(dtype)
            f = c.func(name, *([Z.IntSort()] * nd), srt, inp=inp)

            def fn(*idx):
                t = f(*[core._i(i) for i in idx])
                ctx().assume(Z.And(Z.Not(Z.fpIsNaN(t)), Z.Not(Z.fpIsInf(t))))   # "finite values"
                return core.SFP(t)
        elif kind == "bv":
            w = dtype.itemsize * 8
            f = c.func(name, *([Z.IntSort()] * nd), Z.BitVecSort(w), inp=inp)
            fn = lambda *idx: (SU64(f(*[core._i(i) for i in idx])) if w == 64 else SBV(f(*[core._i(i) for i in idx]), w))
        elif kind == "real":
            f = c.func(name, *([Z.IntSort()] * nd), Z.RealSort(), inp=inp)
            fn = lambda *idx: SReal(f(*[core._i(i) for i in idx]))
        else:
            f = c.func(name, *([Z.IntSort()] * nd), Z.IntSort(), inp=inp)
            if kind == "int" and ranged and dtype.kind in "ui":
                info = np.iinfo(dtype)
                lo, hi = int(info.min), int(info.max)

                def fn(*idx):
                    t = f(*[core._i(i) for i in idx])
                    ctx().assume(Z.And(t >= lo, t <= hi))
                    return SInt(t)
            else:
                fn = lambda *idx: SInt(f(*[core._i(i) for i in idx]))
        return SArr.from_fn(fn, shape, dtype, name=name)

    @staticmethod
    def from_fn(fn, shape, dtype, name=None, writeable=True):
        buf = SBuf(fn, shape, name)
        axes = [Ax("aff", 0, 1, k) for k in range(len(shape))]
        return SArr(buf, shape, axes, dtype, writeable)

    def frozen(self):
        """read-only view bound to the buffer's *current* contents (derived arrays are computed eagerly
        by NumPy, so they must not see later writes to their operands)"""
        return SArr(SBuf(self.buf.fn, self.buf.shape, self.buf.name + "'"), self.shape, self.axes, self.dtype, writeable=False)

    # ---- basic attributes
    @property
    def ndim(self):
        return len(self.shape)

    @property
    def size(self):
        return sym_prod(self.shape)

    @property
    def itemsize(self):
        return self.dtype.itemsize

    @property
    def T(self):
        return self.transpose()

    @property
    def flat(self):
        return self.reshape((self.size,))

    @property
    def flags(self):
        import types
        return types.SimpleNamespace(writeable=self.writeable)

    @property
    def nbytes(self):
        return self.size * self.dtype.itemsize

    def truth(self):
        raise Unsupported("truth value of an array")

    def length(self):
        if not self.shape:
            raise RaiseSig(TypeError("len() of unsized object"))
        return self.shape[0]

    def isinstance_of(self, ts):
        return any(t in (np.ndarray, object) for t in ts)

    # ---- element access
    def base_index(self, idx):
        out = []
        for ax in self.axes:
            if ax.kind == "fixed":
                out.append(ax.start)
            else:
                k = idx[ax.vax]
                out.append(ax.start + ax.step * k if not (ax.step == 1 and _zero(ax.start)) else k)
        return tuple(out)

    def elem(self, *idx):
        if len(idx) != self.ndim:
            raise Unsupported("elem(): wrong number of indices")
        return self.buf.fn(*self.base_index(idx))

    def _reduce_extreme(self, largest):
        """a.max() / a.min(): ValueError on an empty array (the program's own failure); otherwise unsupported"""
        c = ctx()
        if self.dtype.kind not in "iu":
            raise Unsupported("max/min of a non-integer symbolic array")
        if c.interp.truth(self.size == 0):
            raise RaiseSig(ValueError("zero-size array to reduction operation %s which has no identity" % ("maximum" if largest else "minimum")))
        # the value on a non-empty array is not modelled (it would need a fact about EVERY element that follows the
        # array through views and copies); only the empty-array failure, which is the program's own, is
        raise Unsupported("max()/min() of a non-empty symbolic array (only the empty-array ValueError is modelled)")

    def any(self, *a, **k):
        from .models_numpy import _any_all
        return _any_all(ctx().interp, self, True, a, k)

    def all(self, *a, **k):
        from .models_numpy import _any_all
        return _any_all(ctx().interp, self, False, a, k)

    def max(self, *a, **k):
        if a or k:
            raise Unsupported("max with arguments")
        return self._reduce_extreme(True)

    def min(self, *a, **k):
        if a or k:
            raise Unsupported("min with arguments")
        return self._reduce_extreme(False)

    def in_bounds(self, idx):
        return And(*[And(i >= 0, i < n) for i, n in zip(idx, self.shape)]) if idx else True

    # ---- indexing
    def _expand_key(self, key):
        if not isinstance(key, tuple):
            key = (key,)
        n_real = sum(1 for k in key if k is not None and k is not Ellipsis)
        if sum(1 for k in key if k is Ellipsis) > 1:
            raise RaiseSig(IndexError("an index can only have a single ellipsis"))
        if n_real > self.ndim:
            raise RaiseSig(IndexError("too many indices for array"))
        out = []
        for k in key:
            if k is Ellipsis:
                out.extend([slice(None)] * (self.ndim - n_real))
            else:
                out.append(k)
        if not any(k is Ellipsis for k in key):
            out.extend([slice(None)] * (self.ndim - n_real))
        return out

    def getitem(self, key):
        c = ctx()
        if isinstance(key, SArr):
            return self.take(key)
        keys = self._expand_key(key)
        if any(isinstance(k, SArr) or isinstance(k, (list, np.ndarray)) for k in keys):
            raise Unsupported("advanced indexing inside a tuple index")
        new_shape = []
        # per view-axis transformation: ("fixed", i) | ("aff", start, step, new_vax)
        vmap = {}
        va = 0
        for k in keys:
            if k is None:
                new_shape.append(1)
                continue
            n = self.shape[va]
            if isinstance(k, slice):
                lo, st, ln = norm_slice(k, n)
                vmap[va] = ("aff", lo, st, len(new_shape))
                new_shape.append(ln)
            elif _is_int(k):
                k = int(k) if isinstance(k, np.integer) else k
                i = ite(k < 0, k + n, k) if isinstance(k, SInt) else (k + n if k < 0 else k)
                ok = And(i >= 0, i < n)
                if not c.interp.truth(ok):
                    raise RaiseSig(IndexError("index out of bounds"))
                vmap[va] = ("fixed", i)
            else:
                raise Unsupported(f"index of type {type(k).__name__}")
            va += 1
        axes = []
        for ax in self.axes:
            if ax.kind == "fixed":
                axes.append(ax)
                continue
            m = vmap[ax.vax]
            if m[0] == "fixed":
                axes.append(Ax("fixed", ax.start + ax.step * m[1]))
            else:
                _, lo, st, nv = m
                axes.append(Ax("aff", ax.start + ax.step * lo, ax.step * st, nv))
        res = SArr(self.buf, new_shape, axes, self.dtype, self.writeable)
        if not new_shape and not any(k is None for k in keys):
            return res.elem()          # 0-d result of full integer indexing: a scalar
        return res

    def take(self, index_arr):
        """a[index_arr] for a 1-D array a and an integer index array: IndexError unless every index
        lies in [-n, n) (assumed NumPy contract)."""
        c = ctx()
        if self.ndim != 1:
            raise Unsupported("integer-array indexing of a multi-dimensional array")
        n = self.shape[0]
        c.trust("a[index_array]: element-wise lookup; IndexError if any index is outside [-n, n)")
        ok = c.bool("take_all_in_range")
        w = tuple(c.int("w") for _ in index_arr.shape)
        ew = index_arr.elem(*w)
        c.assume(implies(Not(ok), And(index_arr.in_bounds(w), Or(ew < -n, ew >= n))))
        if not c.interp.truth(ok):
            raise RaiseSig(IndexError("index out of bounds"))
        src = self

        def fn(*idx):
            k = index_arr.elem(*idx)
            cc = ctx()
            cc.assume(implies(index_arr.in_bounds(idx), And(k >= -n, k < n)))
            return src.elem(ite(k < 0, k + n, k) if isinstance(k, SInt) else (k + n if k < 0 else k))
        return SArr.from_fn(fn, index_arr.shape, self.dtype)

    def setitem(self, key, value):
        c = ctx()
        if not self.writeable:
            raise RaiseSig(ValueError("assignment destination is read-only"))
        if key is Ellipsis:
            target = self
        else:
            target = self.getitem(key)
            if not isinstance(target, SArr):
                # single element
                keys = self._expand_key(key)
                target = self.getitem(tuple(slice(k, k + 1) if not isinstance(k, slice) else k for k in keys))
        target._assign(value)

    def _assign(self, value):
        """self[...] = value with NumPy broadcasting"""
        c = ctx()
        buf = self.buf
        if isinstance(value, SArr):
            vnd = value.ndim
            if vnd > self.ndim:
                # leading extra axes must be 1
                for n in value.shape[:vnd - self.ndim]:
                    if not c.interp.truth(n == 1):
                        raise RaiseSig(ValueError("could not broadcast input array"))
                value = value.getitem(tuple([0] * (vnd - self.ndim)) + (Ellipsis,))
                vnd = value.ndim
            off = self.ndim - vnd
            bmode = []
            for k in range(vnd):
                tn, vn = self.shape[off + k], value.shape[k]
                same = (tn == vn)
                if c.interp.truth(same):
                    bmode.append("same")
                elif c.interp.truth(vn == 1):
                    bmode.append("bcast")
                else:
                    raise RaiseSig(ValueError("could not broadcast input array from shape "
                                              "into shape (symbolic)"))
            src = value.frozen()

            def val_at(vidx):
                sidx = []
                for k in range(vnd):
                    sidx.append(vidx[off + k] if bmode[k] == "same" else 0)
                return src.elem(*sidx)
            # snapshot the source function if it reads the same buffer (NumPy copies on overlap)
        else:
            def val_at(vidx):
                return value
        old_fn = buf.fn
        axes = list(self.axes)
        shape = self.shape

        def new_fn(*b):
            conds = []
            vidx = [None] * len(shape)
            for a, ax in enumerate(axes):
                if ax.kind == "fixed":
                    conds.append(b[a] == ax.start)
                else:
                    n = shape[ax.vax]
                    if ax.step == 1:
                        k = b[a] - ax.start
                    elif ax.step == -1:
                        k = ax.start - b[a]
                    else:
                        d = b[a] - ax.start
                        q, r = ctx().divmod(d, ax.step)
                        conds.append(r == 0)
                        k = q
                    conds.append(And(k >= 0, k < n))
                    vidx[ax.vax] = k
            for j in range(len(shape)):
                if vidx[j] is None:
                    vidx[j] = 0          # newaxis in the target view
            inside = And(*conds) if conds else True
            new = val_at(vidx)
            if inside is True:
                return new
            old = old_fn(*b)
            return _ite_val(inside, new, old)
        buf.fn = new_fn
        buf.written = True

    # ---- shape manipulation
    def transpose(self, *perm):
        if len(perm) == 1 and isinstance(perm[0], (tuple, list)):
            perm = tuple(perm[0])
        if not perm:
            perm = tuple(reversed(range(self.ndim)))
        inv = {old: new for new, old in enumerate(perm)}
        axes = [ax if ax.kind == "fixed" else Ax("aff", ax.start, ax.step, inv[ax.vax]) for ax in self.axes]
        return SArr(self.buf, [self.shape[p] for p in perm], axes, self.dtype, self.writeable)

    def moveaxis(self, src, dst):
        src = [src] if isinstance(src, int) else list(src)
        dst = [dst] if isinstance(dst, int) else list(dst)
        # read the permutation off the real NumPy on a probe shape
        probe = np.empty(tuple(range(2, 2 + self.ndim)))
        try:
            moved = np.moveaxis(probe, src, dst)
        except (np.exceptions.AxisError, ValueError) as e:
            # the real call fails the same way: the rank and the axis arguments are concrete here
            raise RaiseSig(e)
        perm = [moved.shape[i] - 2 for i in range(self.ndim)]
        ctx().trust("np.moveaxis: axis permutation taken from the installed NumPy on a probe shape")
        return self.transpose(perm)

    def reshape(self, *shape, order="C"):
        if len(shape) == 1 and isinstance(shape[0], (tuple, list)):
            shape = tuple(shape[0])
        c = ctx()
        shape = list(shape)
        if order not in ("C", "F"):
            raise Unsupported("reshape order")
        if any(_is_int(s) and not isinstance(s, SInt) and s == -1 for s in shape):
            k = [i for i, s in enumerate(shape) if not isinstance(s, SInt) and s == -1]
            if len(k) > 1:
                raise RaiseSig(ValueError("can only specify one unknown dimension"))
            rest = sym_prod([s for i, s in enumerate(shape) if i != k[0]])
            q, r = c.divmod(self.size, rest) if not (isinstance(rest, int) and rest == 0) else (0, 0)
            if not c.interp.truth(r == 0):
                raise RaiseSig(ValueError("cannot reshape array"))
            shape[k[0]] = q
        for s in shape:
            if c.interp.truth(s < 0):
                raise RaiseSig(ValueError("negative dimensions not allowed"))
        if not c.interp.truth(sym_prod(shape) == self.size):
            raise RaiseSig(ValueError("cannot reshape array"))
        c.trust("ndarray.reshape: row-major (C) / column-major (F) re-linearisation")
        src = self.frozen()
        old_shape = self.shape
        new_shape = tuple(shape)

        def fn(*idx):
            lin = ravel(idx, new_shape, order)
            return src.elem(*unravel(lin, old_shape, order))
        out = SArr.from_fn(fn, new_shape, self.dtype, writeable=False)
        out.alias_unknown = True
        return out

    def ravel(self):
        return self.reshape((self.size,))

    def astype(self, dtype, casting="unsafe", copy=True, **kw):
        dtype = np.dtype(dtype)
        if not np.can_cast(self.dtype, dtype, casting=casting):
            raise RaiseSig(TypeError(f"Cannot cast array data from {self.dtype} to {dtype} according to the rule {casting!r}"))
        src = self.frozen()
        conv = elem_cast(self.dtype, dtype)
        return SArr.from_fn(lambda *idx: conv(src.elem(*idx)), self.shape, dtype)

    def copy(self):
        src = self.frozen()
        return SArr.from_fn(lambda *idx: src.elem(*idx), self.shape, self.dtype)

    def view(self, *a, **k):
        raise Unsupported("ndarray.view")

    def tobytes(self, order="C"):
        from .sbytes import SBytes
        if order not in ("C", "F"):
            # 'A' / 'K' follow the array's MEMORY layout, which these functional arrays do not track
            raise Unsupported(f"tobytes(order={order!r}) depends on the memory layout (not modelled)")
        return SBytes.from_array(self, order)

    def eq_seq(self, o):
        raise Unsupported("array == sequence")

    def contains(self, item):
        raise Unsupported("in array")

    def iterate(self):
        n = self.shape[0]
        if isinstance(n, SInt):
            raise Unsupported("iteration over an array with symbolic length")
        return [self.getitem(i) for i in range(n)]

    # ---- element-wise arithmetic
    def _ew(self, o, f, out_dtype=None):
        a = self.frozen()
        if isinstance(o, SArr):
            o = o.frozen()
            nd = max(a.ndim, o.ndim)
            sa = (1,) * (nd - a.ndim) + a.shape
            so = (1,) * (nd - o.ndim) + o.shape
            shape = []
            ma, mo = [], []
            c = ctx()
            for x, y in zip(sa, so):
                if c.interp.truth(x == y):
                    shape.append(x); ma.append(True); mo.append(True)
                elif c.interp.truth(y == 1):
                    shape.append(x); ma.append(True); mo.append(False)
                elif c.interp.truth(x == 1):
                    shape.append(y); ma.append(False); mo.append(True)
                else:
                    raise RaiseSig(ValueError("operands could not be broadcast together"))
            offa, offo = nd - a.ndim, nd - o.ndim

            def fn(*idx):
                ia = [idx[offa + k] if ma[offa + k] else 0 for k in range(a.ndim)]
                io = [idx[offo + k] if mo[offo + k] else 0 for k in range(o.ndim)]
                return f(a.elem(*ia), o.elem(*io))
            dt = out_dtype or np.result_type(a.dtype, o.dtype)
            return SArr.from_fn(fn, shape, dt)
        if isinstance(o, (list, tuple)):
            from .models_numpy import array_from_list
            return self._ew(array_from_list(list(o)), f, out_dtype)
        dt = out_dtype or _result_dtype_scalar(a.dtype, o)
        return SArr.from_fn(lambda *idx: f(a.elem(*idx), o), a.shape, dt)

    def __add__(self, o): return self._ew(o, lambda x, y: _arith(self.dtype, x, y, "+"))
    def __radd__(self, o): return self._ew(o, lambda x, y: _arith(self.dtype, y, x, "+"))
    def __sub__(self, o): return self._ew(o, lambda x, y: _arith(self.dtype, x, y, "-"))
    def __rsub__(self, o): return self._ew(o, lambda x, y: _arith(self.dtype, y, x, "-"))
    def __truediv__(self, o): return self._ew(o, lambda x, y: x / y, np.dtype(np.float64))
    def __mul__(self, o): return self._ew(o, lambda x, y: _arith(self.dtype, x, y, "*"))
    def __rmul__(self, o): return self._ew(o, lambda x, y: _arith(self.dtype, y, x, "*"))
    def __and__(self, o): return self._ew(o, lambda x, y: x & y)
    def __or__(self, o): return self._ew(o, lambda x, y: x | y)
    def __rshift__(self, o): return self._ew(o, lambda x, y: x >> y)
    def __lshift__(self, o): return self._ew(o, lambda x, y: x << y)
    def __gt__(self, o): return self._ew(o, lambda x, y: x > y, np.dtype(bool))
    def __ge__(self, o): return self._ew(o, lambda x, y: x >= y, np.dtype(bool))
    def __lt__(self, o): return self._ew(o, lambda x, y: x < y, np.dtype(bool))
    def __le__(self, o): return self._ew(o, lambda x, y: x <= y, np.dtype(bool))
    def __eq__(self, o): return self._ew(o, lambda x, y: x == y, np.dtype(bool))
    def __ne__(self, o): return self._ew(o, lambda x, y: x != y, np.dtype(bool))
    __hash__ = None

    def __repr__(self):
        return f"<SArr {self.dtype} {self.shape} buf={self.buf.name}>"

    def forall(self, pred, tag="i"):
        """universally quantified property of the elements, skolemised for proving:
        returns (index tuple, hypothesis 'index in bounds')."""
        c = ctx()
        idx = tuple(c.int(f"{tag}{k}") for k in range(self.ndim))
        return idx, self.in_bounds(idx)


def _zero(v):
    return isinstance(v, int) and v == 0


def _ite_val(cnd, a, b):
    if isinstance(cnd, bool):
        return a if cnd else b
    # an integer array receiving bit-vector values (or vice versa): align the representation
    if isinstance(a, (SBV, SU64)) and isinstance(b, SInt):
        w = 64 if isinstance(a, SU64) else a.w
        b = SU64(core.Z.Int2BV(b.t, 64)) if w == 64 else SBV(core.Z.Int2BV(b.t, w), w)
    elif isinstance(b, (SBV, SU64)) and isinstance(a, SInt):
        w = 64 if isinstance(b, SU64) else b.w
        a = SU64(core.Z.Int2BV(a.t, 64)) if w == 64 else SBV(core.Z.Int2BV(a.t, w), w)
    return ite(cnd, a, b)


def ravel(idx, shape, order="C"):
    lin = None
    seq = zip(idx, shape) if order == "C" else zip(reversed(idx), reversed(shape))
    for i, n in seq:
        lin = i if lin is None else lin * n + i
    return 0 if lin is None else lin


def unravel(lin, shape, order="C"):
    c = ctx()
    out = []
    dims = list(shape)
    if order == "C":
        rem = lin
        for n in reversed(dims[1:]):
            q, r = (c.divmod(rem, n)) if (isinstance(rem, SInt) or isinstance(n, SInt)) else divmod(rem, n)
            out.append(r)
            rem = q
        out.append(rem)
        return tuple(reversed(out))
    if order != "F":
        raise Unsupported(f"index order {order!r} depends on the memory layout (not modelled)")
    rem = lin
    for n in dims[:-1]:
        q, r = (c.divmod(rem, n)) if (isinstance(rem, SInt) or isinstance(n, SInt)) else divmod(rem, n)
        out.append(r)
        rem = q
    out.append(rem)
    return tuple(out)


def _result_dtype_scalar(dt, o):
    if isinstance(o, (SReal, float, np.floating)):
        return np.result_type(dt, np.float64) if dt.kind != "f" else dt
    if isinstance(o, np.generic):
        return np.result_type(dt, o.dtype)
    return dt


def _arith(dt, x, y, op):
    r = {"+": lambda: x + y, "-": lambda: x - y, "*": lambda: x * y}[op]()
    return r


def _fsort(dt):
    return core.F32 if np.dtype(dt).itemsize == 4 else core.F64


def _fp_cast(v, src, dst):
    """bit-exact conversions used in the FP regime (C11); returns None if v is not in that regime"""
    Z = core.Z
    c = ctx()
    if isinstance(v, (SBV, SU64)) and src.kind in "ui" and dst.kind == "f":
        f = Z.fpSignedToFP if src.kind == "i" else Z.fpUnsignedToFP
        return core.SFP(f(core.RNE, v.t, _fsort(dst)))
    if isinstance(v, core.SFP) and dst.kind == "f":
        if v.t.sort() == _fsort(dst):
            return v
        return core.SFP(Z.fpFPToFP(core.RNE, v.t, _fsort(dst)))
    if isinstance(v, core.SFP) and dst.kind in "ui":
        w = dst.itemsize * 8
        lo, hi = int(np.iinfo(dst).min), int(np.iinfo(dst).max)
        tr = Z.fpRoundToIntegral(core.RTZ, v.t)        # C cast truncates toward zero
        srt = v.t.sort()
        inr = Z.And(Z.fpGEQ(tr, core.fp_const(lo, srt)) if True else None,
                    Z.fpLT(tr, _fp_pow2(w if dst.kind == "u" else w - 1, srt)))
        conv = (Z.fpToUBV if dst.kind == "u" else Z.fpToSBV)(core.RTZ, v.t, Z.BitVecSort(w))
        junk = Z.BitVec(c.fresh_name("ub_cast"), w)
        c.note(f"astype({src}->{dst}, unsafe): C conversion truncates toward zero; out-of-range operand gives an arbitrary value (undefined behaviour)")
        t = Z.If(inr, conv, junk)
        return SU64(t) if w == 64 else SBV(t, w)
    if isinstance(v, (SBV, SU64)) and src.kind in "ui" and dst.kind in "ui":
        cur = src.itemsize * 8
        w = dst.itemsize * 8
        t = v.t
        if w < cur:
            t = Z.Extract(w - 1, 0, t)
        elif w > cur:
            t = Z.SignExt(w - cur, t) if src.kind == "i" else Z.ZeroExt(w - cur, t)
        return SU64(t) if w == 64 else SBV(t, w)
    return None


def _fp_pow2(k, sort):
    return core.fp_const(1 << k, sort)


def elem_cast(src, dst):
    """element conversion for astype between dtypes (value-level)"""
    src, dst = np.dtype(src), np.dtype(dst)
    inner = _elem_cast_generic(src, dst)

    def conv(v):
        if isinstance(v, (core.SFP, SBV)) or (isinstance(v, SU64) and (src.kind != dst.kind or src.itemsize != dst.itemsize)):
            r = _fp_cast(v, src, dst)
            if r is not None:
                return r
        return inner(v)
    return conv


def _elem_cast_generic(src, dst):
    if src == dst or (src.kind == dst.kind and src.itemsize == dst.itemsize):
        return lambda v: v
    if src.kind in "ui" and dst.kind in "ui":
        if np.can_cast(src, dst, "safe"):
            return lambda v: _widen(v, dst)
        lo, hi = int(np.iinfo(dst).min), int(np.iinfo(dst).max)
        mod = 1 << (dst.itemsize * 8)

        def wrap(v):
            if isinstance(v, (SBV, SU64)):
                return _bv_resize(v, dst.itemsize * 8)
            t = core._i(v)
            if dst.kind == "u":
                return SInt(t % mod)
            return SInt(((t - lo) % mod) + lo)
        return wrap
    if src.kind in "ui" and dst.kind == "f":
        def tofloat(v):
            if isinstance(v, (SBV, SU64)):
                raise Unsupported("bit-vector element to float")
            if isinstance(v, SInt):
                if getattr(ctx(), "float_mode", "real") == "dyadic" and dst.itemsize == 8:
                    ctx().note("exact-dyadic regime: float64 values are tracked as num/2^k exactly; exactness (|num| < 2^53) is an obligation at np.rint")
                    return core.SDyad(v.t, 1)
                ctx().note(f"astype({src}->{dst}): integer values treated as exact reals (exact when |v| < 2^{24 if dst.itemsize == 4 else 53})")
                return SReal(core.Z.ToReal(v.t))
            return float(v)
        return tofloat
    if src.kind == "f" and dst.kind == "f":
        return lambda v: v
    if src.kind == "f" and dst.kind in "ui":
        lo, hi = int(np.iinfo(dst).min), int(np.iinfo(dst).max)

        def f2i(v):
            if isinstance(v, core.SDyad):
                Z = core.Z
                c = ctx()
                junk = c.int("ub_cast")
                inr = Z.And(v.num > (lo - 1) * v.den, v.num < (hi + 1) * v.den)
                return SInt(Z.If(inr, v.trunc_int(), junk.t))
            if not isinstance(v, SReal):
                return _native_cast(v, dst)
            Z = core.Z
            c = ctx()
            c.note(f"astype({src}->{dst}, unsafe): truncation toward zero when the operand is inside the target range; arbitrary value otherwise (C undefined behaviour)")
            t = v.t
            tr = Z.If(t >= 0, Z.ToInt(t), -Z.ToInt(-t))
            junk = c.int("ub_cast")
            return SInt(Z.If(Z.And(t > lo - 1, t < hi + 1), tr, junk.t))
        return f2i
    if src.kind == "b":
        return lambda v: ite(v, 1, 0) if isinstance(v, SBool) else int(v)
    raise Unsupported(f"astype {src} -> {dst}")


def _widen(v, dst):
    if isinstance(v, SBV):
        w = dst.itemsize * 8
        if w == v.w:
            return v
        t = core.Z.ZeroExt(w - v.w, v.t)
        return SU64(t) if w == 64 else SBV(t, w)
    return v


def _bv_resize(v, w):
    cur = 64 if isinstance(v, SU64) else v.w
    t = v.t
    if w == cur:
        return v
    if w < cur:
        t = core.Z.Extract(w - 1, 0, t)
    else:
        t = core.Z.ZeroExt(w - cur, t)
    return SU64(t) if w == 64 else SBV(t, w)


def _native_cast(v, dst):
    return int(np.array(v).astype(dst))
