"""Models of numpy functions over SArr (assumed contracts; each is named in evidence.trusted_base)."""
import numpy as np
import z3

from . import core
from .arrays import SArr, elem_cast, sym_prod
from .core import And, Not, Or, RaiseSig, SBool, SInt, SReal, SU64, Unsupported, ctx
from .core import ite, smax, smin  # noqa: F401
from .interp import contains_sym, model


def _native(f, *a, **k):
    try:
        return f(*a, **k)
    except Exception as e:
        raise RaiseSig(e)


@model(np.asarray, np.asanyarray)
def m_asarray(interp, a, dtype=None, **kw):
    if hasattr(a, "_pyvc_asarray"):
        return a._pyvc_asarray(dtype)
    if isinstance(a, SArr):
        if dtype is not None and np.dtype(dtype) != a.dtype:
            return a.astype(dtype)
        return a
    if contains_sym(a):
        if isinstance(a, (list, tuple)):
            return array_from_list(a, dtype)
        raise Unsupported(f"np.asarray of {type(a).__name__}")
    return _native(np.asarray, a, dtype=dtype, **kw)


def array_from_list(a, dtype=None):
    """np.array of a (nested) python list of scalars with concrete shape"""
    def shape_of(x):
        if isinstance(x, (list, tuple)):
            if not x:
                return (0,)
            return (len(x),) + shape_of(x[0])
        return ()
    shape = shape_of(a)

    def get(x, idx):
        for i in idx:
            x = x[i]
        return x
    flat = {}
    import itertools
    for idx in itertools.product(*[range(n) for n in shape]):
        flat[idx] = get(a, idx)
    if dtype is None:
        vals = list(flat.values())
        if any(isinstance(v, (SReal, float)) for v in vals):
            dtype = np.float64
        else:
            dtype = np.int64

    def fn(*idx):
        if all(isinstance(i, int) for i in idx):
            # total on purpose: reads of the program are bounds-checked where they happen; this function is also
            # evaluated at out-of-range points by guarded (if-then-else) updates, where the value is irrelevant
            return flat.get(tuple(idx), next(iter(flat.values())) if flat else 0)
        r = None
        for k, v in flat.items():
            r = v if r is None else ite(And(*[i == kk for i, kk in zip(idx, k)]), v, r)
        return r
    return SArr.from_fn(fn, shape, dtype)


@model(np.array)
def m_array(interp, a, dtype=None, copy=True, **kw):
    c = ctx()
    if isinstance(a, SArr):
        # NumPy 2: copy=False raises ValueError when a copy cannot be avoided
        dt = a.dtype if dtype is None else np.dtype(dtype)
        needs_copy = (dt != a.dtype)
        c.trust("np.array(copy=...): NumPy 2 semantics (copy=False raises ValueError if a copy is needed; copy=None copies only if needed)")
        if copy is False and needs_copy:
            raise RaiseSig(ValueError("Unable to avoid copy while creating an array as requested."))
        if copy is True or needs_copy:
            return a.astype(dt) if needs_copy else a.copy()
        return a
    if contains_sym(a):
        if isinstance(a, (list, tuple)):
            return array_from_list(a, dtype)
        raise Unsupported("np.array of symbolic non-array")
    return _native(np.array, a, dtype=dtype, copy=copy, **kw)


@model(np.moveaxis)
def m_moveaxis(interp, a, source, destination):
    if isinstance(a, SArr):
        src = interp.iterate(source) if not isinstance(source, int) else source
        dst = interp.iterate(destination) if not isinstance(destination, int) else destination
        return a.moveaxis(src, dst)
    return _native(np.moveaxis, a, source, destination)


@model(np.transpose)
def m_transpose(interp, a, axes=None):
    if isinstance(a, SArr):
        return a.transpose(*(axes,) if axes is not None else ())
    return _native(np.transpose, a, axes)


@model(np.flip)
def m_flip(interp, a, axis=None):
    if isinstance(a, SArr):
        if axis is None:
            key = tuple(slice(None, None, -1) for _ in a.shape)
        else:
            ax = axis % a.ndim
            key = tuple(slice(None, None, -1) if k == ax else slice(None) for k in range(a.ndim))
        return a.getitem(key)
    return _native(np.flip, a, axis)


@model(np.empty)
def m_empty(interp, shape, dtype=float, **kw):
    c = ctx()
    if not contains_sym(shape) and np.dtype(dtype).kind in "iu":
        # small concrete integer scratch arrays (utils.invert_permutation) stay native
        return _native(np.empty, shape, dtype=dtype, **kw)
    shape = tuple(interp.iterate(shape)) if isinstance(shape, (list, tuple)) else (shape,)
    for s in shape:
        if interp.truth(s < 0):
            raise RaiseSig(ValueError("negative dimensions are not allowed"))
    dt = np.dtype(dtype)
    c.trust("np.empty: contents are arbitrary (unconstrained symbolic elements)")
    kind = "real" if dt.kind == "f" else "int"
    return SArr.fresh(c, c.fresh_name("empty"), dt, shape, kind=kind, inp=False)


@model(np.zeros)
def m_zeros(interp, shape, dtype=float, **kw):
    shape = tuple(interp.iterate(shape)) if isinstance(shape, (list, tuple)) else (shape,)
    if not contains_sym(shape) and np.dtype(dtype).kind in "iub":
        return _native(np.zeros, shape, dtype=dtype)
    # float arrays are functional from the start (like np.empty), so that symbolic values can be stored into them
    z = 0.0 if np.dtype(dtype).kind == "f" else 0
    return SArr.from_fn(lambda *i: z, shape, dtype)


@model(np.diagonal)
def m_diagonal(interp, a, offset=0, axis1=0, axis2=1):
    if not isinstance(a, SArr):
        return _native(np.diagonal, a, offset, axis1, axis2)
    if a.ndim != 2 or offset != 0 or (axis1, axis2) != (0, 1):
        raise Unsupported("np.diagonal other than the main diagonal of a 2-D array")
    n, m = a.shape
    if not (isinstance(n, int) and isinstance(m, int)):
        raise Unsupported("np.diagonal of an array with symbolic shape")
    src = a.frozen()
    return SArr.from_fn(lambda i: src.elem(i, i), (min(n, m),), a.dtype)


@model(np.full)
def m_full(interp, shape, fill_value, dtype=None, **kw):
    """np.full(shape, v, dtype) == (a = np.empty(shape, dtype); a[...] = v; a)"""
    if not contains_sym(shape) and not contains_sym(fill_value) and not isinstance(fill_value, SArr):
        return _native(np.full, shape, fill_value, dtype=dtype, **kw)
    if dtype is None:
        raise Unsupported("np.full of a symbolic value without an explicit dtype")
    shape_t = tuple(interp.iterate(shape)) if isinstance(shape, (list, tuple)) else (shape,)
    for s_ in shape_t:
        if interp.truth(s_ < 0):
            raise RaiseSig(ValueError("negative dimensions are not allowed"))
    dt = np.dtype(dtype)
    a = SArr.fresh(ctx(), ctx().fresh_name("full"), dt, shape_t, kind="real" if dt.kind == "f" else "int", inp=False)
    a.setitem(Ellipsis, fill_value)
    return a


@model(np.reshape)
def m_reshape(interp, a, shape, order="C"):
    if isinstance(a, SArr):
        return a.reshape(shape, order=order)
    if contains_sym(shape):
        raise Unsupported("np.reshape of native array to symbolic shape")
    return _native(np.reshape, a, shape, order=order)


@model(np.squeeze)
def m_squeeze(interp, a, axis=None):
    if isinstance(a, SArr):
        if axis is None:
            raise Unsupported("np.squeeze without axis")
        if not interp.truth(a.shape[axis] == 1):
            raise RaiseSig(ValueError("cannot select an axis to squeeze out which has size not equal to one"))
        return a.getitem(tuple(0 if k == axis % a.ndim else slice(None) for k in range(a.ndim)))
    return _native(np.squeeze, a, axis)


@model(np.pad)
def m_pad(interp, a, pad_width, mode="constant", **kw):
    c = ctx()
    if not isinstance(a, SArr):
        if contains_sym(pad_width) or contains_sym(kw):
            raise Unsupported("np.pad of native array with symbolic arguments")
        return _native(np.pad, a, pad_width, mode, **kw)
    pw = [tuple(p) for p in pad_width]
    if len(pw) != a.ndim:
        raise Unsupported("np.pad: pad_width form")
    for (b, e) in pw:
        if interp.truth(Or(b < 0, e < 0)):
            raise RaiseSig(ValueError("index can't contain negative values"))
    c.trust("np.pad: mode 'constant' (constant_values) / 'edge' (nearest edge element)")
    if mode == "constant":
        cv = kw.get("constant_values", 0)
    elif mode == "edge":
        cv = None
    else:
        raise Unsupported(f"np.pad mode {mode}")
    shape = [b + n + e for (b, e), n in zip(pw, a.shape)]
    src = a.frozen()

    def fn(*idx):
        inside = []
        sidx = []
        for i, (b, e), n in zip(idx, pw, src.shape):
            j = i - b
            inside.append(And(j >= 0, j < n))
            sidx.append(smin(smax(j, 0), n - 1))
        v_in = src.elem(*sidx)
        if cv is None:
            return v_in
        ins = And(*inside)
        if ins is True:
            return v_in
        cvv = cv
        if src.dtype.kind == "f" and isinstance(cv, int):
            cvv = float(cv)
        return ite(ins, v_in, cvv)
    if mode == "edge":
        for n in a.shape:
            if interp.truth(n == 0):
                raise RaiseSig(ValueError("can't extend empty axis using modes other than 'constant'"))
    return SArr.from_fn(fn, shape, a.dtype)


@model(np.array_equal)
def m_array_equal(interp, a, b):
    if not isinstance(a, SArr) and not isinstance(b, SArr):
        return _native(np.array_equal, a, b)
    c = ctx()
    if not (isinstance(a, SArr) and isinstance(b, SArr)) or a.ndim != b.ndim:
        raise Unsupported("np.array_equal form")
    for x, y in zip(a.shape, b.shape):
        if not interp.truth(x == y):
            return False
    c.trust("np.array_equal: same shape and all elements equal (modelled through a witness index chosen by the environment: a differing one if any)")
    if interp.truth(a.size == 0):
        return True
    w = tuple(c.int("w") for _ in a.shape)
    c.assume(a.in_bounds(w))
    return a.elem(*w) == b.elem(*w)


import functools as _functools


@model(_functools.reduce)
def m_reduce(interp, f, it, *init):
    vals = interp.iterate(it)
    if init:
        acc = init[0]
    else:
        if not vals:
            raise RaiseSig(TypeError("reduce() of empty iterable with no initial value"))
        acc, vals = vals[0], vals[1:]
    for v in vals:
        acc = interp.call(f, (acc, v))
    return acc


@model(np.bitwise_or)
def m_bitwise_or(interp, a, b, **kw):
    if not isinstance(a, SArr) and not isinstance(b, SArr):
        return _native(np.bitwise_or, a, b, **kw)
    return a | b


@model(np.concatenate)
def m_concatenate(interp, arrays, axis=0, **k):
    if not contains_sym(arrays):
        return _native(np.concatenate, arrays, axis=axis, **k)
    arrs = interp.iterate(arrays)
    if k or not all(isinstance(a, SArr) for a in arrs) or not arrs:
        raise Unsupported("np.concatenate form")
    c = ctx()
    nd = arrs[0].ndim
    ax = axis % nd
    for a in arrs[1:]:
        if a.ndim != nd:
            raise RaiseSig(ValueError("all the input array dimensions must match"))
        for d in range(nd):
            if d != ax and not interp.truth(a.shape[d] == arrs[0].shape[d]):
                raise RaiseSig(ValueError("all the input array dimensions except for the concatenation axis must match exactly"))
    arrs = [a.frozen() for a in arrs]
    c.trust("np.concatenate: arrays laid one after the other along the axis")
    offs = [0]
    for a in arrs:
        offs.append(offs[-1] + a.shape[ax])
    shape = list(arrs[0].shape)
    shape[ax] = offs[-1]

    def fn(*idx):
        r = None
        for k_ in range(len(arrs) - 1, -1, -1):
            j = list(idx)
            j[ax] = idx[ax] - offs[k_]
            v = arrs[k_].elem(*j)
            r = v if r is None else ite(idx[ax] < offs[k_ + 1], v, r)
        return r
    return SArr.from_fn(fn, shape, np.result_type(*[a.dtype for a in arrs]))


@model(np.append)
def m_append(interp, arr, values, axis=None):
    """np.append(arr, values): ravel both, concatenate; the result type is NumPy's promotion of the two
    (a python int becomes int64 first: appending a python int to a uint64 array gives float64)"""
    if not contains_sym((arr, values)):
        return _native(np.append, arr, values, axis=axis)
    if axis is not None:
        raise Unsupported("np.append with an axis")
    c = ctx()
    a = arr if isinstance(arr, SArr) else m_asarray(interp, arr)
    if a.ndim != 1:
        raise Unsupported("np.append to a non 1-D symbolic array")
    if isinstance(values, SArr):
        raise Unsupported("np.append of a symbolic array")
    if isinstance(values, SU64):
        vdt = np.dtype(np.uint64)
    elif isinstance(values, SInt) or (isinstance(values, int) and not isinstance(values, (bool, np.integer))):
        vdt = np.dtype(np.int64)
    elif isinstance(values, (np.generic, float, bool)):
        vdt = np.asarray(values).dtype
    else:
        raise Unsupported(f"np.append of {type(values).__name__}")
    rdt = np.result_type(a.dtype, vdt)
    c.trust("np.append(1-D array, scalar): the array followed by the scalar; dtype == np.result_type(array dtype, dtype of np.asarray(scalar))")
    n = a.shape[0]
    src = a.frozen()
    if rdt == a.dtype:
        v = values
        if isinstance(v, np.uint64):
            v = SU64(core._u64(int(v)))

        def fn(i):
            return ite(i < n, src.elem(i), v)
        return SArr.from_fn(fn, (n + 1,), rdt)
    # promoted result (e.g. float64): element values are left unconstrained (an over-approximation of the
    # rounding that promotion performs); contracts that need the integers exact fail on the dtype
    c.note(f"np.append promoted {a.dtype} + {vdt} -> {rdt}: element values unconstrained")
    f = c.func(c.fresh_name("promoted"), core.Z.IntSort(), core.Z.RealSort(), inp=False)
    return SArr.from_fn(lambda i: SReal(f(core._i(i))), (n + 1,), rdt)


@model(np.stack)
def m_stack(interp, arrays, axis=0, **k):
    if not contains_sym(arrays):
        return _native(np.stack, arrays, axis=axis, **k)
    arrs = interp.iterate(arrays)
    if k or not arrs or not all(isinstance(a, SArr) for a in arrs):
        raise Unsupported("np.stack form")
    nd = arrs[0].ndim
    for a in arrs[1:]:
        if a.ndim != nd or not all(interp.truth(x == y) for x, y in zip(a.shape, arrs[0].shape)):
            raise RaiseSig(ValueError("all input arrays must have the same shape"))
    ax = axis % (nd + 1)
    arrs = [a.frozen() for a in arrs]
    ctx().trust("np.stack: result[..., k, ...] == arrays[k][...] along the new axis")
    shape = list(arrs[0].shape)
    shape.insert(ax, len(arrs))

    def fn(*idx):
        sel = idx[ax]
        rest = idx[:ax] + idx[ax + 1:]
        if isinstance(sel, int):
            return arrs[sel].elem(*rest)
        r = arrs[-1].elem(*rest)
        for q in range(len(arrs) - 2, -1, -1):
            r = ite(sel == q, arrs[q].elem(*rest), r)
        return r
    return SArr.from_fn(fn, shape, np.result_type(*[a.dtype for a in arrs]))


@model(np.can_cast)
def m_can_cast(interp, a, b, casting="safe"):
    if isinstance(a, SArr):
        a = a.dtype
    return _native(np.can_cast, a, b, casting=casting)


# --------------------------------------------------------------------------- unique / argmax

class UniqueResult:
    """ghost link between np.unique outputs and their source (assumed contract of np.unique)"""

    def __init__(self, src, labels, counts, n, cnt, pos):
        self.src, self.labels, self.counts, self.n, self.cnt, self.pos = src, labels, counts, n, cnt, pos

    def sorted_instance(self, i, j):
        """labels strictly increasing: i < j  =>  labels[i] < labels[j]"""
        c = ctx()
        c.assume(core.implies(And(i >= 0, i < j, j < self.n), self.labels.elem(i) < self.labels.elem(j)))

    def member_instance(self, e, guard=True):
        """every element of the source is one of the labels: returns its index (facts hold under
        `guard`, which must say that e is an element of the source)"""
        c = ctx()
        p = SInt(self.pos(core._i(e)))
        c.assume(core.implies(guard, And(p >= 0, p < self.n, self.labels.elem(p) == e)))
        return p


@model(np.unique)
def m_unique(interp, a, return_index=False, return_inverse=False, return_counts=False, **kw):
    c = ctx()
    if not isinstance(a, SArr):
        return _native(np.unique, a, return_index=return_index, return_inverse=return_inverse,
                       return_counts=return_counts, **kw)
    if return_index or kw:
        raise Unsupported("np.unique options other than return_counts / return_inverse on symbolic arrays")
    Z = core.Z
    c.trust("np.unique(return_counts=True): sorted distinct values, each with its number of occurrences")
    n = c.int("n_unique")
    c.assume(n >= 0)
    c.assume(core.implies(a.size >= 1, n >= 1))
    c.assume(n <= a.size)
    lab = c.func(c.fresh_name("labels"), Z.IntSort(), Z.IntSort(), inp=False)
    cnt = c.func(c.fresh_name("count_of"), Z.IntSort(), Z.IntSort(), inp=False)   # occurrences of a value
    pos = c.func(c.fresh_name("label_index"), Z.IntSort(), Z.IntSort(), inp=False)
    labels = SArr.from_fn(lambda i: SInt(lab(core._i(i))), (n,), a.dtype, writeable=False)

    def count_elem(i):
        t = cnt(lab(core._i(i)))
        ctx().assume(Z.And(t >= 1, t <= core._i(a.size)))
        return SInt(t)
    counts = SArr.from_fn(count_elem, (n,), np.dtype(np.int64), writeable=False)
    ur = UniqueResult(a, labels, counts, n, cnt, pos)
    labels.unique_of = ur
    counts.unique_of = ur
    c.ghost.setdefault("unique", []).append(ur)
    if return_inverse:
        c.trust("np.unique(return_inverse=True): inverse has the input's shape (NumPy 2) and labels[inverse[i]] == a[i]")
        src = a.frozen()

        def inv_elem(*idx):
            e = src.elem(*idx)
            q = SInt(pos(core._i(e)))
            ctx().assume(And(q >= 0, q < n, labels.elem(q) == e))
            return q
        inverse = SArr.from_fn(inv_elem, src.shape, np.dtype(np.intp), writeable=False)
        inverse.unique_of = ur
        out = (labels, inverse) + ((counts,) if return_counts else ())
        return out
    if return_counts:
        return labels, counts
    return labels


@model(np.argmax)
def m_argmax(interp, a, *args, **kw):
    c = ctx()
    if not isinstance(a, SArr):
        return _native(np.argmax, a, *args, **kw)
    if args or kw or a.ndim != 1:
        raise Unsupported("np.argmax form")
    n = a.shape[0]
    if interp.truth(n == 0):
        raise RaiseSig(ValueError("attempt to get argmax of an empty sequence"))
    c.trust("np.argmax: index of the first maximal element")
    k = c.int("argmax")
    c.assume(And(k >= 0, k < n))
    res = ArgMaxIdx(k.t, a)
    c.ghost.setdefault("argmax", []).append((a, res))
    return res


class ArgMaxIdx(SInt):
    """index returned by np.argmax; instances of its defining property are added on demand"""
    __slots__ = ("arr",)

    def __init__(self, t, arr):
        super().__init__(t)
        self.arr = arr

    def instance(self, i):
        c = ctx()
        a = self.arr
        c.assume(core.implies(And(i >= 0, i < a.shape[0]), a.elem(self) >= a.elem(i)))
        c.assume(core.implies(And(i >= 0, i < self), a.elem(i) < a.elem(self)))


# --------------------------------------------------------------------------- rint / clip (real regime)

def round_half_even_real(v):
    """round-half-to-even of a real term, as an Int-valued real"""
    Z = core.Z
    if isinstance(v, core.SFP):
        return v.rint()
    if isinstance(v, (SInt, int)):
        return v
    if isinstance(v, core.SDyad):
        c = ctx()
        lim = (1 << 53) * v.den
        c.prove("exact-dyadic: |value| < 2^53 before np.rint (float64 arithmetic was exact)",
                SBool(Z.And(v.num < lim, v.num > -lim)), kind="regime")
        return v.rint()
    t = core._r(v)
    fl = Z.ToInt(t)
    frac = t - Z.ToReal(fl)
    r = Z.If(frac < Z.RealVal("1/2"), fl,
             Z.If(frac > Z.RealVal("1/2"), fl + 1,
                  Z.If(fl % 2 == 0, fl, fl + 1)))
    return SReal(Z.ToReal(r))


@model(np.rint)
def m_rint(interp, a, out=None, **kw):
    c = ctx()
    if not isinstance(a, SArr):
        return _native(np.rint, a, out=out, **kw)
    c.trust("np.rint: round half to even (real regime)")
    src_fn = a.buf.fn
    from .arrays import SBuf
    frozen = SArr(SBuf(src_fn, a.buf.shape), a.shape, a.axes, a.dtype)
    res = SArr.from_fn(lambda *i: round_half_even_real(frozen.elem(*i)), a.shape, a.dtype)
    if out is not None:
        if out is not a and not (isinstance(out, SArr) and out.buf is a.buf):
            raise Unsupported("np.rint with a different out array")
        if not out.writeable:
            raise RaiseSig(ValueError("output array is read-only"))
        out._assign(res)
        return out
    return res


def _round_dir(v, mode):
    """floor / ceil / trunc of one element in the regime it lives in"""
    Z = core.Z
    if isinstance(v, core.SFP):
        rm = {"floor": z3.RTN(), "ceil": z3.RTP(), "trunc": z3.RTZ()}[mode]
        return core.SFP(z3.fpRoundToIntegral(rm, v.t))
    if isinstance(v, (SInt, int)):
        return v
    if isinstance(v, core.SDyad):
        if v.den == 1:
            return v
        fl = v.num / v.den                       # floor: the denominator is a positive constant
        exact = (v.num % v.den == 0)
        cl = z3.If(exact, fl, fl + 1)
        res = {"floor": fl, "ceil": cl, "trunc": z3.If(v.num >= 0, fl, cl)}[mode]
        return core.SDyad(res, 1)
    t = core._r(v)
    fl = Z.ToInt(t)
    cl = Z.If(Z.ToReal(fl) == t, fl, fl + 1)
    res = {"floor": fl, "ceil": cl, "trunc": Z.If(t >= 0, fl, cl)}[mode]
    return SReal(Z.ToReal(res))


def _mk_round_model(npf, mode):
    @model(npf)
    def m_round(interp, a, out=None, **kw):
        c = ctx()
        if not isinstance(a, SArr):
            return _native(npf, a, out=out, **kw)
        c.trust(f"np.{mode}: element-wise {mode} in the float regime of the operand")
        from .arrays import SBuf
        frozen = SArr(SBuf(a.buf.fn, a.buf.shape), a.shape, a.axes, a.dtype)
        res = SArr.from_fn(lambda *i: _round_dir(frozen.elem(*i), mode), a.shape, a.dtype)
        if out is not None:
            if not isinstance(out, SArr) or len(out.shape) != len(a.shape):
                raise Unsupported(f"np.{mode} with an out array of another rank")
            if not out.writeable:
                raise RaiseSig(ValueError("output array is read-only"))
            out._assign(res)
            return out
        return res
    return m_round


for _f, _m in ((np.floor, "floor"), (np.ceil, "ceil"), (np.trunc, "trunc")):
    _mk_round_model(_f, _m)


@model(np.clip)
def m_clip(interp, a, a_min, a_max, out=None, **kw):
    c = ctx()
    if not isinstance(a, SArr):
        return _native(np.clip, a, a_min, a_max, out=out, **kw)
    c.trust("np.clip: min(max(x, lo), hi) element-wise")
    from .arrays import SBuf
    frozen = SArr(SBuf(a.buf.fn, a.buf.shape), a.shape, a.axes, a.dtype)
    lo, hi = a_min, a_max
    if a.dtype.kind == "f" and getattr(c, "float_mode", "real") != "dyadic":
        lo, hi = float(lo), float(hi)
    res = SArr.from_fn(lambda *i: smin(smax(frozen.elem(*i), lo), hi), a.shape, a.dtype)
    if out is not None:
        if not (isinstance(out, SArr) and out.buf is a.buf):
            raise Unsupported("np.clip with a different out array")
        if not out.writeable:
            raise RaiseSig(ValueError("output array is read-only"))
        out._assign(res)
        return out
    return res


# --------------------------------------------------------------------------- any / all / dot / det

class SQuantBool(SBool):
    """np.any(a) / np.all(a) over a boolean array of symbolic size: a fresh boolean with on-demand
    instances of its defining property"""
    __slots__ = ("arr", "is_any")

    def __init__(self, t, arr, is_any):
        super().__init__(t)
        self.arr = arr
        self.is_any = is_any

    def instance(self, idx):
        """facts at one index: not any => not a[idx]; all => a[idx]"""
        c = ctx()
        e = self.arr.elem(*idx)
        inb = self.arr.in_bounds(idx)
        if self.is_any:
            c.assume(core.implies(And(Not(self), inb), Not(e)))
        else:
            c.assume(core.implies(And(self, inb), e))


@model(np.any, np.all)
def m_any_all(interp, a, *args, **kw):
    raise Unsupported("np.any/np.all dispatch")


def _any_all(interp, a, is_any, args, kw):
    c = ctx()
    if not isinstance(a, SArr):
        if contains_sym(a):
            vals = interp.iterate(a)
            return (core.Or if is_any else core.And)(*vals)
        return _native(np.any if is_any else np.all, a, *args, **kw)
    if args or kw:
        raise Unsupported("np.any/np.all with axis")
    if a.dtype.kind != "b":
        src0 = a.frozen()
        a = SArr.from_fn(lambda *i: src0.elem(*i) != 0, src0.shape, np.dtype(bool))      # truthiness of numbers
    if all(isinstance(n, int) for n in a.shape):
        import itertools
        vals = [a.elem(*idx) for idx in itertools.product(*[range(n) for n in a.shape])]
        if not vals:
            return not is_any
        return (core.Or if is_any else core.And)(*vals)
    c.trust("np.any / np.all: existential / universal over the elements")
    b = c.bool("any" if is_any else "all")
    # witness (skolem) for the existential direction
    w = tuple(c.int("w") for _ in a.shape)
    ew = a.elem(*w)
    if is_any:
        c.assume(core.implies(b, And(a.in_bounds(w), ew)))
    else:
        c.assume(core.implies(Not(b), And(a.in_bounds(w), Not(ew))))
    r = SQuantBool(b.t, a, is_any)
    c.ghost.setdefault("quant", []).append(r)
    return r


MODELS_ANY = model(np.any)(lambda interp, a, *args, **kw: _any_all(interp, a, True, args, kw))
MODELS_ALL = model(np.all)(lambda interp, a, *args, **kw: _any_all(interp, a, False, args, kw))


@model(np.dot)
def m_dot(interp, a, b):
    if not isinstance(a, SArr) and not isinstance(b, SArr):
        return _native(np.dot, a, b)
    if not isinstance(a, SArr):
        a = m_asarray(interp, a)
    if not isinstance(b, SArr):
        b = m_asarray(interp, b)
    c = ctx()
    a, b = a.frozen(), b.frozen()
    c.trust("np.dot: sum over the last axis of a and the first (or only) axis of b (real regime)")
    k = a.shape[-1]
    if not isinstance(k, int):
        raise Unsupported("np.dot with symbolic inner dimension")
    if not interp.truth(b.shape[0] == k):
        raise RaiseSig(ValueError("shapes not aligned"))
    if a.ndim == 2 and b.ndim == 2:
        return SArr.from_fn(lambda i, j: _sum([a.elem(i, t) * b.elem(t, j) for t in range(k)]), (a.shape[0], b.shape[1]), np.float64)
    if a.ndim == 2 and b.ndim == 1:
        return SArr.from_fn(lambda i: _sum([a.elem(i, t) * b.elem(t) for t in range(k)]), (a.shape[0],), np.float64)
    if a.ndim == 1 and b.ndim == 2:
        return SArr.from_fn(lambda j: _sum([a.elem(t) * b.elem(t, j) for t in range(k)]), (b.shape[1],), np.float64)
    if a.ndim == 1 and b.ndim == 1:
        return _sum([a.elem(t) * b.elem(t) for t in range(k)])
    raise Unsupported("np.dot ranks")


@model(np.isclose)
def m_isclose(interp, a, b, rtol=1e-05, atol=1e-08, equal_nan=False):
    """|a - b| <= atol + rtol * |b| (real regime, finite operands)"""
    if any(isinstance(x, SArr) for x in (a, b)):
        raise Unsupported("np.isclose on symbolic arrays")
    if not contains_sym((a, b)):
        return _native(np.isclose, a, b, rtol=rtol, atol=atol, equal_nan=equal_nan)
    ctx().trust("np.isclose: |a-b| <= atol + rtol*|b| (real regime)")
    from fractions import Fraction
    Z = core.Z
    ta, tb = core._r(a), core._r(b)
    d = Z.If(ta - tb >= 0, ta - tb, tb - ta)
    ab = Z.If(tb >= 0, tb, -tb)
    fr = lambda x: Z.RealVal(str(Fraction(float(x))))
    return SBool(d <= fr(atol) + fr(rtol) * ab)


def _sum(xs):
    r = xs[0]
    for x in xs[1:]:
        r = r + x
    return r


@model(np.linalg.det)
def m_det(interp, a):
    if not isinstance(a, SArr):
        return _native(np.linalg.det, a)
    if a.shape != (3, 3):
        raise Unsupported("determinant of a non-3x3 symbolic matrix")
    ctx().trust("np.linalg.det of a 3x3 matrix: the cofactor expansion (real regime; floating-point error not modelled)")
    e = lambda i, j: a.elem(i, j)
    return (e(0, 0) * (e(1, 1) * e(2, 2) - e(1, 2) * e(2, 1))
            - e(0, 1) * (e(1, 0) * e(2, 2) - e(1, 2) * e(2, 0))
            + e(0, 2) * (e(1, 0) * e(2, 1) - e(1, 1) * e(2, 0)))
