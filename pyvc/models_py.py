"""Models of Python builtins/stdlib beyond interp.py: hex strings, format('.Nf'), struct."""
import numpy as np

from . import core
from .core import RaiseSig, SBool, SInt, SReal, STrueDiv, SU64, Sym, Unsupported, ctx, ite
from .interp import METHOD_MODELS, SymStr, contains_sym, model


class SHexStr:
    """hex(v): '0x' + lowercase hex digits of v without leading zeros (assumed: Python hex())"""
    _pyvc_symbolic = True

    def __init__(self, v, stage="0x", width=None):
        self.v = v          # SInt / SU64 term denoted
        self.stage = stage  # "0x" -> hex(v); "digits" -> hex(v)[2:]; "padded" -> .rjust(width,'0')
        self.width = width

    def getitem(self, k):
        if self.stage == "0x" and isinstance(k, slice) and k.start == 2 and k.stop is None and k.step is None:
            ctx().trust("hex(): '0x' followed by lowercase hex digits without leading zeros")
            return SHexStr(self.v, "digits")
        raise Unsupported("slice of hex string other than [2:]")

    def rjust(self, width, fill=" "):
        if self.stage != "digits" or fill != "0":
            raise Unsupported("rjust on hex string: unsupported form")
        ctx().trust("str.rjust(w,'0'): left-pads with '0' to at least w characters")
        return SHexStr(self.v, "padded", width)

    def truth(self):
        return True

    def __format__(self, spec):
        return "<hex>"


@model(hex)
def m_hex(interp, v):
    if isinstance(v, (SInt, SU64)):
        return SHexStr(v)
    if contains_sym(v):
        raise Unsupported("hex of symbolic non-int")
    try:
        return hex(v)
    except Exception as e:
        raise RaiseSig(e)
