"""Models of Python builtins/stdlib beyond interp.py: hex strings, format('.Nf'), struct."""
import numpy as np

from . import core
from .core import RaiseSig, SBool, SInt, SReal, STrueDiv, SU64, Sym, Unsupported, ctx, ite
from .interp import METHOD_MODELS, SymStr, contains_sym, model


class SHexStr:
    """hex(v): '0x' + lowercase hex digits of v without leading zeros (assumed: Python hex())"""
    _pyvc_symbolic = True

    def __init__(self, v, stage="0x", width=None):
        self.v = v          # SInt / SU64 term denoted
        self.stage = stage  # "0x" -> hex(v); "digits" -> hex(v)[2:]; "padded" -> .rjust(width,'0')
        self.width = width

    def getitem(self, k):
        if self.stage == "0x" and isinstance(k, slice) and k.start == 2 and k.stop is None and k.step is None:
            ctx().trust("hex(): '0x' followed by lowercase hex digits without leading zeros")
            return SHexStr(self.v, "digits")
        raise Unsupported("slice of hex string other than [2:]")

    def rjust(self, width, fill=" "):
        if self.stage != "digits" or fill != "0":
            raise Unsupported("rjust on hex string: unsupported form")
        ctx().trust("str.rjust(w,'0'): left-pads with '0' to at least w characters")
        return SHexStr(self.v, "padded", width)

    def truth(self):
        return True

    def __format__(self, spec):
        return "<hex>"


@model(hex)
def m_hex(interp, v):
    if isinstance(v, (SInt, SU64)):
        return SHexStr(v)
    if contains_sym(v):
        raise Unsupported("hex of symbolic non-int")
    try:
        return hex(v)
    except Exception as e:
        raise RaiseSig(e)


# --------------------------------------------------------------------------- decimal formatting

def ndigits(n):
    """number of decimal digits of a non-negative symbolic int (1 for 0)"""
    t = core._i(n)
    r = core.Z.IntVal(40)
    for k in range(39, 0, -1):
        r = core.Z.If(t < 10 ** k, k, r)
    return SInt(r)


class SDecStr:
    """format(x, '.Nf') of a non-negative number: the decimal M / 10^p, M a symbolic int.
    Assumed (Python float formatting is correctly rounded, ties-to-even on the exact binary value):
    M == round_half_even(value * 10^p)."""
    _pyvc_symbolic = True

    def __init__(self, M, p, grouped=False):
        self.M = M
        self.p = p
        self.grouped = grouped

    def length(self):
        if self.grouped:
            raise Unsupported("len of a grouped decimal string")
        if self.p == 0:
            return ndigits(self.M)
        q, r = ctx().divmod(self.M, 10 ** self.p)
        return ndigits(q) + (1 + self.p)

    def __add__(self, o):
        return SCat([self, o])

    def truth(self):
        return True


def _str_eq(a, b):
    """equality of two symbolic strings of the same construction (decimal + constant suffixes)"""
    pa = a.parts if isinstance(a, SCat) else [a]
    pb = b.parts if isinstance(b, SCat) else [b]
    if len(pa) != len(pb):
        raise Unsupported("comparison of differently built symbolic strings")
    conds = []
    for x, y in zip(pa, pb):
        if isinstance(x, str) and isinstance(y, str):
            if x != y:
                return False
        elif isinstance(x, SDecStr) and isinstance(y, SDecStr) and x.p == y.p:
            conds.append(x.M == y.M)
        else:
            raise Unsupported("comparison of differently built symbolic strings")
    return core.And(*conds) if conds else True


class SCat:
    """concatenation of string pieces (str constants and symbolic strings)"""
    _pyvc_symbolic = True

    def __eq__(self, o):
        return _str_eq(self, o)

    def __ne__(self, o):
        return core.Not(_str_eq(self, o))

    __hash__ = None

    def __init__(self, parts):
        self.parts = []
        for p in parts:
            if isinstance(p, SCat):
                self.parts.extend(p.parts)
            else:
                self.parts.append(p)

    def __add__(self, o):
        return SCat(self.parts + [o])

    def __radd__(self, o):
        return SCat([o] + self.parts)

    def length(self):
        n = 0
        for p in self.parts:
            n = n + (len(p) if isinstance(p, str) else p.length())
        return n

    def truth(self):
        return True


def _round_half_even_scaled(c, num, den, p, slack_rel=None):
    """M == round_half_even(num/den * 10^p) for num >= 0, den > 0 (den, p concrete).
    With slack_rel (a z3 real >= 0) the rounded operand is only known to lie within
    num/den * (1 +- slack_rel) (float rounding of the quotient)."""
    Z = core.Z
    M = c.int("M")
    N = core._i(num) * (10 ** p)
    if slack_rel is None:
        # 2*|N/den - M| <= 1, ties to even
        c.assume(Z.And(2 * N - den <= 2 * M.t * den, 2 * M.t * den <= 2 * N + den))
        c.assume(Z.Implies(2 * M.t * den == 2 * N + den, M.t % 2 == 0))
        c.assume(Z.Implies(2 * M.t * den == 2 * N - den, M.t % 2 == 0))
    else:
        v = c.real("fl")
        exact = Z.ToReal(N) / den
        c.assume(Z.And(v.t >= exact * (1 - slack_rel), v.t <= exact * (1 + slack_rel)))
        c.assume(Z.And(2 * v.t - 1 <= 2 * Z.ToReal(M.t), 2 * Z.ToReal(M.t) <= 2 * v.t + 1))
    c.assume(M.t >= 0)
    return M


@model(format)
def m_format(interp, v, spec=""):
    c = ctx()
    if not contains_sym(v):
        try:
            return format(v, spec)
        except Exception as e:
            raise RaiseSig(e)
    grouped = False
    sp = spec
    if sp.startswith(","):
        grouped = True
        sp = sp[1:]
    if sp in (".0f", ".1f", ".2f"):
        p = int(sp[1])
        c.trust("format(x,'.Nf'): correctly rounded decimal, ties-to-even on the exact binary value")
        if isinstance(v, SInt):
            if interp.truth(v < 0):
                raise Unsupported("format of negative symbolic int")
            return SDecStr(v * (10 ** p), p, grouped)
        if isinstance(v, SReal):
            from .models_numpy import round_half_even_real
            if p != 0:
                raise Unsupported("format of a real with decimals")
            if interp.truth(v < 0):
                raise Unsupported("format of a negative real")
            M = SInt(core.Z.ToInt(round_half_even_real(v).t))
            return SDecStr(M, 0, grouped)
        if isinstance(v, STrueDiv):
            a, b = v.a, v.b
            if not isinstance(b, int) or b <= 0:
                raise Unsupported("format of a/b with symbolic divisor")
            if interp.truth(a < 0):
                raise Unsupported("format of negative quotient")
            if (b & (b - 1)) == 0:
                # division by a power of two: exact for a < 2^53, else relative error <= 2^-53
                if interp.truth(a < (1 << 53)):
                    M = _round_half_even_scaled(c, a, b, p)
                else:
                    c.note("format(count/2^k): for count >= 2^53 the quotient is a correctly rounded float (relative error <= 2^-53), then decimal rounding; ties not tracked")
                    M = _round_half_even_scaled(c, a, b, p, slack_rel=core.Z.RealVal(1) / (1 << 53))
                return SDecStr(M, p, grouped)
            raise Unsupported("format of a/b with non power-of-two divisor")
    raise Unsupported(f"format({type(v).__name__}, {spec!r})")


def is_sym_int(a):
    return isinstance(a, (SInt, SU64))


import math as _math


@model(_math.prod)
def m_math_prod(interp, it, start=1):
    r = start
    for v in interp.iterate(it):
        r = r * v
    return r


@model(np.prod)
def m_np_prod(interp, a, *args, **kw):
    """np.prod over a python sequence of ints: int64 machine arithmetic (wraps silently)"""
    if args or kw:
        raise Unsupported("np.prod with extra arguments")
    if getattr(a, "_pyvc_symbolic", False):
        if hasattr(a, "prod"):
            return a.prod()
        from .arrays import SArr
        if isinstance(a, SArr) and a.ndim == 1 and isinstance(a.shape[0], int) and a.dtype.kind == "f":
            # product of a float vector of concrete length (real regime)
            ctx().trust("np.prod(float vector): the product of its elements (real regime)")
            p = 1.0
            for k in range(a.shape[0]):
                p = p * a.elem(k)
            return p
        raise Unsupported("np.prod of this symbolic array (no model)")
    vals = interp.iterate(a)
    if not contains_sym(vals):
        return np.prod(vals)
    if not all(isinstance(v, (SInt, int)) for v in vals):
        raise Unsupported("np.prod of non-int symbolic values")
    ctx().trust("np.prod(list of python ints): int64 array product, wrapping modulo 2^64")
    p = 1
    for v in vals:
        p = p * v
    t = core._i(p)
    return SInt(((t + (1 << 63)) % (1 << 64)) - (1 << 63))
