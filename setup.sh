#!/bin/sh
# Build the overlay venv (python 3.12 + z3/cvc5 from the offline wheelhouse, repo deps via .pth).
set -e
cd "$(dirname "$0")"
if [ ! -x .venv/bin/python ] || ! .venv/bin/python -c "import z3, numpy, neuroglancer_scripts, jsonschema" 2>/dev/null; then
  rm -rf .venv
  /venv/bin/python -m venv .venv
  PIP_NO_INDEX=1 .venv/bin/pip install -q --no-index --find-links /opt/veriftools/wheels z3-solver cvc5 jsonschema
  echo "import site; site.addsitedir('/venv/lib/python3.12/site-packages')" > .venv/lib/python3.12/site-packages/_repo_venv.pth
fi
.venv/bin/python -c "import z3, numpy, neuroglancer_scripts, jsonschema; print('setup ok', z3.get_version_string(), numpy.__version__)"
