import sys; sys.path.insert(0,'/verif')
from pyvc import verify, core, interp
from pyvc.runner import load_contracts
load_contracts()
name=sys.argv[1]; cfgsel=sys.argv[2] if len(sys.argv)>2 else None
u=[x for x in verify.UNITS if x.unit_name().endswith(name)][0]
for cfg in u.configs_for('quick'):
    if cfgsel and cfgsel not in str(cfg): continue
    r=verify.run_unit(u, cfg)
    print(cfg, 'paths',r['paths'], r['unsupported'], r['crash'])
    for o in r['obligations']:
        print('  ',o['verdict'],o['name'],o['line'],o['time_s'],o['backend'], o.get('model') if o['verdict']!='proved' else '', o.get('replay',''))
