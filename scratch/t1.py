import sys; sys.path.insert(0, '/verif')
from pyvc import core, verify
from pyvc.core import *
from pyvc.verify import Contract, register, run_unit
import json

class CeilDiv(Contract):
    target = "neuroglancer_scripts.utils.ceil_div"
    def setup(self, c, cfg):
        a = c.int("a", inp=True); b = c.int("b", inp=True)
        c.assume(b >= 1)
        return (a, b), {}
    def requires(self, c, a, b):
        return [("b>=1", b >= 1)]
    def ensures(self, c, result, a, b):
        return [("ceil-lower", result * b >= a), ("ceil-upper", (result - 1) * b < a)]
    def fresh_result(self, c, a, b):
        return c.int("ceil_div")

class Validate(Contract):
    target = "neuroglancer_scripts.precomputed_io.PrecomputedIO.validate_chunk_coords"
    def setup(self, c, cfg):
        from neuroglancer_scripts.precomputed_io import PrecomputedIO
        n = 2
        size = [c.int(f"s{i}", inp=True) for i in range(3)]
        css = [[c.int(f"cs{k}_{i}", inp=True) for i in range(3)] for k in range(n)]
        for v in size: c.assume(v >= 1)
        for cs in css:
            for v in cs: c.assume(v >= 1)
        si = {"size": size, "voxel_offset": [0,0,0], "chunk_sizes": css, "key": "k"}
        self_ = SObj(PrecomputedIO, {"_scale_info": {"k": si}})
        cc = tuple(c.int(n, inp=True) for n in ("xmin","xmax","ymin","ymax","zmin","zmax"))
        self.si = si
        return (self_, "k", cc), {}
    def ensures(self, c, result, self_=None, scale_key=None, chunk_coords=None, **kw):
        si = self.si
        def on(cs):
            parts=[]
            for ax in range(3):
                mn, mx = chunk_coords[2*ax], chunk_coords[2*ax+1]
                q, r = c.divmod(mn, cs[ax])
                parts += [mn >= 0, mn < si["size"][ax], r == 0, mx == smin(mn + cs[ax], si["size"][ax])]
            return And(*parts)
        grid = Or(*[on(cs) for cs in si["chunk_sizes"]])
        return [("valid-iff-on-grid", (result == grid) if isinstance(result, SBool) else (grid if result else Not(grid)))]
    def bind(self, fn, args, kwargs):
        return {"self_": args[0], "scale_key": args[1], "chunk_coords": args[2]}

for U in (CeilDiv, Validate):
    r = run_unit(U(), None)
    print(U.__name__, "paths", r["paths"], "unsupported", r["unsupported"], "crash", r["crash"], r["vacuity"])
    for o in r["obligations"]:
        print("  ", o["name"], o["verdict"], o["time_s"], o.get("model"))
