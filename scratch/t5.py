import sys, time; sys.path.insert(0,'/verif')
import z3
from pyvc import verify, core, interp
from pyvc.runner import load_contracts
load_contracts()
u=[x for x in verify.UNITS if x.unit_name().endswith('ShardVolumeSpec.__init__')][0]
saved=[]
orig=core.discharge
def d(ob, inputs, **kw):
    if ob.name.startswith('total-bits') or (ob.name.startswith('raises') and '155' in str(ob.lineno)):
        saved.append(ob)
    return {"name":ob.name,"fn":ob.fn,"line":ob.lineno,"kind":ob.kind,"time_s":0,"backend":"skip","verdict":"proved"}
core.discharge=d
verify.run_unit(u,'symbolic')
print(len(saved))
for ob in saved:
    for nm, mk in [("default", lambda: z3.Solver()), ("smt-tactic", lambda: z3.Then('simplify','smt').solver()),
                   ("qfnia", lambda: z3.SolverFor("QF_NIA")), ("simple", lambda: z3.SimpleSolver())]:
        s=mk(); s.set("timeout",30000)
        for a in ob.assumptions: s.add(a)
        s.add(z3.Not(ob.goal))
        t0=time.time(); r=s.check(); print(ob.name, nm, r, round(time.time()-t0,2))
