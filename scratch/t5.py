import sys, time; sys.path.insert(0,'/verif')
from pyvc import verify, core, interp
from pyvc.runner import load_contracts
load_contracts()
name=sys.argv[1]; to=int(sys.argv[2]) if len(sys.argv)>2 else 15000
u=[x for x in verify.UNITS if x.unit_name().endswith(name)][0]
orig=core.discharge
def d(ob, inputs, timeout_ms=20000, **k):
    t=time.time(); r=orig(ob, inputs, timeout_ms=to, **k)
    print('  ',r['verdict'],ob.name,round(time.time()-t,2),r.get('backend'), flush=True)
    return r
core.discharge=d
for cfg in u.configs_for('quick'):
    t=time.time()
    r=verify.run_unit(u, cfg)
    print(cfg,'paths',r['paths'],r['unsupported'],r['crash'],round(time.time()-t,1))
