import sys, time; sys.path.insert(0,'/verif')
import z3
from pyvc import verify, core, interp
from pyvc.runner import load_contracts
load_contracts()
u=[x for x in verify.UNITS if x.unit_name().endswith("fill_scales_for_dyadic_pyramid[per-level]")][0]
u.path_budget=1
core.discharge=lambda ob, inputs, **kw: {"name":ob.name,"fn":ob.fn,"line":ob.lineno,"kind":ob.kind,"time_s":0,"backend":"skip","verdict":"proved"}
orig=core.Ctx._feasible
def feas(self,t):
    t0=time.time(); r=orig(self,t); dt=time.time()-t0
    if dt>0.5: print("slow feas", round(dt,2), self.cur_line, str(t)[:160].replace("\n"," "))
    return r
core.Ctx._feasible=feas
t0=time.time()
r=verify.run_unit(u,(64,None))
print('paths',r['paths'],'obls',len(r['obligations']),r['unsupported'],'time',round(time.time()-t0,1))
