import z3, time
G=z3.BitVec('G',64); X=z3.BitVec('X',64)
g=z3.BV2Int(G,False); x=z3.BV2Int(X,False)
def t(name, f):
    s=z3.Solver(); s.set('timeout',20000); s.add(f); t0=time.time(); r=s.check(); print(name, r, round(time.time()-t0,3))
# (1) 2^i < bv2int(G) <=> ULT(2^i, G)
for i in (0,5,20):
    t(f'link{i}', z3.Not((z3.IntVal(1<<i) < g) == z3.ULT(z3.BitVecVal(1<<i,64), G)))
t('nonneg', x < 0)
t('cmp', z3.Not((x < g) == z3.ULT(X,G)))
t('int2bv', z3.Int2BV(x,64) != X)
print(z3.simplify(z3.Int2BV(x,64)))
print(z3.simplify(x<0), z3.simplify(z3.IntVal(32) < g))
