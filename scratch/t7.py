import sys, time; sys.path.insert(0,'/verif')
from pyvc import verify, core, interp
from pyvc.runner import load_contracts
load_contracts()
name=sys.argv[1]; cfgsel=sys.argv[2]; budget=int(sys.argv[3])
u=[x for x in verify.UNITS if x.unit_name().endswith(name)][0]
u.path_budget=budget
orig=core.discharge
def d(ob, inputs, **kw):
    return {"name":ob.name,"fn":ob.fn,"line":ob.lineno,"kind":ob.kind,"time_s":0,"backend":"skip","verdict":"proved"}
core.discharge=d
for cfg in u.configs_for('quick'):
    if cfgsel not in str(cfg): continue
    t0=time.time()
    r=verify.run_unit(u, cfg)
    print(cfg,'paths',r['paths'],'obls',len(r['obligations']),r['unsupported'],str(r['crash'])[-600:] if r['crash'] else None,'time',round(time.time()-t0,1))
    import collections
    print(collections.Counter(o['name'] for o in r['obligations']).most_common(40))
    break
