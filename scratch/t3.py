import sys; sys.path.insert(0,'/verif')
from pyvc import verify, core, interp
from pyvc.runner import load_contracts
load_contracts()
u=[x for x in verify.UNITS if x.unit_name().endswith('compressed_morton_code')][0]
import pyvc.interp as I
orig=I.Interp.try_merge_if
def dbg(self, cond, s, fr):
    r=orig(self,cond,s,fr)
    if not r: print("merge failed at", s.lineno)
    return r
I.Interp.try_merge_if=dbg
orig_exec = I.Interp.exec_block
r=verify.run_unit(u, ('reject',3))
print(r['paths'], r['unsupported'], len(r['obligations']))
