import sys, time; sys.path.insert(0,'/verif')
import z3
from pyvc import verify, core, interp
from pyvc.runner import load_contracts
load_contracts()
u=[x for x in verify.UNITS if x.unit_name().endswith('MajorityDownscaler.downscale')][0]
orig=core.Ctx._match_div
def dbg(self, at, bt):
    t0=time.time()
    r=orig(self, at, bt)
    print("match_div", "HIT" if r else "miss", round(time.time()-t0,2), str(at)[:150].replace("\n"," "), "||", str(bt)[:100].replace("\n"," "))
    return r
core.Ctx._match_div=dbg
r=verify.run_unit(u,'uint8')
