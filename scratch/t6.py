import sys, time; sys.path.insert(0,'/verif')
import z3
from pyvc import verify, core, interp
from pyvc.runner import load_contracts
load_contracts()
name=sys.argv[1]; pat=sys.argv[2]
u=[x for x in verify.UNITS if x.unit_name().endswith(name)][0]
orig=core.discharge; cnt=0
def d(ob, inputs, timeout_ms=20000, **k):
    global cnt
    if pat in ob.name:
        cnt+=1
    if pat in ob.name and cnt==int(sys.argv[3]):
        s=z3.Solver(); 
        for a in ob.assumptions: s.add(a)
        s.add(z3.Not(ob.goal))
        open('/verif/scratch/q.smt2','w').write(s.to_smt2())
        print("dumped", ob.name, len(ob.assumptions)); raise SystemExit
    return {"verdict":"proved","time_s":0,"backend":"skip"}
core.discharge=d
verify.run_unit(u, u.configs_for('quick')[0])
