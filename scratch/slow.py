import sys, time; sys.path.insert(0,'/verif')
from pyvc import verify, core
from pyvc.runner import load_contracts
load_contracts()
prop=sys.argv[1]; thr=float(sys.argv[2]) if len(sys.argv)>2 else 10
orig=core.discharge
def d(ob, inputs, timeout_ms=20000, **k):
    t=time.time(); r=orig(ob, inputs, timeout_ms=timeout_ms, **k); dt=time.time()-t
    if dt>thr: print(f"   {dt:6.1f}s of {timeout_ms/1000:.0f}s  {r['verdict']}  {ob.fn.split('.')[-1]}::{ob.name[:70]}  [{r.get('backend')}]", flush=True)
    return r
core.discharge=d
for u in verify.UNITS:
    if prop in u.props and not getattr(u,'bounded',False):
        for cfg in u.configs_for('quick'):
            verify.run_unit(u, cfg)
