import sys, time; sys.path.insert(0,'/verif')
from pyvc import verify, core, interp
from pyvc.runner import load_contracts
load_contracts()
name=sys.argv[1]
u=[x for x in verify.UNITS if x.unit_name().endswith(name)][0]
for cfg in u.configs_for('quick'):
    r=verify.run_unit(u, cfg, timeout_ms=30000)
    print(cfg,'paths',r['paths'],r['unsupported'],r['crash'], r['vacuity'])
    import collections
    print(collections.Counter(o['verdict'] for o in r['obligations']))
    for o in r['obligations']:
        if o['verdict']!='proved': print('  ',o['verdict'],o['name'],o['line'],o['time_s'],o.get('model'))
    print(sorted(set(o['name'].split('[')[0] for o in r['obligations']))[:80])
