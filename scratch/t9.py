import sys, time; sys.path.insert(0,'/verif')
import z3
from pyvc import verify, core, interp
from pyvc.runner import load_contracts
load_contracts()
u=[x for x in verify.UNITS if x.unit_name().endswith("_compressed_segmentation._decode_channel_into")][0]
orig=core.Ctx.concretize
def conc(self,v):
    t0=time.time(); r=orig(self,v); print("concretize", str(getattr(v,'t',v))[:80].replace("\n"," "), "->", r, round(time.time()-t0,2), self.solver.check() if r is None else "")
    return r
core.Ctx.concretize=conc
core.discharge=lambda ob, inputs, **kw: {"name":ob.name,"fn":ob.fn,"line":ob.lineno,"kind":ob.kind,"time_s":0,"backend":"skip","verdict":"proved"}
r=verify.run_unit(u,"<u4")
print(r['paths'], r['unsupported'])
