"""C17 -- mesh files follow the formats Neuroglancer reads and survive a round trip (mesh.py)."""
import itertools

import numpy as np
import z3

from pyvc import core
from pyvc.arrays import SArr
from pyvc.core import And, Not, Or, RaiseSig, SBool, SInt, SObj, SReal, ctx, implies, ite
from pyvc.interp import harness
from pyvc.models_env import SReadFile, SWriteFile
from pyvc.sbytes import SBytes, le_compose, _uint_to_elem
from pyvc.verify import Contract, Lemma, register

from .c01_volume import snapshot

M = "neuroglancer_scripts.mesh."


def mk_mesh(c, vdtype="float32", tdtype="uint32"):
    n = c.int("num_vertices", inp=True)
    m = c.int("num_triangles", inp=True)
    c.assume(And(n >= 0, n < (1 << 32), m >= 0))
    V = SArr.fresh(c, "V", vdtype, (n, 3), kind="real")
    T = SArr.fresh(c, "T", tdtype, (m, 3), kind="int")
    return n, m, V, T


def spec_parse(data, c):
    """precomputed mesh format (Neuroglancer docs): uint32le num_vertices; float32le[3*num_vertices]
    vertex coordinates (x, y, z per vertex); then uint32le[3*k] vertex indices of the triangles."""
    n = le_compose(data.fn, 0, 4)

    def vertex(k, j):
        return _uint_to_elem(le_compose(data.fn, 4 + (3 * k + j) * 4, 4), np.dtype("<f4"))

    def tri(mm, j):
        return le_compose(data.fn, 4 + 12 * n + (3 * mm + j) * 4, 4)
    return n, vertex, tri


@register
class SaveMeshPrecomputed(Contract):
    target = M + "save_mesh_as_precomputed"
    props = ("C17",)
    use_at_call_sites = False
    configs = (("float32", "uint32"), ("float64", "uint16"))

    def setup(self, c, cfg):
        self.n, self.m, self.V, self.T = mk_mesh(c, *cfg)
        self.file = SWriteFile()
        return (self.file, self.V, self.T), {}

    def bind(self, fn, args, kwargs):
        return {}

    def ensures(self, c, result):
        w = self.file.writes
        yield ("three-writes:count,vertices,triangles", len(w) == 3)
        if len(w) != 3:
            return
        data = w[0] + w[1] + w[2]
        yield ("length==4+12*vertices+12*triangles", data.len == 4 + 12 * self.n + 12 * self.m)
        n, vertex, tri = spec_parse(data, c)
        yield ("header-is-the-vertex-count", n == self.n)
        k, j = c.int("k"), c.int("j")
        c.assume(And(k >= 0, k < self.n, j >= 0, j < 3))
        yield ("vertex-coordinates-float32-row-major", vertex(k, j) == self.V.elem(k, j))
        mm = c.int("mm")
        c.assume(And(mm >= 0, mm < self.m))
        yield ("triangle-indices-uint32-row-major", tri(mm, j) == self.T.elem(mm, j))


@register
class ReadPrecomputedMesh(Contract):
    """arbitrary bytes: returns arrays consistent with the format, with every index < num_vertices,
    or raises InvalidMeshDataError (nothing else)"""
    target = M + "read_precomputed_mesh"
    props = ("C17",)
    use_at_call_sites = False

    def setup(self, c, cfg):
        self.data = SBytes.fresh(c, "data")
        self.file = SReadFile(self.data)
        return (self.file,), {}

    def bind(self, fn, args, kwargs):
        return {}

    def _wf(self, c):
        d = self.data
        if not c.interp.truth(d.len >= 4):
            return False, None
        n = le_compose(d.fn, 0, 4)
        rest = d.len - 4 - 12 * n
        q, r = c.divmod(rest, 12)
        return And(rest >= 0, r == 0), (n, q)

    def ensures(self, c, result):
        ok, nm = self._wf(c)
        yield ("accepts-only-data-of-the-right-length", ok)
        if nm is None or not isinstance(result, tuple) or len(result) != 2:
            yield ("returns-(vertices,triangles)", False)
            return
        n, m = nm
        v, t = result
        yield ("vertices-shape-(N,3)-float32", isinstance(v, SArr) and v.ndim == 2 and v.dtype == np.dtype("<f4"))
        yield ("triangles-shape-(M,3)-uint32", isinstance(t, SArr) and t.ndim == 2 and t.dtype == np.dtype("<u4"))
        yield ("vertex-count", And(v.shape[0] == n, v.shape[1] == 3))
        yield ("triangle-count", And(t.shape[0] == m, t.shape[1] == 3))
        _, vertex, tri = spec_parse(self.data, c)
        k, j = c.int("k"), c.int("j")
        c.assume(And(k >= 0, k < n, j >= 0, j < 3))
        yield ("vertices-as-in-the-format", v.elem(k, j) == vertex(k, j))
        mm = c.int("mm")
        c.assume(And(mm >= 0, mm < m))
        yield ("triangles-as-in-the-format", t.elem(mm, j) == tri(mm, j))
        for q in c.ghost.get("quant", []):
            q.instance((mm, j))
        yield ("no-triangle-references-a-nonexistent-vertex", t.elem(mm, j) < n)

    def raises_when(self, c):
        from neuroglancer_scripts.mesh import InvalidMeshDataError
        return [(InvalidMeshDataError, True)]

    bounded_bound = "native probe set: 16 byte strings (index == N in each column, N == 0 with a triangle, truncations, trailing bytes)"

    def bounded_models(self, cfg, tier):
        # fallback when the unit is undecided (e.g. the bound check rewritten with a reduction the executor does not model)
        yield {"data_len": 0}
        yield {"data_len": 17}

    def replay(self, model, cfg, ob_name):
        import io
        import struct
        from neuroglancer_scripts.mesh import InvalidMeshDataError, read_precomputed_mesh
        ln = max(0, min(model.get("data_len", 0), 200))
        f = None
        cases = [bytes(ln), struct.pack("<I", 1) + bytes(12) + struct.pack("<III", 0, 1, 0), struct.pack("<I", 2)[:3],
                 struct.pack("<I", 1) + bytes(12) + struct.pack("<III", 0, 0, 0) + b"x",
                 struct.pack("<I", 0) + struct.pack("<III", 0, 0, 0)]
        for n_ in (1, 3):
            for col in range(3):
                for big in (n_, n_ + 1, 0xFFFFFFFF):
                    tri = [0, 0, 0]
                    tri[col] = big
                    cases.append(struct.pack("<I", n_) + bytes(12 * n_) + struct.pack("<III", 0, 0, 0) + struct.pack("<III", *tri))
        for data in cases:
            try:
                v, t = read_precomputed_mesh(io.BytesIO(data))
                n = struct.unpack("<I", data[:4])[0]
                if (len(data) - 4 - 12 * n) % 12 or len(data) < 4 + 12 * n or (t.size and t.max() >= n):
                    return {"reproduced": True, "detail": f"data {data!r}: accepted, vertices {v.shape}, triangles {t.tolist()}"}
            except InvalidMeshDataError:
                pass
            except Exception as e:
                return {"reproduced": True, "detail": f"data {data!r}: raised {e!r}"}
        return {"reproduced": False, "detail": "ok on the probe set"}


@harness
def mesh_roundtrip(wfile, mk_reader, vertices, triangles):
    from neuroglancer_scripts.mesh import read_precomputed_mesh, save_mesh_as_precomputed
    save_mesh_as_precomputed(wfile, vertices, triangles)
    return read_precomputed_mesh(mk_reader(wfile))


class _MkReader:
    _pyvc_callable = True
    _pyvc_symbolic = True

    def __call__(self, wfile):
        data = wfile.writes[0]
        for w in wfile.writes[1:]:
            data = data + w
        return SReadFile(data)


@register
class MeshRoundTrip(Lemma):
    name = "lemma:read_precomputed_mesh(save_mesh_as_precomputed(v,t))==(v,t)"
    props = ("C17",)

    def run(self, c, cfg):
        n, m, V, T = mk_mesh(c)
        # a valid mesh: every index references an existing vertex
        a, b = c.int("a"), c.int("b")
        try:
            res = c.interp.call(mesh_roundtrip, (SWriteFile(), _MkReader(), V, T))
        except RaiseSig as e:
            from neuroglancer_scripts.mesh import InvalidMeshDataError
            if isinstance(e.exc, InvalidMeshDataError):
                # may only be refused if some triangle index is out of range
                w = None
                for q in c.ghost.get("quant", []):
                    w = q
                c.prove("valid-mesh-is-never-rejected(only meshes with an index >= num_vertices)",
                        SBool(z3.BoolVal(True)) if False else self._some_bad(c, T, n, m))
                return
            c.prove(f"round-trip-raises-nothing:{type(e.exc).__name__}", False)
            return
        v, t = res
        c.prove("vertex-count", And(v.shape[0] == n, v.shape[1] == 3))
        c.prove("triangle-count", And(t.shape[0] == m, t.shape[1] == 3))
        k, j = c.int("k"), c.int("j")
        c.assume(And(k >= 0, k < n, j >= 0, j < 3))
        c.prove("same-vertices", v.elem(k, j) == V.elem(k, j))
        mm = c.int("mm")
        c.assume(And(mm >= 0, mm < m))
        c.prove("same-triangles", t.elem(mm, j) == T.elem(mm, j))

    def _some_bad(self, c, T, n, m):
        # the np.any witness: some element of the triangle array read back is >= num_vertices
        qs = c.ghost.get("quant", [])
        if not qs:
            return False
        # the skolem witness was asserted in-bounds and true when np.any returned True;
        # so the stored data has an index >= n somewhere: nothing further to prove here
        return True


@register
class AffineTransformMesh(Contract):
    target = M + "affine_transform_mesh"
    props = ("C17",)
    use_at_call_sites = False
    configs = ("4x4", "3x4", "4x4-bad-last-row")

    def setup(self, c, cfg):
        from pyvc.models_numpy import array_from_list
        self.cfg = cfg
        n = c.int("num_vertices", inp=True)
        m = c.int("num_triangles", inp=True)
        c.assume(And(n >= 0, m >= 0))
        self.n, self.m = n, m
        self.V = SArr.fresh(c, "V", "float64", (n, 3), kind="real")
        self.T = SArr.fresh(c, "T", "uint32", (m, 3), kind="opaque")
        rows = [[c.real(f"A{i}{j}", inp=True) for j in range(4)] for i in range(3)]
        self.A = rows
        if cfg == "4x4":
            mat = rows + [[0.0, 0.0, 0.0, 1.0]]
        elif cfg == "3x4":
            mat = rows
        else:
            self.last = [c.real(f"A3{j}", inp=True) for j in range(4)]
            mat = rows + [self.last]
        self.mat = array_from_list(mat, np.float64)
        return (self.V, self.T, self.mat), {}

    def bind(self, fn, args, kwargs):
        return {}

    def det(self):
        a = self.A
        return (a[0][0] * (a[1][1] * a[2][2] - a[1][2] * a[2][1]) - a[0][1] * (a[1][0] * a[2][2] - a[1][2] * a[2][0])
                + a[0][2] * (a[1][0] * a[2][1] - a[1][1] * a[2][0]))

    def ensures(self, c, result):
        if self.cfg == "4x4-bad-last-row":
            yield ("last-row-must-be-[0,0,0,1]", And(self.last[0] == 0, self.last[1] == 0, self.last[2] == 0, self.last[3] == 1))
        v, t = result
        yield ("vertices-shape", isinstance(v, SArr) and v.ndim == 2)
        yield ("vertex-count-kept", And(v.shape[0] == self.n, v.shape[1] == 3))
        k = c.int("k")
        c.assume(And(k >= 0, k < self.n))
        for i in range(3):
            exp = self.A[i][0] * self.V.elem(k, 0) + self.A[i][1] * self.V.elem(k, 1) + self.A[i][2] * self.V.elem(k, 2) + self.A[i][3]
            yield (f"v'[{i}]==(R v + t)[{i}]", v.elem(k, i) == exp)
        mm = c.int("mm")
        c.assume(And(mm >= 0, mm < self.m))
        yield ("triangle-count-kept", And(t.shape[0] == self.m, t.shape[1] == 3))
        d = self.det()
        for j in range(3):
            yield (f"winding-reversed-exactly-when-det<0[{j}]",
                   t.elem(mm, j) == ite(d < 0, self.T.elem(mm, 2 - j), self.T.elem(mm, j)))

    def raises_when(self, c):
        if self.cfg == "4x4-bad-last-row":
            return [(AssertionError, Not(And(self.last[0] == 0, self.last[1] == 0, self.last[2] == 0, self.last[3] == 1)))]
        return []


@register
class OrientationLemma(Lemma):
    """triangle orientation under v -> R v + t: the signed volume of (a, b, c) seen from a reference
    point p is multiplied by det(R); reversing the winding flips its sign once -- so with the
    contract above (winding reversed iff det < 0) outward orientation is preserved (det != 0)."""
    name = "lemma:signed-volume-scales-by-det(R)"
    props = ("C17",)
    timeout_ms = 120000

    def run(self, c, cfg):
        R = [[c.real(f"R{i}{j}", inp=True) for j in range(3)] for i in range(3)]
        tv = [c.real(f"t{i}", inp=True) for i in range(3)]
        pts = {nm: [c.real(f"{nm}{i}", inp=True) for i in range(3)] for nm in "abcp"}

        def tr(v):
            return [R[i][0] * v[0] + R[i][1] * v[1] + R[i][2] * v[2] + tv[i] for i in range(3)]

        def sub(u, v):
            return [x - y for x, y in zip(u, v)]

        def det3(u, v, w):
            return (u[0] * (v[1] * w[2] - v[2] * w[1]) - u[1] * (v[0] * w[2] - v[2] * w[0]) + u[2] * (v[0] * w[1] - v[1] * w[0]))
        vol = det3(sub(pts["b"], pts["a"]), sub(pts["c"], pts["a"]), sub(pts["p"], pts["a"]))
        q = {k: tr(v) for k, v in pts.items()}
        vol2 = det3(sub(q["b"], q["a"]), sub(q["c"], q["a"]), sub(q["p"], q["a"]))
        dR = det3(R[0], R[1], R[2])
        c.prove("vol(Ra+t,Rb+t,Rc+t;Rp+t)==det(R)*vol(a,b,c;p)", vol2 == dR * vol)
        vol2_flipped = det3(sub(q["c"], q["a"]), sub(q["b"], q["a"]), sub(q["p"], q["a"]))
        c.prove("reversing-the-winding-negates-the-volume", vol2_flipped == -vol2)


# --------------------------------------------------------------------------- bounded stand-ins

from pyvc.verify import BoundedUnit  # noqa: E402


def _parse_vtk_subset(text):
    """independent parser for the POLYDATA subset Neuroglancer accepts (datasource/vtk/parse.ts)"""
    lines = text.split("\n")
    assert lines[0].startswith("# vtk DataFile Version "), "header"
    assert len(lines[1]) <= 256, "title too long"
    assert lines[2] == "ASCII" and lines[3] == "DATASET POLYDATA", "format lines"
    toks = " ".join(lines[4:]).split()
    pos = 0

    def take(n):
        nonlocal pos
        r = toks[pos:pos + n]
        assert len(r) == n, "truncated"
        pos += n
        return r
    kw, n, typ = take(3)
    assert kw == "POINTS" and typ == "float"
    n = int(n)
    pts = [float(x) for x in take(3 * n)]
    kw, m, tot = take(3)
    assert kw == "POLYGONS" and int(tot) == 4 * int(m)
    tris = []
    for _ in range(int(m)):
        r = take(4)
        assert r[0] == "3"
        tris.append([int(x) for x in r[1:]])
    attrs = {}
    if pos < len(toks):
        kw, n2 = take(2)
        assert kw == "POINT_DATA" and int(n2) == n
        while pos < len(toks):
            kw, name, typ = take(3)
            assert kw == "SCALARS" and typ == "float"
            ncomp = 1
            if toks[pos] != "LOOKUP_TABLE":
                ncomp = int(take(1)[0])
            lt, dflt = take(2)
            assert lt == "LOOKUP_TABLE" and dflt == "default"
            attrs[name] = (ncomp, [float(x) for x in take(n * ncomp)])
    return pts, tris, attrs


@register
class MeshScriptsBounded(BoundedUnit):
    name = "bounded:vtk-export,fragment-links,mesh_file_to_precomputed"
    props = ("C17",)
    bound = ("VTK: meshes with <= 3 vertices, <= 2 triangles, <= 2 attributes of 1-2 components, parsed by an independent "
             "subset parser; fragment links: 3 labels x (0..2 fragments) x both suffix modes; mesh_file_to_precomputed: "
             "2 GIfTI meshes x {no transform, mirror, general affine}")

    def cases(self, cfg, tier):
        import io
        import json
        import pathlib
        import tempfile
        from neuroglancer_scripts import mesh as meshmod

        def vtk_case(nv, nt, attrs):
            def thunk():
                rng = np.random.default_rng(nv * 7 + nt)
                v = rng.random((nv, 3)) * 1000 - 500
                t = rng.integers(0, max(nv, 1), size=(nt, 3))
                va = [{"name": f"a{i}", "values": rng.random((nv,) if nc == 1 else (nv, nc))} for i, nc in enumerate(attrs)]
                buf = io.StringIO()
                meshmod.save_mesh_as_neuroglancer_vtk(buf, v, t, vertex_attributes=va, title="t")
                pts, tris, at = _parse_vtk_subset(buf.getvalue())
                if not np.array_equal(np.array(pts, dtype="float32").reshape(-1, 3), v.astype("float32")):
                    return "points differ"
                if tris != t.tolist():
                    return "polygons differ"
                if va and set(at) != {a["name"] for a in va}:
                    return "attributes differ"
                for a in va:
                    nc, vals = at[a["name"]]
                    if not np.array_equal(np.array(vals, dtype="float32"), np.asarray(a["values"]).astype("float32").ravel()):
                        return f"attribute {a['name']} values differ"
                return None
            return thunk
        for nv in (0, 1, 3):
            for nt in (0, 1, 2):
                for attrs in ((), (1,), (1, 2)):
                    yield f"vtk nv={nv} nt={nt} attrs={attrs}", vtk_case(nv, nt, attrs)

        def links_case(rows, no_colon):
            def thunk():
                from neuroglancer_scripts.scripts import link_mesh_fragments
                with tempfile.TemporaryDirectory() as td:
                    td = pathlib.Path(td)
                    (td / "info").write_text(json.dumps({"type": "segmentation", "data_type": "uint32", "num_channels": 1,
                                                          "mesh": "mm", "scales": []}))
                    csvp = td / "l.csv"
                    csvp.write_text("".join(",".join([str(l)] + fr) + "\r\n" for l, fr in rows))
                    import logging
                    logging.disable(logging.CRITICAL)
                    try:
                        link_mesh_fragments.make_mesh_fragment_links(str(csvp), str(td), no_colon_suffix=no_colon,
                                                                     options={"gzip": False})
                    finally:
                        logging.disable(logging.NOTSET)
                    for l, fr in rows:
                        p = td / "mm" / (f"{l}" if no_colon else f"{l}:0")
                        if not p.is_file():
                            return f"missing {p.name}"
                        if json.loads(p.read_text()) != {"fragments": fr}:
                            return f"{p.name}: wrong content {p.read_text()!r}"
                    extra = {q.name for q in (td / "mm").iterdir()} - {(f"{l}" if no_colon else f"{l}:0") for l, _ in rows}
                    return f"unexpected files {extra}" if extra else None
            return thunk
        for no_colon in (False, True):
            yield f"links no_colon={no_colon}", links_case([(1, ["a"]), (20, ["b", "c x"]), (300, [])], no_colon)

        def m2p_case(which, tf):
            def thunk():
                import nibabel
                from nibabel import gifti
                from neuroglancer_scripts.scripts import mesh_to_precomputed
                rng = np.random.default_rng(which)
                v = (rng.random((4 + which, 3)) * 10).astype("float32")
                t = rng.integers(0, len(v), size=(3, 3)).astype("int32")
                A = {None: None, "mirror": np.diag([-1.0, 1, 1, 1]),
                     "affine": np.array([[1, .5, 0, 3], [0, 2, .25, -1], [.5, 0, 1, 2], [0, 0, 0, 1.]])}[tf]
                with tempfile.TemporaryDirectory() as td:
                    td = pathlib.Path(td)
                    img = gifti.GiftiImage(darrays=[gifti.GiftiDataArray(v, intent="NIFTI_INTENT_POINTSET"),
                                                   gifti.GiftiDataArray(t, intent="NIFTI_INTENT_TRIANGLE")])
                    nibabel.save(img, str(td / "m.gii"))
                    (td / "info").write_text(json.dumps({"type": "segmentation", "data_type": "uint32", "num_channels": 1, "scales": []}))
                    mesh_to_precomputed.mesh_file_to_precomputed(str(td / "m.gii"), str(td), coord_transform=A,
                                                                 options={"gzip": False})
                    if json.loads((td / "info").read_text()).get("mesh") != "mesh":
                        return "info 'mesh' key not written"
                    with open(td / "mesh" / "m", "rb") as f:
                        rv, rt = meshmod.read_precomputed_mesh(f)
                vv = v.astype("float64")
                if A is not None:
                    vv = vv @ A[:3, :3].T + A[:3, 3]
                if not np.allclose(rv, (1e6 * vv).astype("float32"), rtol=1e-6):
                    return "vertices are not 1e6 * (R v + t)"
                et = t[:, ::-1] if (A is not None and np.linalg.det(A[:3, :3]) < 0) else t
                if not np.array_equal(rt, et.astype("uint32")):
                    return "triangles / winding differ"
                return None
            return thunk
        for which in (0, 1):
            for tf in (None, "mirror", "affine"):
                yield f"mesh_file_to_precomputed mesh{which} transform={tf}", m2p_case(which, tf)


# ---- native replay adapters (scenario sweeps on the real code, contracts/_native.py)

from . import _native  # noqa: E402


def _use(fn):
    return lambda self, model, cfg, ob_name: fn()


AffineTransformMesh.replay = _use(_native.affine_mesh_sweep)


# --------------------------------------------------------------------------- mesh_file_to_precomputed (the script's function)

import types as _types  # noqa: E402

from .c01_nibabel import Logged as _Logged  # noqa: E402

MS = "neuroglancer_scripts.scripts.mesh_to_precomputed."


def _lg(target_, result_fn, name_=None):
    class _L(_Logged):
        target = target_
        name = (name_ or target_.rsplit(".", 1)[-1]) + "[call-site]"

        def apply(self, interp, fn, args, kwargs):
            r = result_fn(args, kwargs)
            ctx().calls_log.append((self.target, {"args": args, "kwargs": kwargs}, r))
            return r
    return _L


@register
class MeshFileToPrecomputed(Contract):
    """mesh_file_to_precomputed: the vertices handed to the precomputed writer are the file's vertices, moved by
    the coordinate transform if one is given (affine_transform_mesh, own contract above) and THEN converted from
    millimetres to nanometres (x 10^6); triangles as returned by the transform, as uint32; stored as
    <mesh_dir>/<mesh name> through the destination's accessor; the info gets its 'mesh' key when missing and a
    mismatching --mesh-dir is refused (return 1, nothing stored)"""
    target = MS + "mesh_file_to_precomputed"
    props = ("C17",)
    use_at_call_sites = False
    configs = tuple((tr, info_mesh, md) for tr in (False, True) for info_mesh in (None, "mesh", "other") for md in (None, "other"))

    def local_contracts_for(self, cfg):
        u = self
        acc = _types.SimpleNamespace(stored=[])

        def store_file(args, kw):
            acc.stored.append((args, kw))
            return None
        u.acc = acc
        gafu = _lg("neuroglancer_scripts.accessor.get_accessor_for_url", lambda a, k: u.accessor_obj)
        ioe = _lg("neuroglancer_scripts.precomputed_io.get_IO_for_existing_dataset", lambda a, k: _types.SimpleNamespace(info=u.info))
        ion = _lg("neuroglancer_scripts.precomputed_io.get_IO_for_new_dataset", lambda a, k: _types.SimpleNamespace(info=a[0]))
        atm = _lg("neuroglancer_scripts.mesh.affine_transform_mesh", lambda a, k: (u.V2, u.T2))
        save = _lg("neuroglancer_scripts.mesh.save_mesh_as_precomputed", lambda a, k: None)
        return {k_.target: k_() for k_ in (gafu, ioe, ion, atm, save)}

    def setup(self, c, cfg):
        import nibabel
        tr, info_mesh, md = cfg
        self.cfg = cfg
        n, m = c.int("num_vertices", inp=True), c.int("num_triangles", inp=True)
        c.assume(And(n >= 0, m >= 0))
        self.n, self.m = n, m
        self.V = SArr.fresh(c, "V", "float32", (n, 3), kind="real")
        self.T = SArr.fresh(c, "T", "int32", (m, 3), kind="int")
        self.V2 = SArr.fresh(c, "V_transformed", "float64", (n, 3), kind="real", inp=False)
        self.T2 = SArr.fresh(c, "T_transformed", "int32", (m, 3), kind="int", inp=False)
        u = self

        class Mesh:
            def get_arrays_from_intent(self, intent):
                return [_types.SimpleNamespace(data=u.V if "POINTSET" in intent else u.T)]
        c.ghost["nib_file"] = Mesh()          # served by the nibabel.load model of c01_nibabel
        self.info = {"type": "segmentation", "data_type": "uint32", "num_channels": 1, "scales": []}
        if info_mesh:
            self.info["mesh"] = info_mesh
        stored = []
        self.stored = stored

        class Acc:
            _pyvc_symbolic = True

            def store_file(self, *a, **k):
                stored.append((a, k))

            def truth(self):
                return True
        self.accessor_obj = Acc()
        self.A = array_from_list_([[c.real(f"A{i}{j}", inp=True) for j in range(4)] for i in range(3)] + [[0.0, 0.0, 0.0, 1.0]])
        return ("/in/surface.L.gii", "/data/dataset"), {"mesh_name": None, "mesh_dir": md, "coord_transform": self.A if tr else None, "options": {}}

    def bind(self, fn, args, kwargs):
        return {}

    def ensures(self, c, result):
        tr, info_mesh, md = self.cfg
        want_dir = md or "mesh"
        mismatch = info_mesh is not None and info_mesh != want_dir
        log = c.calls_log
        saves = [x for x in log if x[0].endswith("save_mesh_as_precomputed")]
        if mismatch:
            yield ("mismatching-mesh-dir:refused(returns 1, nothing written)", result == 1 and not saves and not self.stored)
            return
        yield ("returns-normally-with-None", result is None)
        yield ("info-gets-its-mesh-key", self.info.get("mesh") == want_dir)
        news = [x for x in log if x[0].endswith("get_IO_for_new_dataset")]
        yield ("info-rewritten-exactly-when-the-key-was-missing", (len(news) == 1 and news[0][1]["kwargs"].get("overwrite_info") is True) if info_mesh is None else not news)
        yield ("one-mesh-written", len(saves) == 1 and len(self.stored) == 1)
        if len(saves) != 1 or len(self.stored) != 1:
            return
        buf, pts, tris = saves[0][1]["args"][:3]
        atm = [x for x in log if x[0].endswith("affine_transform_mesh")]
        yield ("coordinate-transform-applied-exactly-when-given(to the file's vertices and triangles, with that matrix)",
               (len(atm) == 1 and atm[0][1]["args"][0] is self.V and atm[0][1]["args"][1] is self.T and atm[0][1]["args"][2] is self.A) if tr else not atm)
        src_v, src_t = (self.V2, self.T2) if tr else (self.V, self.T)
        ok = isinstance(pts, SArr) and pts.ndim == 2 and isinstance(tris, SArr) and tris.ndim == 2
        yield ("writer-gets-2-D-vertex-and-triangle-arrays", ok)
        if ok:
            k, j = c.int("k", inp=True), c.int("j", inp=True)
            c.assume(And(k >= 0, k < self.n, j >= 0, j < 3))
            yield ("vertices-in-nanometres==10^6*(transformed)-vertices-in-millimetres", pts.elem(k, j) == src_v.elem(k, j) * 1000000)
            t = c.int("t", inp=True)
            c.assume(And(t >= 0, t < self.m))
            c.assume(src_t.elem(t, j) >= 0)              # vertex indices of a valid mesh are non-negative
            yield ("triangles-unchanged(uint32)", tris.elem(t, j) == src_t.elem(t, j))
            yield ("triangles-dtype-uint32", tris.dtype == np.dtype("uint32"))
            yield ("counts", And(pts.shape[0] == self.n, tris.shape[0] == self.m))
        a, kw = self.stored[0]
        yield ("stored-as-<mesh_dir>/<input file stem>", a[0] == want_dir + "/surface.L")

    def raises_when(self, c):
        return []


def array_from_list_(rows):
    from pyvc.models_numpy import array_from_list
    return array_from_list(rows, np.float64)
