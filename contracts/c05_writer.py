"""C05 / C04, writer side -- MiniShard under a representation invariant.

Abstract view of a MiniShard after n appends (n symbolic):
  header            uint64 array of length 3n:  header[3i] = id_i - id_(i-1) (id_(-1) = 0),
                    header[3i+1] = (_offset if i == 0 else 0), header[3i+2] = len(data_i)
  databytearray     data_0 + data_1 + ... + data_(n-1)          (abstract container, see ByteArrayModel)
  _last_chunk_id    id_(n-1)  (0 if n == 0)
  _appended         n
  _chunk_buffer     finite map  id -> encoded bytes  of chunks that arrived early (abstract map, see BufferModel)

The two buffering strategies differ only in the classes used for databytearray and _chunk_buffer
(InMemByteArray / OnDiskByteArray, dict / OnDiskBytesDict); both are used through the same abstract
container contracts here, so every obligation below holds for either strategy *provided* the concrete
classes meet those container contracts (bounded unit of c05_sharded.py exercises both; the on-disk
classes' file handling is not under contract).
"""
import numpy as np
import z3

from pyvc import core
from pyvc.arrays import SArr
from pyvc.core import And, Not, Or, RaiseSig, SBool, SInt, SObj, SU64, Unsupported, ctx, implies, ite
from pyvc.sbytes import SBytes, as_sbytes
from pyvc.verify import Contract, Lemma, register

from ._common import BV64, mk_shard_spec

SF = "neuroglancer_scripts.sharded_file_accessor."


class ByteArrayModel:
    """abstract contract shared by InMemByteArray and OnDiskByteArray: `x += b` appends b, len(x) is the
    total length, iterating yields pieces whose concatenation is the content"""
    _pyvc_symbolic = True

    def __init__(self, data):
        self.data = data

    def __add__(self, o):
        return ByteArrayModel(self.data + as_sbytes(o))

    __iadd__ = __add__

    def iterate(self):
        return [self.data]

    def length(self):
        return self.data.len

    def truth(self):
        return True


def mk_minishard(c, n_name="n", with_buffer=None):
    """a MiniShard in an arbitrary state satisfying the representation invariant, n appends so far"""
    from neuroglancer_scripts.sharded_file_accessor import MiniShard
    spec = mk_shard_spec(c, bits_bound=65)
    a = spec.attrs
    c.assume(z3.ULE(a["preshift_bits"].t + a["shard_bits"].t + a["minishard_bits"].t, BV64(64)))
    nbv = c.u64(n_name, inp=True)                       # _appended (np.uint64); n is its value as an integer
    c.assume(z3.ULT(nbv.t, BV64(1 << 40)))
    n = c.int(n_name + "_int")
    c.assume(SBool(n.t == z3.BV2Int(nbv.t, False)))
    c.assume(And(n >= 0, n < (1 << 40)))
    header = SArr.fresh(c, "header", np.uint64, (3 * n,), kind="bv")
    data = SBytes.fresh(c, "data")
    c.assume(data.len < (1 << 50))
    offset = c.u64("_offset", inp=True)
    last = c.u64("_last_chunk_id", inp=True)
    masked = c.u64("masked_bits", inp=True)
    attrs = {"shard_spec": spec, "header": header, "databytearray": ByteArrayModel(data), "_offset": offset,
             "_appended": nbv, "_last_chunk_id": last, "masked_bits": masked}
    if with_buffer is not None:
        attrs["_chunk_buffer"] = with_buffer
    return SObj(MiniShard, attrs), {"n": n, "nbv": nbv, "header": header, "data": data, "offset": offset, "last": last,
                                    "masked": masked, "spec": spec}


@register
class MiniShardAppend(Contract):
    """append(buf, cmc): one more entry, everything before it untouched, the header stays uint64"""
    target = SF + "MiniShard.append"
    props = ("C05", "C04")
    use_at_call_sites = False
    timeout_ms = 60000

    def setup(self, c, cfg):
        self.obj, self.st = mk_minishard(c)
        self.buf = SBytes.fresh(c, "buf")
        c.assume(self.buf.len < (1 << 40))
        self.cmc = c.u64("cmc", inp=True)
        self.pre_header = self.st["header"].frozen()
        return (self.obj, self.buf, self.cmc), {}

    def bind(self, fn, args, kwargs):
        return {}

    def ensures(self, c, result):
        st, a = self.st, self.obj.attrs
        n = st["n"]
        h = a.get("header")
        yield ("header-is-still-a-uint64-array", isinstance(h, SArr) and h.dtype == np.dtype(np.uint64) and h.ndim == 1)
        if not (isinstance(h, SArr) and h.dtype == np.dtype(np.uint64)):
            return
        yield ("header-grew-by-one-entry(3 words)", h.shape[0] == 3 * n + 3)
        i = c.int("i", inp=True)
        c.assume(And(i >= 0, i < 3 * n))
        yield ("earlier-entries-untouched", h.elem(i) == self.pre_header.elem(i))
        yield ("new-entry:id-delta==cmc-last_chunk_id(mod 2^64)", h.elem(3 * n) == SU64(self.cmc.t - st["last"].t))
        yield ("new-entry:offset==(minishard offset for the first entry, 0 afterwards)",
               h.elem(3 * n + 1) == ite(n == 0, st["offset"], SU64(BV64(0))))
        yield ("new-entry:size==len(buf)", h.elem(3 * n + 2) == SU64(z3.Int2BV(core._i(self.buf.len), 64)))
        d = a.get("databytearray")
        ok = isinstance(d, ByteArrayModel)
        yield ("data-container-kept", ok)
        if ok:
            yield ("data-length-grew-by-len(buf)", d.data.len == st["data"].len + self.buf.len)
            j = c.int("j", inp=True)
            c.assume(And(j >= 0, j < d.data.len))
            yield ("data==old-data+buf", d.data.fn(j) == ite(j < st["data"].len, st["data"].fn(j), self.buf.fn(j - st["data"].len)))
        yield ("_last_chunk_id==cmc", a.get("_last_chunk_id") == self.cmc)
        yield ("_appended==n+1", a.get("_appended") == SU64(st["nbv"].t + BV64(1)))
        yield ("nothing-else-changed", a.get("_offset") is st["offset"] and a.get("masked_bits") is st["masked"] and a.get("shard_spec") is st["spec"])

    def replay(self, model, cfg, ob_name):
        return native_append_check()


def native_append_check():
    """ids at and above 2^53 through the real MiniShard.append (float promotion would round them)"""
    from neuroglancer_scripts.sharded_base import ShardSpec
    from neuroglancer_scripts.sharded_file_accessor import MiniShard
    m = MiniShard(ShardSpec(0, 0), strategy="in memory")
    ids = [np.uint64(2 ** 53 + 1), np.uint64(2 ** 53 + 3), np.uint64(2 ** 63 + 5)]
    for k, i in enumerate(ids):
        m.append(bytes([k]) * (k + 1), i)
    h = m.header
    want = [int(ids[0]), 0, 1, int(ids[1]) - int(ids[0]), 0, 2, int(ids[2]) - int(ids[1]), 0, 3]
    if h.dtype != np.uint64:
        return {"reproduced": True, "detail": f"after appending ids {[int(i) for i in ids]} the header array has dtype {h.dtype} (ids above 2^53 are rounded): {h.tolist()}"}
    if [int(v) for v in h] != want:
        return {"reproduced": True, "detail": f"header {[int(v) for v in h]} != {want}"}
    if bytes(m.databytearray) != b"\x00\x01\x01\x02\x02\x02":
        return {"reproduced": True, "detail": "data bytes differ"}
    return {"reproduced": False, "detail": "append keeps uint64 entries exact"}


# --------------------------------------------------------------------------- store_cmc_chunk

from pyvc.symmap import SBytesMap  # noqa: E402

from .c05_sharded import nxt_spec  # noqa: E402
from ._common import low, shl_sat  # noqa: E402


class DataEncoderAbs(Contract):
    """ShardSpec.data_encoder at call sites: some byte string that remembers what it encodes
    (raw: the bytes themselves; gzip: zlib.compress, whose inverse is data_decoder -- assumed pair)"""
    target = "neuroglancer_scripts.sharded_base.ShardSpec.data_encoder"
    name = "ShardSpec.data_encoder[call-site]"
    props = ()
    has_body = False

    def setup(self, c, cfg):
        raise NotImplementedError

    def apply(self, interp, fn, args, kwargs):
        c = ctx()
        src = as_sbytes(args[1])
        out = SBytes.fresh(c, c.fresh_name("encoded"), inp=False)
        out.encoded_from = src
        c.calls_log.append((self.target, {"b": src}, out))
        return out


class AppendAbs(Contract):
    target = SF + "MiniShard.append"
    name = "MiniShard.append[call-site:logged]"
    props = ()
    has_body = False

    def setup(self, c, cfg):
        raise NotImplementedError

    def apply(self, interp, fn, args, kwargs):
        ctx().calls_log.append((self.target, {"self": args[0], "buf": args[1], "cmc": args[2]}, None))
        return None


class FlushAbs(Contract):
    target = SF + "MiniShard.flush_buffer"
    name = "MiniShard.flush_buffer[call-site:logged]"
    props = ()
    has_body = False

    def setup(self, c, cfg):
        raise NotImplementedError

    def apply(self, interp, fn, args, kwargs):
        ctx().calls_log.append((self.target, {"self": args[0]}, None))
        return None


def class_field(spec):
    a = spec.attrs
    return shl_sat(low(a["shard_bits"].t + a["minishard_bits"].t), a["preshift_bits"].t)


@register
class MiniShardStore(Contract):
    """store_cmc_chunk(buf, cmc) for an id of this minishard's class: the ENCODED chunk is appended when
    it is the next id of the class (and the buffer is then flushed), kept in the buffer under its id when
    it is a later one, and an id below the next one is refused"""
    target = SF + "MiniShard.store_cmc_chunk"
    props = ("C05", "C04")
    use_at_call_sites = False
    configs = ("first-store", "later-store", "later-store,masked_bits==0")
    timeout_ms = 60000

    def local_contracts_for(self, cfg):
        return {DataEncoderAbs.target: DataEncoderAbs(), AppendAbs.target: AppendAbs(), FlushAbs.target: FlushAbs()}

    def setup(self, c, cfg):
        self.cfg = cfg
        self.buffer = SBytesMap.fresh(c, "chunk_buffer")
        self.pre_buffer = self.buffer.snapshot()
        self.obj, self.st = mk_minishard(c, with_buffer=self.buffer)
        st = self.st
        self.cmc = c.u64("cmc", inp=True)
        self.buf = SBytes.fresh(c, "buf")
        field = class_field(st["spec"])
        if cfg == "first-store":
            self.obj.attrs["masked_bits"] = None
            c.assume(st["n"] == 0)
            self.masked = SU64(field & self.cmc.t)
        else:
            self.masked = st["masked"]
            c.assume(SBool((field & self.cmc.t) == self.masked.t))          # the id belongs to this minishard
            c.assume(SBool((field & self.masked.t) == self.masked.t))       # masked_bits only has class bits
            if cfg.endswith("==0"):
                c.assume(SBool(self.masked.t == BV64(0)))
        return (self.obj, self.buf, self.cmc), {}

    def bind(self, fn, args, kwargs):
        return {}

    def _next(self):
        a = self.st["spec"].attrs
        return nxt_spec(self.st["nbv"].t, a["preshift_bits"].t, a["shard_bits"].t, a["minishard_bits"].t, self.masked.t)

    def ensures(self, c, result):
        st, a = self.st, self.obj.attrs
        nxt = self._next()
        yield ("accepts-only-ids-at-or-after-the-next-one", SBool(z3.UGE(self.cmc.t, nxt)))
        yield ("masked_bits==class-bits-of-the-id", a.get("masked_bits") == self.masked)
        enc = [x for x in c.calls_log if x[0] == DataEncoderAbs.target]
        app = [x for x in c.calls_log if x[0] == AppendAbs.target]
        fl = [x for x in c.calls_log if x[0] == FlushAbs.target]
        yield ("chunk-encoded-exactly-once", len(enc) == 1 and enc[0][1]["b"] is self.buf)
        if len(enc) != 1:
            return
        encoded = enc[0][2]
        is_next = SBool(self.cmc.t == nxt)
        if app:
            yield ("appended-only-when-it-is-the-next-id", is_next)
            yield ("appends-the-ENCODED-chunk-under-its-id", len(app) == 1 and app[0][1]["buf"] is encoded and app[0][1]["cmc"] is self.cmc)
            yield ("then-flushes-the-buffer", len(fl) == 1 and c.calls_log.index(fl[0]) > c.calls_log.index(app[0]))
            k = c.u64("k", inp=True)
            yield ("buffer-untouched-by-the-store-itself", And(self.buffer.has(k) == self.pre_buffer.has(k)))
        else:
            yield ("buffered-only-when-it-is-a-later-id", SBool(z3.UGT(self.cmc.t, nxt)))
            yield ("no-flush-without-append", not fl)
            k = c.u64("k", inp=True)
            yield ("buffer'==buffer[cmc:=...]:keys", self.buffer.has(k) == Or(k == self.cmc, self.pre_buffer.has(k)))
            got = self.buffer.get(self.cmc)
            yield ("buffer'[cmc]-is-the-ENCODED-chunk:length", got.len == encoded.len)
            j = c.int("j", inp=True)
            yield ("buffer'[cmc]-is-the-ENCODED-chunk:content", implies(And(j >= 0, j < encoded.len), got.fn(j) == encoded.fn(j)))
            o = self.buffer.get(k)
            p = self.pre_buffer.get(k)
            yield ("other-buffered-chunks-untouched", implies(And(self.pre_buffer.has(k), Not(k == self.cmc)),
                                                              And(o.len == p.len, implies(And(j >= 0, j < p.len), o.fn(j) == p.fn(j)))))
            yield ("header-and-data-untouched", a.get("header") is st["header"] and a["databytearray"].data is st["data"])

    def check_raise(self, c, exc, b, cfg):
        c.prove(f"refusal-is-a-RuntimeError:{type(exc).__name__}", isinstance(exc, RuntimeError), kind="exc")
        c.prove("refuses-only-ids-below-the-next-one", SBool(z3.ULT(self.cmc.t, self._next())), kind="exc")

    def replay(self, model, cfg, ob_name):
        return native_store_check()


def native_store_check():
    """gzip data encoding, chunks stored in descending order (all but the last are buffered first):
    every chunk must come back through the package's own reader"""
    import contextlib
    import copy
    import io
    import tempfile
    from neuroglancer_scripts.sharded_file_accessor import ShardedFileAccessor
    info = {"type": "image", "data_type": "uint8", "num_channels": 1, "scales": [{
        "key": "s0", "size": [4, 1, 1], "chunk_sizes": [[1, 1, 1]], "encoding": "raw", "resolution": [1, 1, 1], "voxel_offset": [0, 0, 0],
        "sharding": {"@type": "neuroglancer_uint64_sharded_v1", "minishard_bits": 0, "shard_bits": 0, "preshift_bits": 0,
                     "hash": "identity", "minishard_index_encoding": "raw", "data_encoding": "gzip"}}]}
    for strategy in ("in memory", "on disk"):
        with tempfile.TemporaryDirectory() as td, contextlib.redirect_stdout(io.StringIO()):
            acc = ShardedFileAccessor(td, strategy=strategy)
            acc.info = copy.deepcopy(info)
            data = {k: bytes([65 + k]) * (10 + k) for k in range(4)}
            for k in (3, 1, 2, 0):
                acc.store_chunk(data[k], "s0", (k, k + 1, 0, 1, 0, 1))
            acc.close()
            rd = ShardedFileAccessor(td)
            rd.info = copy.deepcopy(info)
            for k in range(4):
                try:
                    got = rd.fetch_chunk("s0", (k, k + 1, 0, 1, 0, 1))
                except Exception as e:
                    return {"reproduced": True, "detail": f"data_encoding=gzip, store order 3,1,2,0, strategy {strategy!r}: fetching chunk {k} raises {e!r}"}
                if got != data[k]:
                    return {"reproduced": True, "detail": f"data_encoding=gzip, store order 3,1,2,0, strategy {strategy!r}: chunk {k} comes back as {got[:20]!r}"}
    return {"reproduced": False, "detail": "buffered chunks come back intact"}


# --------------------------------------------------------------------------- Shard.store_cmc_chunk (routing to minishards)

from pyvc.interp import model as _model  # noqa: E402
import neuroglancer_scripts.sharded_file_accessor as _sfa  # noqa: E402


@_model(_sfa.InMemByteArray, _sfa.OnDiskByteArray)
def m_bytearray_container(interp, *a, **k):
    """both byte-array classes start empty: the abstract container"""
    return ByteArrayModel(SBytes.from_concrete(b""))

class MiniShardStoreAbs(Contract):
    target = SF + "MiniShard.store_cmc_chunk"
    name = "MiniShard.store_cmc_chunk[call-site:logged]"
    props = ()
    has_body = False

    def setup(self, c, cfg):
        raise NotImplementedError

    def apply(self, interp, fn, args, kwargs):
        ctx().calls_log.append((self.target, {"self": args[0], "buf": args[1], "cmc": args[2]}, None))
        return None


@register
class ShardStore(Contract):
    """Shard.store_cmc_chunk(buf, cmc): the chunk goes, unchanged and under its id, to THE minishard whose
    number is get_minishard_key(cmc) (C09's routing contract), which is created with the shard's spec and
    buffering options if it does not exist yet; other minishards are not touched; the shard becomes dirty.
    configs: minishard_bits, which minishards exist already"""
    target = SF + "Shard.store_cmc_chunk"
    props = ("C05", "C04")
    use_at_call_sites = False
    configs = ((0, ()), (0, (0,)), (1, ()), (1, (0,)), (1, (1,)), (1, (0, 1)), (2, (1, 3)), ("read-only", ()))

    def local_contracts_for(self, cfg):
        return {MiniShardStoreAbs.target: MiniShardStoreAbs()}

    def setup(self, c, cfg):
        from neuroglancer_scripts.sharded_base import ShardSpec
        from neuroglancer_scripts.sharded_file_accessor import MiniShard, Shard
        mb, existing = cfg
        self.cfg = cfg
        ro = mb == "read-only"
        self.spec = mk_shard_spec(c)                       # symbolic spec object pinned to this configuration
        a = self.spec.attrs
        c.assume(SBool(z3.And(a["minishard_bits"].t == BV64(0 if ro else mb), a["shard_bits"].t == BV64(1), a["preshift_bits"].t == BV64(0))))
        self.existing = {np.uint64(k): SObj(MiniShard, {"shard_spec": self.spec, "tag": k}) for k in existing}
        self.kwargs = {"strategy": "in memory"}
        self.obj = SObj(Shard, {"shard_spec": self.spec, "minishard_dict": dict(self.existing), "dirty": False,
                                "kwargs": self.kwargs, "can_write_cmc": not ro})
        self.cmc = c.u64("cmc", inp=True)
        self.buf = SBytes.fresh(c, "buf")
        return (self.obj, self.buf, self.cmc), {}

    def bind(self, fn, args, kwargs):
        return {}

    def ensures(self, c, result):
        from neuroglancer_scripts.sharded_file_accessor import MiniShard
        mb, existing = self.cfg
        yield ("writable-shard-only", mb != "read-only")
        calls = [x for x in c.calls_log if x[0] == MiniShardStoreAbs.target]
        yield ("exactly-one-minishard-receives-the-chunk", len(calls) == 1)
        if len(calls) != 1:
            return
        call = calls[0][1]
        yield ("chunk-bytes-and-id-passed-on-unchanged", call["buf"] is self.buf and call["cmc"] is self.cmc)
        d = self.obj.attrs["minishard_dict"]
        target = call["self"]
        keys = [k for k, v in d.items() if v is target]
        yield ("receiver-is-registered-in-minishard_dict", len(keys) == 1)
        if len(keys) != 1:
            return
        k = int(keys[0])
        # sharded.md: minishard number = low minishard_bits bits of (id >> preshift_bits)   (preshift 0 here)
        want = z3.BV2Int(self.cmc.t & BV64((1 << mb) - 1), False) if mb else z3.IntVal(0)
        yield ("receiver-is-the-minishard-whose-number-the-format-derives-from-the-id", SBool((self.cmc.t & BV64((1 << mb) - 1)) == BV64(k)))
        if k in [int(x) for x in self.existing]:
            yield ("existing-minishard-reused", target is self.existing[np.uint64(k)] and len(d) == len(self.existing))
        else:
            a = target.attrs if isinstance(target, SObj) else {}
            yield ("new-minishard:created-with-the-shard's-spec-and-buffering-options",
                   isinstance(target, SObj) and target.cls is MiniShard and a.get("shard_spec") is self.spec and len(d) == len(self.existing) + 1
                   and type(a.get("_chunk_buffer")) is dict and a.get("_appended") == np.uint64(0))
        yield ("other-minishards-untouched", all(d.get(kk) is v for kk, v in self.existing.items()))
        yield ("shard-marked-dirty", self.obj.attrs.get("dirty") is True)

    def raises_when(self, c):
        from neuroglancer_scripts.sharded_base import ShardedIOError
        return [(ShardedIOError, self.cfg[0] == "read-only")]
