"""C07 -- downscalers compute the documented block statistic exactly (downscaling.py)."""
import itertools

import numpy as np
import z3

from pyvc import core
from pyvc.arrays import SArr
from pyvc.core import And, Not, Or, RaiseSig, SBool, SInt, SObj, SReal, ctx, implies, ite, smax, smin
from pyvc.models_numpy import round_half_even_real
from pyvc.verify import Contract, Lemma, register

from .c01_volume import snapshot
from .shared_grid import ceil_div_term

DS = "neuroglancer_scripts.downscaling."


def mk_chunk(c, dtype, kind="int"):
    shape = tuple(c.int(n, inp=True) for n in ("C", "Z", "Y", "X"))
    for s in shape:
        c.assume(s >= 1)
    return SArr.fresh(c, "chunk", dtype, shape, kind=kind)


def sym_factors(c):
    f = [c.int(n, inp=True) for n in ("Dx", "Dy", "Dz")]
    return f


def supported_general(f):
    return And(*[x >= 1 for x in f])


@register
class StridingDownscale(Contract):
    target = DS + "StridingDownscaler.downscale"
    props = ("C07",)
    use_at_call_sites = False
    configs = ("uint8", "uint64", "float32")

    def setup(self, c, cfg):
        from neuroglancer_scripts.downscaling import StridingDownscaler
        self.chunk = mk_chunk(c, cfg, kind="opaque")
        self.before = snapshot(self.chunk)
        self.f = sym_factors(c)
        return (SObj(StridingDownscaler), self.chunk, self.f), {}

    def bind(self, fn, args, kwargs):
        return {}

    def ensures(self, c, result):
        a, f = self.chunk, self.f
        out = [("returns-only-for-supported-factors", supported_general(f))]
        if not isinstance(result, SArr) or result.ndim != 4:
            return out + [("returns-4D-array", False)]
        C, Z, Y, X = a.shape
        want = (C, ceil_div_term(c, Z, f[2]), ceil_div_term(c, Y, f[1]), ceil_div_term(c, X, f[0]))
        for k, nm in enumerate(("channels", "z", "y", "x")):
            out.append((f"shape-{nm}==ceil(size/factor)", result.shape[k] == want[k]))
        out.append(("dtype-unchanged", result.dtype == a.dtype))
        idx, inb = result.forall(None)
        ch, z, y, x = idx
        out.append(("out[c,z,y,x]==first-voxel-of-block", implies(inb, result.elem(*idx) == self.before.elem(ch, z * f[2], y * f[1], x * f[0]))))
        j, jin = a.forall(None, tag="u")
        out.append(("input-not-modified", implies(jin, a.elem(*j) == self.before.elem(*j))))
        return out

    def raises_when(self, c):
        return [(NotImplementedError, Not(supported_general(self.f)))]

    bounded_bound = "shapes (C<=2, Z,Y,X<=5), factors in {-1..5}^3"

    def bounded_models(self, cfg, tier):
        for Z, Y, X in itertools.product((1, 2, 3, 5), repeat=3):
            for f in itertools.product((1, 2, 3, 4), repeat=3):
                yield {"C": 2, "Z": Z, "Y": Y, "X": X, "Dx": f[0], "Dy": f[1], "Dz": f[2]}
        for f in ((0, 1, 1), (1, -1, 1), (1, 1, 0)):
            yield {"C": 1, "Z": 3, "Y": 3, "X": 3, "Dx": f[0], "Dy": f[1], "Dz": f[2]}

    def replay(self, model, cfg, ob_name):
        from neuroglancer_scripts.downscaling import StridingDownscaler
        g = lambda n, lo=1, hi=7: min(max(lo, model.get(n, lo)), hi)
        shape = (min(g("C"), 2), g("Z"), g("Y"), g("X"))
        f = [model.get(n, 1) for n in ("Dx", "Dy", "Dz")]
        f = [min(v, 9) for v in f]
        a = np.arange(int(np.prod(shape))).reshape(shape).astype(cfg)
        try:
            r = StridingDownscaler().downscale(a, f)
        except NotImplementedError:
            return {"reproduced": all(x >= 1 for x in f), "detail": f"factors {f}: NotImplementedError"}
        if not all(x >= 1 for x in f):
            return {"reproduced": True, "detail": f"factors {f} accepted"}
        exp = a[:, ::f[2], ::f[1], ::f[0]]
        want = (shape[0], -(-shape[1] // f[2]), -(-shape[2] // f[1]), -(-shape[3] // f[0]))
        bad = r.shape != want or not np.array_equal(r, exp)
        return {"reproduced": bad, "detail": f"shape {shape} factors {f}: {'differs' if bad else 'ok'}"}


@register
class CheckFactorsBase(Contract):
    target = DS + "Downscaler.check_factors"
    name = "Downscaler.check_factors[body]"
    props = ("C07",)
    use_at_call_sites = False
    configs = ("3-ints", "2-ints", "float")

    def setup(self, c, cfg):
        from neuroglancer_scripts.downscaling import Downscaler
        self.cfg = cfg
        f = sym_factors(c)
        if cfg == "2-ints":
            f = f[:2]
        if cfg == "float":
            f = [f[0], 2.0, f[2]]
        self.f = f
        return (SObj(Downscaler), f), {}

    def bind(self, fn, args, kwargs):
        return {}

    def ensures(self, c, result):
        exp = supported_general(self.f) if self.cfg == "3-ints" else False
        return [("True-iff-three-ints>=1", (result == exp) if isinstance(result, SBool) else (exp if result else Not(exp)))]


# --------------------------------------------------------------------------- majority

@register
class MajorityDownscale(Contract):
    target = DS + "MajorityDownscaler.downscale"
    props = ("C07",)
    use_at_call_sites = False
    configs = ("uint8", "uint32", "uint64")

    def setup(self, c, cfg):
        from neuroglancer_scripts.downscaling import MajorityDownscaler
        self.chunk = mk_chunk(c, cfg, kind="opaque")
        self.before = snapshot(self.chunk)
        self.f = sym_factors(c)
        return (SObj(MajorityDownscaler), self.chunk, self.f), {}

    def bind(self, fn, args, kwargs):
        return {}

    def ensures(self, c, result):
        a, f = self.chunk, self.f
        out = [("returns-only-for-supported-factors", supported_general(f))]
        if not isinstance(result, SArr) or result.ndim != 4:
            yield from out + [("returns-4D-array", False)]
            return
        C, Z, Y, X = a.shape
        want = (C, ceil_div_term(c, Z, f[2]), ceil_div_term(c, Y, f[1]), ceil_div_term(c, X, f[0]))
        for k, nm in enumerate(("channels", "z", "y", "x")):
            out.append((f"shape-{nm}==ceil(size/factor)", result.shape[k] == want[k]))
        out.append(("dtype-unchanged", result.dtype == a.dtype))
        # the arbitrary output voxel is the arbitrary iteration of the map-rule loop
        closed = getattr(c, "closed_loops", [])
        uniq = c.ghost.get("unique", [])
        amax = c.ghost.get("argmax", [])
        if len(closed) < 1 or len(closed[-1]) != 4 or len(uniq) != 1 or len(amax) != 1:
            yield from out + [("loop-structure:one-unique/argmax-per-output-voxel", False)]
            return
        t, z, y, x = [v for (_, v, _, _) in closed[-1]]
        for (nm, v, lo, hi), n in zip(closed[-1], result.shape):
            out.append((f"loop-covers-output-axis-{nm}", And(lo == 0, hi == n)))
        ur = uniq[0]
        arr, k = amax[0]
        r = result.elem(t, z, y, x)
        # block of the statement: chunk[t, z*Dz:(z+1)*Dz, ...] clipped at the border
        bz, by, bx = (c.int(n) for n in ("bz", "by", "bx"))
        inblock = And(bz >= z * f[2], bz < smin((z + 1) * f[2], Z), by >= y * f[1], by < smin((y + 1) * f[1], Y),
                      bx >= x * f[0], bx < smin((x + 1) * f[0], X))
        # the array handed to np.unique is exactly that block (same number of elements ...)
        src = ur.src
        bshape = (smin((z + 1) * f[2], Z) - z * f[2], smin((y + 1) * f[1], Y) - y * f[1], smin((x + 1) * f[0], X) - x * f[0])
        out.append(("np.unique-is-applied-to-the-block:size", src.size == bshape[0] * bshape[1] * bshape[2]))
        out.append(("result-is-a-label-of-the-block", r == ur.labels.elem(k)))
        yield from out
        # ... and every block voxel is one of its elements). From here on: an arbitrary block voxel.
        c.assume(inblock)
        e = self.before.elem(t, bz, by, bx)
        from pyvc.arrays import ravel
        j = ravel((bz - z * f[2], by - y * f[1], bx - x * f[0]), bshape)
        d = (bz - z * f[2], by - y * f[1], bx - x * f[0])
        yield ("block-offsets-in-range", And(*[And(o >= 0, o < n) for o, n in zip(d, bshape)]))
        # flat index < number of block voxels, by two monotonicity steps (nonlinear hints)
        yield ("flat-index:step1", d[0] * bshape[1] <= (bshape[0] - 1) * bshape[1])
        yield ("flat-index:step2", (d[0] * bshape[1] + d[1]) * bshape[2] <= (bshape[0] * bshape[1] - 1) * bshape[2])
        yield ("flat-index-in-range", And(j >= 0, j < bshape[0] * bshape[1] * bshape[2]))
        yield ("every-block-voxel-is-given-to-np.unique", (src.elem(j) == e) if src.ndim == 1 else False)
        # instantiate the assumed contracts of np.unique / np.argmax at the block element e
        p = ur.member_instance(e)
        k.instance(p)
        ur.sorted_instance(k, p)
        cnt = lambda v: SInt(ur.cnt(core._i(v)))
        yield ("result-is-most-frequent", cnt(r) >= cnt(e))
        yield ("smallest-label-on-ties", implies(cnt(r) == cnt(e), r <= e))

    def raises_when(self, c):
        return [(NotImplementedError, Not(supported_general(self.f)))]

    bounded_bound = "shapes (Z,Y,X<=5), factors in {1..4}^3, labels from 3 values (random fill, 6 seeds)"

    def bounded_models(self, cfg, tier):
        for Z, Y, X in itertools.product((1, 2, 3, 5), repeat=3):
            for f in itertools.product((1, 2, 3), repeat=3):
                for seed in range(3):
                    yield {"C": 1, "Z": Z, "Y": Y, "X": X, "Dx": f[0], "Dy": f[1], "Dz": f[2], "seed": seed}

    def replay(self, model, cfg, ob_name):
        from collections import Counter
        from neuroglancer_scripts.downscaling import MajorityDownscaler
        g = lambda n, lo=1, hi=5: min(max(lo, model.get(n, lo)), hi)
        shape = (1, g("Z"), g("Y"), g("X"))
        f = [min(max(model.get(n, 1), -1), 4) for n in ("Dx", "Dy", "Dz")]
        rng = np.random.default_rng(4 + model.get("seed", 0))
        a = rng.integers(0, 3, size=shape).astype(cfg)
        try:
            r = MajorityDownscaler().downscale(a, f)
        except NotImplementedError:
            return {"reproduced": all(x >= 1 for x in f), "detail": f"factors {f}: NotImplementedError"}
        if not all(x >= 1 for x in f):
            return {"reproduced": True, "detail": f"factors {f} accepted"}
        for z, y, x in itertools.product(*[range(n) for n in r.shape[1:]]):
            blk = a[0, z * f[2]:(z + 1) * f[2], y * f[1]:(y + 1) * f[1], x * f[0]:(x + 1) * f[0]].ravel().tolist()
            cn = Counter(blk)
            best = min(v for v in cn if cn[v] == max(cn.values()))
            if r[0, z, y, x] != best:
                return {"reproduced": True, "detail": f"shape {shape} factors {f}: voxel {(z, y, x)} is {r[0, z, y, x]}, majority is {best}"}
        return {"reproduced": False, "detail": f"shape {shape} factors {f}: ok"}


# --------------------------------------------------------------------------- averaging

def _avg_configs():
    out = []
    for f in itertools.product((1, 2), repeat=3):
        for dt in ("uint8", "uint16", "uint32"):
            out.append((f, dt, "edge"))
        out.append((f, "uint16", "constant"))
    out.append(((2, 2, 2), "uint64", "edge"))
    out.append(((2, 2, 2), "float32", "edge"))
    # float32 data in the IEEE regime (bit-exact float32/float64 arithmetic): range clause only
    for f in ((2, 1, 1), (1, 2, 1), (1, 1, 2)):     # two-axis averaging (four values, double rounding chain) stays undecided within budget: not claimed
        out.append((f, "float32", "edge-ieee"))
    return tuple(out)


@register
class AveragingDownscale(Contract):
    """Exact-dyadic regime: for uint8/16/32 inputs every intermediate is m/8 with |m| < 2^36, so the
    float64 arithmetic of the code is exact and modelling it with reals is faithful (stated
    assumption). For uint64 / float32 only shape, dtype and the frame are proved (value exactness is
    outside this technique's reach: float64 cannot hold every uint64; float32 double rounding)."""
    target = DS + "AveragingDownscaler.downscale"
    props = ("C07",)
    use_at_call_sites = False
    configs = _avg_configs()
    timeout_ms = 40000

    def setup(self, c, cfg):
        from neuroglancer_scripts.downscaling import AveragingDownscaler
        f, dt, mode = cfg
        self.cfg = cfg
        self.exact = dt in ("uint8", "uint16", "uint32")
        self.ieee = mode == "edge-ieee"
        self.chunk = mk_chunk(c, dt, kind="fp" if self.ieee else ("real" if dt == "float32" else "int"))
        self.before = snapshot(self.chunk)
        c.float_mode = "dyadic" if self.exact else ("fp" if self.ieee else "real")
        if mode in ("edge", "edge-ieee"):
            self.outside = None
            obj = SObj(AveragingDownscaler, {"padding_mode": "edge", "pad_kwargs": {}})
        else:
            ov = c.int("outside_value", inp=True)      # integer-valued float (e.g. 0.0)
            c.assume(And(ov >= 0, ov < (1 << 32)))
            self.outside = ov
            obj = SObj(AveragingDownscaler, {"padding_mode": "constant", "pad_kwargs": {"constant_values": core.SDyad(ov.t, 1)}})
        return (obj, self.chunk, list(f)), {}

    def bind(self, fn, args, kwargs):
        return {}

    def ensures(self, c, result):
        (fx, fy, fz), dt, mode = self.cfg
        a = self.chunk
        if not isinstance(result, SArr) or result.ndim != 4:
            yield ("returns-4D-array", False)
            return
        C, Z, Y, X = a.shape
        want = (C, ceil_div_term(c, Z, fz), ceil_div_term(c, Y, fy), ceil_div_term(c, X, fx))
        for k, nm in enumerate(("channels", "z", "y", "x")):
            yield (f"shape-{nm}==ceil(size/factor)", result.shape[k] == want[k])
        yield ("dtype-unchanged", result.dtype == a.dtype)
        j, jin = a.forall(None, tag="u")
        yield ("input-not-modified", implies(jin, a.elem(*j) == self.before.elem(*j)))
        if self.ieee:
            # finite float32 inputs: the result is finite and lies between the least and the greatest contributing
            # value (the work type float64 cannot overflow on two..four float32 values; conversions are monotone)
            idx, inb = result.forall(None)
            c.assume(inb)
            ch, z, y, x = idx
            vals = []
            for da, db, de in itertools.product(range(fz), range(fy), range(fx)):
                pz, py, px = fz * z + da, fy * y + db, fx * x + de
                vals.append(self.before.elem(ch, smin(pz, Z - 1), smin(py, Y - 1), smin(px, X - 1)))
            r = result.elem(*idx)
            yield ("float32:result-is-finite(no overflow)", r.finite() if hasattr(r, "finite") else False)
            lo_ok = Or(*[r >= v for v in vals])
            hi_ok = Or(*[r <= v for v in vals])
            yield ("float32:result-between-min-and-max-of-contributing-values", And(lo_ok, hi_ok))
            return
        if not self.exact:
            return
        idx, inb = result.forall(None)
        c.assume(inb)
        ch, z, y, x = idx
        vals = []
        for da, db, de in itertools.product(range(fz), range(fy), range(fx)):
            pz, py, px = fz * z + da, fy * y + db, fx * x + de
            inside = And(pz < Z, py < Y, px < X)
            v_in = self.before.elem(ch, smin(pz, Z - 1), smin(py, Y - 1), smin(px, X - 1))
            vals.append(v_in if mode == "edge" else ite(inside, v_in, self.outside))
        n = len(vals)
        total = vals[0]
        for v in vals[1:]:
            total = total + v
        # round-half-even of total / n in integer arithmetic (n in {1,2,4,8})
        q, rem = c.divmod(total, n)
        rhe = q if n == 1 else ite(2 * rem < n, q, ite(2 * rem > n, q + 1, ite(q % 2 == 0, q, q + 1)))
        hi = int(np.iinfo(dt).max)
        sat = smin(smax(rhe, 0), hi)
        r = result.elem(*idx)
        yield ("out==round_half_even(exact mean of the block completed at the border), saturated", r == sat)
        lo_v, hi_v = vals[0], vals[0]
        for v in vals[1:]:
            lo_v, hi_v = smin(lo_v, v), smax(hi_v, v)
        yield ("result-between-min-and-max-of-contributing-values", And(r >= lo_v, r <= hi_v))

    def raises_when(self, c):
        return []

    bounded_bound = "shapes (Z,Y,X<=5), values from {0,1,2,3,max-1,max} (random fill, 4 seeds), outside value in {0,7,max}"

    def bounded_models(self, cfg, tier):
        dt = cfg[1]
        hi = int(np.iinfo(dt).max) if np.dtype(dt).kind == "u" else 100
        for Z, Y, X in itertools.product((1, 2, 3, 5), repeat=3):
            for seed in range(4):
                for ov in ((0, 7, hi) if cfg[2] == "constant" else (0,)):
                    yield {"Z": Z, "Y": Y, "X": X, "seed": seed, "outside_value": ov}

    def replay(self, model, cfg, ob_name):
        from fractions import Fraction
        from neuroglancer_scripts.downscaling import AveragingDownscaler
        (fx, fy, fz), dt, mode = cfg
        if mode == "edge-ieee":
            big = np.finfo(np.float32).max
            for vals in ((big, big), (big, 0.75 * big), (-big, -big), (2.0 ** 24, 1.0), (1e-45, 1e-45), (3.0, 5.0)):
                a = np.zeros((1, 2, 2, 2), dtype=np.float32)
                a[...] = vals[0]
                a[0, 1, :, :] = vals[1] if fz == 2 else a[0, 1, :, :]
                a[0, :, 1, :] = vals[1] if fy == 2 else a[0, :, 1, :]
                a[0, :, :, 1] = vals[1] if fx == 2 else a[0, :, :, 1]
                with np.errstate(all="ignore"):
                    out = AveragingDownscaler().downscale(a, [fx, fy, fz])
                lo, hi_ = float(min(vals)), float(max(vals))
                if not np.all(np.isfinite(out)) or out.min() < lo or out.max() > hi_:
                    return {"reproduced": True, "detail": f"float32 values {vals} averaged with factors {(fx, fy, fz)}: result {out.ravel()[0]!r} is not within [{lo!r}, {hi_!r}]"}
            return {"reproduced": False, "detail": "float32 averages stay finite and within range"}
        g = lambda n, lo=1, hi=5: min(max(lo, model.get(n, lo)), hi)
        shape = (1, g("Z"), g("Y"), g("X"))
        rng = np.random.default_rng(5 + model.get("seed", 0))
        hi = np.iinfo(dt).max if np.dtype(dt).kind == "u" else 1000
        a = rng.choice([0, 1, 2, 3, int(hi) - 1, int(hi)], size=shape).astype(dt)
        ov = float(min(model.get("outside_value", 0), int(hi))) if mode == "constant" else None
        try:
            r = AveragingDownscaler(ov).downscale(a, [fx, fy, fz])
        except Exception as e:
            return {"reproduced": True, "detail": f"shape {shape} factors {(fx, fy, fz)} dtype {dt}: raised {e!r}"}
        if not self.exact_dt(dt):
            return {"reproduced": False, "detail": "value exactness not claimed for this dtype"}
        for z, y, x in itertools.product(*[range(n) for n in r.shape[1:]]):
            vs = []
            for da, db, de in itertools.product(range(fz), range(fy), range(fx)):
                pz, py, px = fz * z + da, fy * y + db, fx * x + de
                if pz < shape[1] and py < shape[2] and px < shape[3]:
                    vs.append(int(a[0, pz, py, px]))
                elif mode == "edge":
                    vs.append(int(a[0, min(pz, shape[1] - 1), min(py, shape[2] - 1), min(px, shape[3] - 1)]))
                else:
                    vs.append(int(ov))
            m = Fraction(sum(vs), len(vs))
            fl = m.numerator // m.denominator
            fr = m - fl
            exp = fl if fr < Fraction(1, 2) else fl + 1 if fr > Fraction(1, 2) else (fl if fl % 2 == 0 else fl + 1)
            if int(r[0, z, y, x]) != exp:
                return {"reproduced": True, "detail": f"shape {shape} factors {(fx, fy, fz)} dtype {dt}: voxel {(z, y, x)} is {r[0, z, y, x]}, exact rounded mean is {exp} (block {vs})"}
        return {"reproduced": False, "detail": "ok"}

    @staticmethod
    def exact_dt(dt):
        return dt in ("uint8", "uint16", "uint32")


@register
class AveragingCheckFactors(Contract):
    target = DS + "AveragingDownscaler.check_factors"
    props = ("C07",)
    use_at_call_sites = False
    configs = ("3", "2")

    def setup(self, c, cfg):
        from neuroglancer_scripts.downscaling import AveragingDownscaler
        self.f = sym_factors(c)[: int(cfg)]
        self.cfg = cfg
        return (SObj(AveragingDownscaler), self.f), {}

    def bind(self, fn, args, kwargs):
        return {}

    def ensures(self, c, result):
        exp = And(*[Or(x == 1, x == 2) for x in self.f]) if self.cfg == "3" else False
        return [("True-iff-three-factors-in-{1,2}", (result == exp) if isinstance(result, SBool) else (exp if result else Not(exp)))]


@register
class AveragingUnsupported(Contract):
    target = DS + "AveragingDownscaler.downscale"
    name = "AveragingDownscaler.downscale[unsupported-factors]"
    props = ("C07",)
    use_at_call_sites = False

    def setup(self, c, cfg):
        from neuroglancer_scripts.downscaling import AveragingDownscaler
        self.f = sym_factors(c)
        c.assume(Not(And(*[Or(x == 1, x == 2) for x in self.f])))
        return (SObj(AveragingDownscaler, {"padding_mode": "edge", "pad_kwargs": {}}), mk_chunk(c, "uint8"), self.f), {}

    def bind(self, fn, args, kwargs):
        return {}

    def ensures(self, c, result):
        return [("unsupported-factors-are-refused", False)]

    def raises_when(self, c):
        return [(NotImplementedError, True)]


@register
class AveragingInit(Contract):
    target = DS + "AveragingDownscaler.__init__"
    props = ("C07",)
    use_at_call_sites = False
    configs = ("none", "value")

    def setup(self, c, cfg):
        from neuroglancer_scripts.downscaling import AveragingDownscaler
        self.obj = SObj(AveragingDownscaler)
        self.cfg = cfg
        if cfg == "none":
            self.ov = None
        else:
            ov = c.int("outside_value", inp=True)          # integer-valued float, including 0.0
            self.ov = SReal(z3.ToReal(ov.t))
        return (self.obj, self.ov), {}

    def bind(self, fn, args, kwargs):
        return {}

    def ensures(self, c, result):
        a = self.obj.attrs
        if self.cfg == "none":
            return [("no-outside-value:edge-padding", a.get("padding_mode") == "edge" and a.get("pad_kwargs") == {})]
        kw = a.get("pad_kwargs") or {}
        return [("outside-value-given(any value, 0 included):constant-padding-with-that-value",
                 a.get("padding_mode") == "constant" and kw.get("constant_values") is self.ov)]

    def replay(self, model, cfg, ob_name):
        from neuroglancer_scripts.downscaling import AveragingDownscaler
        ov = None if cfg == "none" else float(model.get("outside_value", 0))
        d = AveragingDownscaler(ov)
        ok = (d.padding_mode == "edge") if ov is None else (d.padding_mode == "constant" and d.pad_kwargs.get("constant_values") == ov)
        return {"reproduced": not ok, "detail": f"AveragingDownscaler({ov!r}) -> padding_mode={d.padding_mode!r} pad_kwargs={d.pad_kwargs!r}"}


@register
class GetDownscaler(Contract):
    target = DS + "get_downscaler"
    props = ("C07", "C06")
    use_at_call_sites = False
    configs = (("auto", "image"), ("auto", "segmentation"), ("average", None), ("majority", None), ("stride", None), ("bogus", None))

    def setup(self, c, cfg):
        self.cfg = cfg
        ov = c.int("outside_value", inp=True)
        self.ov = SReal(z3.ToReal(ov.t))
        info = {"type": cfg[1]} if cfg[1] else None
        return (cfg[0],), {"info": info, "options": {"outside_value": self.ov}}

    def bind(self, fn, args, kwargs):
        return {}

    def ensures(self, c, result):
        from neuroglancer_scripts import downscaling as d
        m, t = self.cfg
        want = {"average": d.AveragingDownscaler, "majority": d.MajorityDownscaler, "stride": d.StridingDownscaler}.get(
            m if m != "auto" else ("average" if t == "image" else "stride"))
        out = [("known-method", want is not None), ("class-by-method-or-dataset-type", isinstance(result, SObj) and result.cls is want)]
        if want is d.AveragingDownscaler and isinstance(result, SObj):
            out.append(("outside-value-option-passed-on", (result.attrs.get("pad_kwargs") or {}).get("constant_values") is self.ov))
        return out

    def raises_when(self, c):
        return [(NotImplementedError, self.cfg[0] == "bogus")]
