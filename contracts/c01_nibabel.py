"""C01, file level -- what happens to an image between nibabel and volume_to_precomputed
(volume_reader.volume_file_to_precomputed: the RGB split; volume_reader.nibabel_image_to_precomputed: the
value mapping set up on nibabel's proxy and the transformer that is chosen).

nibabel is an external dependency; its assumed contract (also in evidence `trusted_base`):
  * img.dataobj is an ArrayProxy with attributes _slope/_inter (read back through .slope/.inter); reading
    values (np.asanyarray(proxy) or proxy[slices]) yields  raw * slope + inter  with the slope/inter the
    proxy holds AT THE TIME OF THE READ (identity, no float conversion, when they are 1 and 0);
  * proxy[index] of an RGB file is a structured value with fields R, G, B; np.asarray(proxy) of an RGB file
    is the structured array, field access array[name] is the array of that field;
  * nibabel.Nifti1Image(array, affine) holds exactly that array (dataobj) and affine;
  * nibabel.affines.voxel_sizes as in c16.
Floats are mathematical reals here (regime 'real'); the rounding of the scaled values to the output type is
C11's contract, not re-proved.
"""
import types

import nibabel as _nib
import numpy as np
import z3

from pyvc import core
from pyvc.arrays import SArr
from pyvc.core import And, Not, Or, RaiseSig, SBool, SInt, SObj, SReal, Unsupported, ctx, implies, ite
from pyvc.interp import model
from pyvc.models_numpy import array_from_list
from pyvc.verify import Contract, register

from .c16_metadata import sym_matrix

VR = "neuroglancer_scripts.volume_reader."
RGB = np.dtype([("R", "u1"), ("G", "u1"), ("B", "u1")])


# --------------------------------------------------------------------------- models of the nibabel objects

class SStructArr:
    """np.asarray(proxy) of an RGB file: a structured array given by one array per field"""
    _pyvc_symbolic = True

    def __init__(self, fields, shape, dtype):
        self.fields, self.shape, self.dtype = fields, tuple(shape), dtype
        self.ndim = len(shape)

    def getitem(self, key):
        if isinstance(key, str):
            if key not in self.fields:
                raise RaiseSig(ValueError(f"no field of name {key}"))
            return self.fields[key]
        if isinstance(key, tuple) and all(isinstance(k, int) for k in key) and len(key) == self.ndim:
            return np.zeros((), self.dtype)[()]            # a structured scalar: only its dtype is used
        raise Unsupported("structured array indexing form")

    def _pyvc_asarray(self, dtype=None):
        if dtype is not None:
            raise Unsupported("asarray(structured, dtype)")
        return self

    def view(self, *a, **k):
        # NumPy: a structured array loaded by nibabel is Fortran-ordered; changing the item size then needs a
        # contiguous last axis (probed by tools/model_probes.py on the installed NumPy)
        raise RaiseSig(ValueError("To change to a dtype of a different size, the last axis must be contiguous"))

    def truth(self):
        raise RaiseSig(ValueError("truth value of an array"))


class SProxy:
    """nibabel ArrayProxy: symbolic raw data and slope/inter; see the module docstring"""
    _pyvc_symbolic = True

    def __init__(self, raw, slope, inter, disk_dtype, struct=None):
        self.raw, self._slope, self._inter = raw, slope, inter
        self.dtype = np.dtype(disk_dtype)
        self.struct = struct
        self.shape = struct.shape if struct is not None else raw.shape
        self.ndim = len(self.shape)
        self.reads = []

    @property
    def slope(self):
        return self._slope

    @property
    def inter(self):
        return self._inter

    def _identity(self):
        """nibabel skips the scaling, and keeps the on-disk type, exactly when slope == 1 and inter == 0 AT THE
        TIME OF THE READ (decided by forking when the two are symbolic)"""
        s, i = self._slope, self._inter
        if isinstance(s, (int, float)) and isinstance(i, (int, float)):
            return (s, i) == (1, 0)
        return ctx().interp.truth(And(_real(s) == 1, _real(i) == 0))

    def scaled_dtype(self):
        return self.dtype if self._identity() else np.dtype(np.float64)

    def getitem(self, key):
        if self.struct is not None:
            return self.struct.getitem(key)
        if isinstance(key, tuple) and all(isinstance(k, int) for k in key) and len(key) == self.ndim:
            return np.zeros((), self.scaled_dtype())[()]          # only .dtype of the probe value is used
        return self.loaded().getitem(key) if hasattr(self.loaded(), "getitem") else self.loaded()[key]

    def loaded(self):
        """the values as read NOW (captures the current slope / inter)"""
        if self.struct is not None:
            return self.struct
        s, i = self._slope, self._inter
        self.reads.append((s, i))
        if self._identity():
            return self.raw
        raw = self.raw.frozen()
        return SArr.from_fn(lambda *idx: _real(raw.elem(*idx)) * s + i, raw.shape, np.float64)

    def _pyvc_asarray(self, dtype=None):
        if dtype is not None:
            raise Unsupported("asarray(proxy, dtype)")
        return self.loaded()

    def truth(self):
        return True


def _real(v):
    if isinstance(v, SReal):
        return v
    if isinstance(v, SInt):
        return SReal(z3.ToReal(v.t))
    return v


@model(_nib.Nifti1Image)
def m_nifti1image(interp, dataobj, affine, *a, **k):
    ctx().trust("nibabel.Nifti1Image(array, affine): an image whose dataobj is that array and whose affine is that affine")
    shape = tuple(dataobj.shape)
    return types.SimpleNamespace(dataobj=dataobj, affine=affine, header=types.SimpleNamespace(get_data_shape=lambda: shape),
                                 _built_by_Nifti1Image=True)


@model(_nib.load)
def m_nib_load(interp, filename, *a, **k):
    img = ctx().ghost.get("nib_file")
    if img is None:
        raise Unsupported("nibabel.load without a modelled file")
    return img


@model(np.allclose)
def m_allclose(interp, a, b, *args, **kw):
    from pyvc.interp import contains_sym
    if not contains_sym((a, b)) and not isinstance(a, SArr) and not isinstance(b, SArr):
        return bool(np.allclose(a, b, *args, **kw))
    ctx().trust("np.allclose: some boolean (only used to decide whether a warning is logged)")
    return ctx().bool("allclose")


# --------------------------------------------------------------------------- call-site abstractions

class Logged(Contract):
    props = ()
    has_body = False
    result = None

    def setup(self, c, cfg):
        raise NotImplementedError

    def apply(self, interp, fn, args, kwargs):
        c = ctx()
        c.calls_log.append((self.target, {"args": args, "kwargs": kwargs}, self.result))
        return self.result() if callable(self.result) else self.result


class AccessorForUrlAbs(Logged):
    target = "neuroglancer_scripts.accessor.get_accessor_for_url"
    name = "get_accessor_for_url[call-site]"
    result = staticmethod(lambda: "<accessor>")


class IOForExistingAbs(Logged):
    target = "neuroglancer_scripts.precomputed_io.get_IO_for_existing_dataset"
    name = "get_IO_for_existing_dataset[call-site]"
    result = staticmethod(lambda: "<writer>")


class ImageToPrecomputedAbs(Logged):
    target = VR + "nibabel_image_to_precomputed"
    name = "nibabel_image_to_precomputed[call-site]"
    result = staticmethod(lambda: None)


class VolumeToPrecomputedAbs(Logged):
    target = VR + "volume_to_precomputed"
    name = "volume_to_precomputed[call-site]"
    result = staticmethod(lambda: None)


class TransformerAbs(Logged):
    target = "neuroglancer_scripts.data_types.get_chunk_dtype_transformer"
    name = "get_chunk_dtype_transformer[call-site]"
    result = staticmethod(lambda: "<transformer>")


# --------------------------------------------------------------------------- volume_file_to_precomputed

def mk_shape(c):
    shape = tuple(c.int(f"dim{k}", inp=True) for k in range(3))
    for s in shape:
        c.assume(s >= 1)
    return shape


@register
class VolumeFileToPrecomputed(Contract):
    """RGB files: the image handed on has a trailing channel axis with voxel (x,y,z,c) == field c of the
    structured voxel (x,y,z); other files are handed on untouched; options are passed through"""
    target = VR + "volume_file_to_precomputed"
    props = ("C01",)
    use_at_call_sites = False
    configs = ("rgb", "uint8", "float32")

    def local_contracts_for(self, cfg):
        return {k.target: k() for k in (AccessorForUrlAbs, IOForExistingAbs, ImageToPrecomputedAbs)}

    def setup(self, c, cfg):
        self.cfg = cfg
        shape = mk_shape(c)
        self.shape = shape
        A = array_from_list(sym_matrix(c, "A"), np.float64)
        if cfg == "rgb":
            self.fields = {n: SArr.fresh(c, "field_" + n, np.uint8, shape) for n in RGB.names}
            proxy = SProxy(None, 1.0, 0.0, RGB, struct=SStructArr(self.fields, shape, RGB))
        else:
            proxy = SProxy(SArr.fresh(c, "raw", cfg, shape, kind="real" if cfg == "float32" else "int"), 1.0, 0.0, cfg)
        self.img = types.SimpleNamespace(dataobj=proxy, affine=A, header=types.SimpleNamespace(get_data_shape=lambda: shape))
        c.ghost["nib_file"] = self.img
        self.opts = {"flat": True}
        return ("volume.nii", "/data/dataset"), {"ignore_scaling": c.bool("ignore_scaling", inp=True), "input_min": None, "input_max": None,
                                                 "load_full_volume": True, "options": self.opts}

    def bind(self, fn, args, kwargs):
        return {}

    def ensures(self, c, result):
        calls = [x for x in c.calls_log if x[0] == ImageToPrecomputedAbs.target]
        yield ("hands-one-image-to-nibabel_image_to_precomputed", len(calls) == 1)
        if len(calls) != 1:
            return
        args = calls[0][1]["args"]
        img = args[0]
        acc = [x for x in c.calls_log if x[0] == AccessorForUrlAbs.target]
        yield ("accessor-for-the-destination-with-the-options", len(acc) == 1 and acc[0][1]["args"][0] == "/data/dataset" and acc[0][1]["args"][1] is self.opts)
        yield ("writer-is-the-IO-of-that-accessor", args[1] == "<writer>")
        yield ("same-affine", img.affine is self.img.affine)
        if self.cfg != "rgb":
            yield ("non-RGB-image-handed-on-untouched", img is self.img)
            return
        d = img.dataobj
        ok = isinstance(d, SArr) and d.ndim == 4
        yield ("RGB:4-D-array-with-a-trailing-channel-axis", ok)
        if not ok:
            return
        yield ("RGB:shape==(X,Y,Z,3)", And(*[d.shape[k] == self.shape[k] for k in range(3)], d.shape[3] == 3))
        yield ("RGB:dtype-uint8", d.dtype == np.dtype(np.uint8))
        x, y, z = (c.int(n, inp=True) for n in "xyz")
        c.assume(And(x >= 0, x < self.shape[0], y >= 0, y < self.shape[1], z >= 0, z < self.shape[2]))
        for k, n in enumerate(RGB.names):
            yield (f"RGB:voxel(x,y,z,{k})==field-{n}-of-voxel(x,y,z)", d.elem(x, y, z, k) == self.fields[n].elem(x, y, z))

    def replay(self, model, cfg, ob_name):
        return native_rgb_check()


def native_rgb_check():
    import os
    import tempfile
    from unittest.mock import patch
    from neuroglancer_scripts import volume_reader
    vals = np.arange(2 * 3 * 4 * 3, dtype=np.uint8).reshape(2, 3, 4, 3)
    data = vals.copy().view(RGB).reshape(2, 3, 4)
    with tempfile.TemporaryDirectory() as td:
        p = os.path.join(td, "rgb.nii")
        _nib.save(_nib.Nifti1Image(data, np.eye(4)), p)
        with patch("neuroglancer_scripts.precomputed_io.get_IO_for_existing_dataset", return_value=None), \
                patch("neuroglancer_scripts.volume_reader.nibabel_image_to_precomputed") as m:
            try:
                volume_reader.volume_file_to_precomputed(p, td)
            except Exception as e:
                return {"reproduced": True, "detail": f"RGB NIfTI file of shape (2,3,4): {e!r}"}
            a = np.asarray(m.call_args[0][0].dataobj)
    if a.shape != (2, 3, 4, 3) or not np.array_equal(a, vals):
        return {"reproduced": True, "detail": f"RGB NIfTI file of shape (2,3,4): image handed on has shape {a.shape}, equal to the fields: {a.shape == vals.shape and bool(np.array_equal(a, vals))}"}
    return {"reproduced": False, "detail": "RGB fields end up on the trailing axis"}


# --------------------------------------------------------------------------- nibabel_image_to_precomputed

@register
class NibabelImageToPrecomputed(Contract):
    """the value mapping installed on the proxy before any value is read:
       v_out(raw) == ((raw*slope + inter) - input_min) * (omax - omin)/(input_max - input_min) + omin   when --input-max is given
       v_out(raw) ==   raw*slope + inter                                                                 otherwise
       with slope, inter := 1, 0 under --ignore-scaling; the transformer is built for (type of those values,
       info data_type); the volume handed to volume_to_precomputed is read with exactly that mapping, in
       full or as the proxy itself (--mmap)"""
    target = VR + "nibabel_image_to_precomputed"
    props = ("C01",)
    use_at_call_sites = False
    configs = tuple((out, mode, full) for out in ("uint8", "uint16", "float32")
                    for mode in ("plain", "ignore_scaling", "minmax", "max-only", "minmax+ignore_scaling")
                    for full in (True, False))

    def local_contracts_for(self, cfg):
        return {k.target: k() for k in (VolumeToPrecomputedAbs, TransformerAbs)}

    def setup(self, c, cfg):
        out, mode, full = cfg
        self.cfg = cfg
        shape = mk_shape(c)
        self.raw = SArr.fresh(c, "raw", np.int16, shape)
        self.slope0, self.inter0 = c.real("scl_slope", inp=True), c.real("scl_inter", inp=True)
        self.proxy = SProxy(self.raw, self.slope0, self.inter0, np.int16)
        A = array_from_list(sym_matrix(c, "A"), np.float64)
        img = types.SimpleNamespace(dataobj=self.proxy, affine=A, header=types.SimpleNamespace(get_data_shape=lambda: shape))
        info = {"type": "image", "data_type": out, "num_channels": 1,
                "scales": [{"key": "full", "size": list(shape), "chunk_sizes": [[64, 64, 64]], "resolution": [1000.0, 1000.0, 1000.0],
                            "voxel_offset": [0, 0, 0], "encoding": "raw"}]}
        self.writer = types.SimpleNamespace(info=info)
        self.imin = self.imax = None
        kw = {"ignore_scaling": "ignore_scaling" in mode, "load_full_volume": full, "input_min": None, "input_max": None}
        if "max" in mode:
            self.imax = c.real("input_max", inp=True)
            kw["input_max"] = self.imax
            if "minmax" in mode:
                self.imin = c.real("input_min", inp=True)
                kw["input_min"] = self.imin
                c.assume(self.imax != self.imin)
            else:
                c.assume(self.imax != 0)
        self.shape = shape
        return (img, self.writer), kw

    def bind(self, fn, args, kwargs):
        return {}

    def ensures(self, c, result):
        out, mode, full = self.cfg
        tr = [x for x in c.calls_log if x[0] == TransformerAbs.target]
        vp = [x for x in c.calls_log if x[0] == VolumeToPrecomputedAbs.target]
        yield ("one-transformer,one-conversion", len(tr) == 1 and len(vp) == 1)
        if len(tr) != 1 or len(vp) != 1:
            return
        s0, i0 = (1.0, 0.0) if "ignore_scaling" in mode else (self.slope0, self.inter0)
        ps, pi = self.proxy._slope, self.proxy._inter
        r = c.real("raw_value", inp=True)
        if self.imax is not None:
            imin = self.imin if self.imin is not None else 0
            omin, omax = (float(np.iinfo(out).min), float(np.iinfo(out).max)) if np.dtype(out).kind in "iu" else (0.0, 1.0)
            want = ((r * s0 + i0) - imin) * ((omax - omin) / (self.imax - imin)) + omin
        else:
            want = r * s0 + i0
        # the type of the values nibabel hands out: the on-disk type when the installed mapping is the identity
        # (decided on this path), float64 otherwise
        in_dtype = self.proxy.scaled_dtype()
        yield ("mapping-installed-on-the-proxy:raw*slope'+inter'==documented-value-mapping", r * ps + pi == want)
        ta = tr[0][1]["args"]
        yield ("transformer-built-for-(type of the mapped values, info data_type)", ta[0] == in_dtype and ta[1] == np.dtype(out))
        va, vk = vp[0][1]["args"], vp[0][1]["kwargs"]
        yield ("conversion-gets-the-writer-and-that-transformer", va[0] is self.writer and vk.get("chunk_transformer") == "<transformer>")
        vol = va[1]
        if full:
            yield ("full-load:values-read-once,after-the-mapping-was-installed", len(self.proxy.reads) == 1 and vol is not self.proxy)
            if self.proxy.reads:
                rs, ri = self.proxy.reads[0]
                yield ("full-load:read-with-the-installed-mapping", And(_eq(rs, ps), _eq(ri, pi)))
        else:
            yield ("mmap:the-proxy-itself-is-handed-on(values read per chunk with the installed mapping)", vol is self.proxy and not self.proxy.reads)

    def check_raise(self, c, exc, b, cfg):
        c.prove(f"raises-nothing:{type(exc).__name__}", False, kind="exc")


def _eq(a, b):
    if isinstance(a, float) and isinstance(b, float):
        return a == b
    return _real(a) == _real(b) if not (isinstance(a, float) or isinstance(b, float)) else (a == b)


def native_identity_rescale_check():
    """--input-min 0 --input-max 255 on a uint8 volume written as uint8: the combined mapping is the identity"""
    import json
    import os
    import tempfile
    from neuroglancer_scripts import accessor, precomputed_io, volume_reader
    with tempfile.TemporaryDirectory() as td:
        p = os.path.join(td, "a.nii")
        data = np.arange(24, dtype=np.uint8).reshape(2, 3, 4)
        _nib.save(_nib.Nifti1Image(data, np.eye(4)), p)
        dest = os.path.join(td, "out")
        os.makedirs(dest)
        info = {"type": "image", "data_type": "uint8", "num_channels": 1, "scales": [
            {"key": "full", "size": [2, 3, 4], "chunk_sizes": [[64, 64, 64]], "resolution": [1e6, 1e6, 1e6], "voxel_offset": [0, 0, 0], "encoding": "raw"}]}
        json.dump(info, open(os.path.join(dest, "info"), "w"))
        try:
            volume_reader.volume_file_to_precomputed(p, dest, input_min=0, input_max=255)
            io_ = precomputed_io.get_IO_for_existing_dataset(accessor.get_accessor_for_url(dest))
            got = io_.read_chunk("full", (0, 2, 0, 3, 0, 4))[0].transpose(2, 1, 0)
        except Exception as e:
            return {"reproduced": True, "detail": f"uint8 volume, --input-min 0 --input-max 255, data_type uint8 (identity mapping): {type(e).__name__} {e}"}
    if not np.array_equal(got, data):
        return {"reproduced": True, "detail": "identity rescaling changed voxel values"}
    return {"reproduced": False, "detail": "identity rescaling converts correctly"}


NibabelImageToPrecomputed.replay = lambda self, model, cfg, ob_name: native_identity_rescale_check()


def native_mapping_check():
    """int16 NIfTI files with and without header scaling, converted with several --input-min/--input-max
    choices to uint8 and float32: every stored voxel against the documented value mapping computed with
    exact fractions (round half to even, saturate)"""
    import contextlib
    import io
    import json
    import os
    import struct
    import tempfile
    from fractions import Fraction
    from neuroglancer_scripts import accessor, precomputed_io, volume_reader
    raw = (np.arange(24, dtype=np.int16).reshape(2, 3, 4) * 3 - 20)

    def rhe(fr):
        fl = fr.numerator // fr.denominator
        d = fr - fl
        return fl if d < Fraction(1, 2) else (fl + 1 if d > Fraction(1, 2) else (fl if fl % 2 == 0 else fl + 1))
    for slope, inter in ((1.0, 0.0), (2.0, 3.0), (0.5, -1.0)):
        for imin, imax in ((None, None), (None, 50), (-10, 40), (0, 255), (-5, 0)):
            for out in ("uint8", "float32"):
                for ignore in (False, True):
                    with tempfile.TemporaryDirectory() as td, contextlib.redirect_stderr(io.StringIO()):
                        p = os.path.join(td, "a.nii")
                        _nib.save(_nib.Nifti1Image(raw, np.eye(4)), p)
                        b = bytearray(open(p, "rb").read())
                        b[112:120] = struct.pack("<ff", slope, inter)
                        open(p, "wb").write(b)
                        dest = os.path.join(td, "out")
                        os.makedirs(dest)
                        info = {"type": "image", "data_type": out, "num_channels": 1, "scales": [
                            {"key": "full", "size": [2, 3, 4], "chunk_sizes": [[64, 64, 64]], "resolution": [1e6, 1e6, 1e6],
                             "voxel_offset": [0, 0, 0], "encoding": "raw"}]}
                        json.dump(info, open(os.path.join(dest, "info"), "w"))
                        label = f"int16 file scl_slope={slope} scl_inter={inter}, input_min={imin} input_max={imax} ignore_scaling={ignore} -> {out}"
                        try:
                            volume_reader.volume_file_to_precomputed(p, dest, ignore_scaling=ignore, input_min=imin, input_max=imax)
                            io_ = precomputed_io.get_IO_for_existing_dataset(accessor.get_accessor_for_url(dest))
                            got = io_.read_chunk("full", (0, 2, 0, 3, 0, 4))[0].transpose(2, 1, 0)
                        except Exception as e:
                            return {"reproduced": True, "detail": f"{label}: {type(e).__name__} {e}"}
                    s_, i_ = (Fraction(1), Fraction(0)) if ignore else (Fraction(slope), Fraction(inter))
                    for idx in np.ndindex(raw.shape):
                        v = Fraction(int(raw[idx])) * s_ + i_
                        if imax is not None:
                            lo = Fraction(imin if imin is not None else 0)
                            omin, omax = (Fraction(0), Fraction(255)) if out == "uint8" else (Fraction(0), Fraction(1))
                            v = (v - lo) * (omax - omin) / (Fraction(imax) - lo) + omin
                        if out == "uint8":
                            want = min(max(rhe(v), 0), 255)
                            ok = int(got[idx]) == want
                            fl = v.numerator // v.denominator
                            if not ok and abs(v - fl - Fraction(1, 2)) < Fraction(1, 10 ** 6):
                                # within float error of a tie (the scaling is computed in float64): either neighbour
                                ok = int(got[idx]) in (min(max(fl, 0), 255), min(max(fl + 1, 0), 255))
                        else:
                            want = float(v)
                            ok = abs(float(got[idx]) - want) <= 1e-5 * max(1.0, abs(want))
                        if not ok:
                            return {"reproduced": True, "detail": f"{label}: raw value {int(raw[idx])} stored as {got[idx]} instead of {want}"}
    return {"reproduced": False, "detail": "every stored voxel follows the documented value mapping"}


def _c01_replay(self, model, cfg, ob_name):
    r = native_identity_rescale_check()
    return r if r["reproduced"] else native_mapping_check()


NibabelImageToPrecomputed.replay = _c01_replay
