"""Obligations shared by every function that writes a whole chunk grid (C01, C06, C13, C15):
coverage (every grid cell is written, exactly once) through the map-rule loop variables."""
import itertools

from pyvc import core
from pyvc.core import And, Or, SBool, SInt, ctx, ite


def ceil_div_term(c, a, b):
    q, r = c.divmod(a, b)
    return ite(r == 0, q, q + 1)


def grid_coverage(c, entry, size, cs):
    """entry = (key, coords, chunk, loop_vars, loop_ranges) logged by the write_chunk contract for
    the arbitrary iteration. Claim: the chunk minima are cs * (a permutation of the loop indices)
    and each loop runs over range(ceil(size/cs)) of its axis -- so, with range/ndindex visiting every
    index tuple exactly once, every cell of the grid is written exactly once."""
    key, cc, chunk, lvs, lrs = entry
    if len(lvs) < 3:
        return False
    lvs, lrs = lvs[-3:], lrs[-3:]
    mins = (cc[0], cc[2], cc[4])
    alts = []
    for perm in itertools.permutations(range(3)):
        parts = []
        for a in range(3):
            v = lvs[perm[a]]
            lo, hi = lrs[perm[a]]
            parts += [mins[a] == cs[a] * v, lo == 0, hi == ceil_div_term(c, size[a], cs[a])]
        alts.append(And(*parts))
    return Or(*alts)


from pyvc.verify import Lemma, register  # noqa: E402


@register
class GridTiling(Lemma):
    """Per-axis tiling lemma used by the map rule for chunk-writing loops: the cells
    [cs*i, min(cs*(i+1), size)) for 0 <= i < ceil(size/cs) are non-empty, inside the volume,
    pairwise disjoint and cover every voxel (so per-chunk in-place work and per-chunk writes of
    different iterations never touch the same voxel, and all voxels are produced)."""
    name = "lemma:grid-cells-tile-the-axis"
    props = ("C01", "C06", "C13", "C15", "C20")

    def run(self, c, cfg):
        size, cs, i, j, v = (c.int(n, inp=True) for n in ("size", "cs", "i", "j", "v"))
        c.assume(And(size >= 1, cs >= 1))
        n = ceil_div_term(c, size, cs)
        c.assume(And(i >= 0, i < n, j >= 0, j < n))
        lo_i, hi_i = cs * i, core.smin(cs * (i + 1), size)
        lo_j, hi_j = cs * j, core.smin(cs * (j + 1), size)
        c.prove("cell-non-empty-and-inside", And(lo_i >= 0, lo_i < hi_i, hi_i <= size))
        c.prove("distinct-cells-are-disjoint", core.implies(i < j, hi_i <= lo_j))
        q, r = c.divmod(v, cs)
        c.prove("every-voxel-lies-in-the-cell-of-index-v//cs",
                core.implies(And(v >= 0, v < size), And(q >= 0, q < n, cs * q <= v, v < core.smin(cs * (q + 1), size))))
        c.prove("cell-sizes-are-the-decoded-extents", hi_i - lo_i == core.smin(cs, size - cs * i))
