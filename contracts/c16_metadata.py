"""C16 -- generated metadata and transform place the image correctly in space
(volume_reader.nibabel_image_to_info, transform.nifti_to_neuroglancer_transform,
transform.matrix_as_compact_urlsafe_json). Real regime: floats are treated as mathematical reals
(an explicitly unchecked assumption); nibabel is an external dependency with assumed contracts."""
import itertools
import types

import numpy as np
import z3

from pyvc import core
from pyvc.arrays import SArr
from pyvc.core import And, Not, Or, RaiseSig, SBool, SInt, SObj, SReal, Unsupported, ctx, implies, ite
from pyvc.fsmodel import SJsonText
from pyvc.interp import model
from pyvc.models_numpy import array_from_list
from pyvc.verify import Contract, Lemma, register

TR = "neuroglancer_scripts.transform."
VR = "neuroglancer_scripts.volume_reader."


def sym_matrix(c, name, rows=4, cols=4, affine_last_row=True):
    M = [[c.real(f"{name}{i}{j}", inp=True) for j in range(cols)] for i in range(rows)]
    if affine_last_row and rows == 4:
        M[3] = [0.0, 0.0, 0.0, 1.0]
    return M


@register
class NiftiToNeuroglancer(Contract):
    target = TR + "nifti_to_neuroglancer_transform"
    props = ("C16",)

    def setup(self, c, cfg):
        self.M = sym_matrix(c, "M")
        self.vs = [c.real(f"vs{k}", inp=True) for k in range(3)]
        self.arr = array_from_list(self.M, np.float64)
        self._before = self.arr.frozen()
        return (self.arr, list(self.vs)), {}

    def bind(self, fn, args, kwargs):
        return {"M": args[0], "vs": args[1]}

    def ensures(self, c, result, M=None, vs=None):
        before = getattr(self, "_before", None) or M          # old(M): at call sites the argument itself
        Mr = [[before.elem(i, j) for j in range(4)] for i in range(4)]
        if isinstance(vs, SArr):
            vs = [vs.elem(k) for k in range(3)]
        yield ("returns-4x4", isinstance(result, SArr) and result.shape == (4, 4))
        for i in range(3):
            exp = Mr[i][3] - (Mr[i][0] * 0.5 * vs[0] + Mr[i][1] * 0.5 * vs[1] + Mr[i][2] * 0.5 * vs[2])
            yield (f"translation'[{i}]==translation-R@(voxel_size/2)", result.elem(i, 3) == exp)
        for i in range(4):
            for j in range(3):
                yield (f"entry[{i}][{j}]-unchanged", result.elem(i, j) == Mr[i][j])
        yield ("last-row-translation-entry-unchanged", result.elem(3, 3) == Mr[3][3])
        for i in range(4):
            for j in range(4):
                yield (f"input-matrix-not-modified[{i}][{j}]", M.elem(i, j) == Mr[i][j])

    def fresh_result(self, c, M=None, vs=None):
        return array_from_list([[c.real(f"T{i}{j}") for j in range(4)] for i in range(4)], np.float64)


import nibabel as _nib  # noqa: E402
import nibabel.affines  # noqa: E402,F401
import nibabel.orientations  # noqa: E402,F401


@model(_nib.affines.voxel_sizes)
def m_voxel_sizes(interp, affine):
    c = ctx()
    if not isinstance(affine, SArr):
        return _nib.affines.voxel_sizes(affine)
    c.trust("nibabel.affines.voxel_sizes: positive norms of the first three columns of the affine")
    out = []
    for k in range(3):
        v = c.real(f"voxel_size{k}")
        c.assume(v > 0)
        c.assume(v * v == affine.elem(0, k) * affine.elem(0, k) + affine.elem(1, k) * affine.elem(1, k) + affine.elem(2, k) * affine.elem(2, k))
        out.append(v)
    c.ghost["voxel_sizes"] = out
    return array_from_list(out, np.float64)          # nibabel returns an ndarray (not a list)


@model(_nib.orientations.aff2axcodes)
def m_aff2axcodes(interp, aff, *a, **k):
    return ("?", "?", "?")


class _Proxy:
    """nibabel ArrayProxy as far as the code under contract uses it (assumed contract, probed natively by
    tools/model_probes.py): `.dtype` is the ON-DISK type; indexing applies the header scaling, which
    returns the on-disk type when (slope, inter) == (1, 0) and float64 otherwise."""

    def __init__(self, dtype, rank, slope=1.0, inter=0.0):
        self.dtype, self._rank = np.dtype(dtype), rank
        self._slope, self._inter = slope, inter

    def __getitem__(self, idx):
        assert len(idx) == self._rank
        if (self._slope, self._inter) == (1.0, 0.0) or self.dtype.names is not None:
            return np.zeros((), self.dtype)[()]
        return np.float64(0.0)


def mk_img(c, dtype, rank, slope=1.0, inter=0.0):
    shape = tuple(c.int(f"dim{k}", inp=True) for k in range(rank))
    for s in shape:
        c.assume(s >= 1)
    A = sym_matrix(c, "A")
    # get_data_dtype (image and header): the ON-DISK type, whatever the header scaling (assumed contract, nibabel docs)
    img = types.SimpleNamespace(header=types.SimpleNamespace(get_data_shape=lambda: shape, get_data_dtype=lambda: np.dtype(dtype)),
                                dataobj=_Proxy(dtype, rank, slope, inter), get_data_dtype=lambda: np.dtype(dtype),
                                shape=shape, affine=array_from_list(A, np.float64))
    return img, shape, A


RGB = np.dtype([("R", "u1"), ("G", "u1"), ("B", "u1")])


@register
class NibabelImageToInfo(Contract):
    target = VR + "nibabel_image_to_info"
    props = ("C16",)
    use_at_call_sites = False
    timeout_ms = 60000
    configs = (("uint8", 3, None), ("uint16", 4, None), ("float32", 3, None), ("int16", 3, None), ("float64", 4, None),
               ("rgb", 3, None), ("uint8", 3, "2,3,1"), ("uint8", 3, "1,0,0|gzip"), ("uint16", 3, "x,y"),
               ("int32", 3, "input_max"), ("uint8", 3, "ignore_scaling"),
               # header scaling present (scl_slope 2, scl_inter 1): the values are float64 unless scaling is ignored
               ("uint8", 3, None, "scaled"), ("uint16", 4, None, "scaled"), ("float32", 3, None, "scaled"),
               ("int16", 3, "ignore_scaling", "scaled"), ("uint16", 3, "input_max", "scaled"))

    def setup(self, c, cfg):
        dt, rank, extra = cfg[:3]
        self.scaled = len(cfg) > 3
        self.cfg = cfg[:3]
        self.img, self.shape, self.A = mk_img(c, RGB if dt == "rgb" else dt, rank, *((2.0, 1.0) if self.scaled else (1.0, 0.0)))
        kw = {"options": {}}
        if extra and extra[0].isdigit():
            sh, _, gz = extra.partition("|")
            kw["options"] = {"sharding": sh, "gzip": bool(gz)}
        elif extra == "x,y":
            kw["options"] = {"sharding": "x,y"}
        elif extra == "input_max":
            kw["input_max"] = 255
        elif extra == "ignore_scaling":
            kw["ignore_scaling"] = True
        return (self.img,), kw

    def bind(self, fn, args, kwargs):
        return {}

    def ensures(self, c, result):
        import json
        from neuroglancer_scripts.data_types import NG_DATA_TYPES
        dt, rank, extra = self.cfg
        yield ("returns-(info text, transform, dtype, imperfect flag)", isinstance(result, tuple) and len(result) == 4)
        text, T, in_dtype, imperfect = result
        info = c.interp.call(json.loads, (text,)) if isinstance(text, str) else (text.value if isinstance(text, SJsonText) else None)
        yield ("info-text-parses-as-JSON", isinstance(info, dict))
        if not isinstance(info, dict):
            return
        sc = info["scales"][0]
        for k in range(3):
            yield (f"size[{k}]==header-shape[{k}]", sc["size"][k] == self.shape[k])
        exp_ch = 3 if dt == "rgb" else (self.shape[3] if rank == 4 else 1)
        yield ("num_channels(4th dimension, 3 for RGB, else 1)", info["num_channels"] == exp_ch)
        eff = "float64" if extra == "input_max" else ("uint8" if dt == "rgb" else dt)
        if self.scaled and extra != "ignore_scaling":
            eff = "float64"
        if extra == "ignore_scaling":
            px = self.img.dataobj
            yield ("ignore_scaling-resets-the-proxy-to-slope-1-inter-0", (px._slope, px._inter) == (1.0, 0.0))
        holds = eff in NG_DATA_TYPES
        yield ("data_type-holds-the-values-or-is-flagged", (info["data_type"] == eff and imperfect is False) if holds
               else (info["data_type"] == "float32" and imperfect is True))
        vs = c.ghost["voxel_sizes"]
        for k in range(3):
            yield (f"resolution[{k}]==voxel-size-in-nanometres", sc["resolution"][k] == vs[k] * 1000000)
        yield ("voxel_offset-zero,encoding-raw", sc["voxel_offset"] == [0, 0, 0] and sc["encoding"] == "raw")
        if extra and extra[0].isdigit():
            sh, _, gz = extra.partition("|")
            mb, sb, pb = (int(x) for x in sh.split(","))
            enc = "gzip" if gz else "raw"
            yield ("sharding-spec-from-the-option-string",
                   sc.get("sharding") == {"@type": "neuroglancer_uint64_sharded_v1", "minishard_bits": mb, "shard_bits": sb,
                                          "hash": "identity", "minishard_index_encoding": enc, "data_encoding": enc, "preshift_bits": pb})
        else:
            yield ("no-sharding-unless-asked", "sharding" not in sc)
        # the transform: corner-based Neuroglancer coordinates -> the affine's voxel-centre position, in nm
        rows = T
        yield ("transform-is-4-rows-of-4", isinstance(rows, list) and len(rows) == 4 and all(len(r) == 4 for r in rows))
        i = [c.real(f"voxel_index{k}", inp=True) for k in range(3)]
        A = self.A
        for r in range(3):
            ng = rows[r][0] * (vs[0] * 1000000 * (i[0] + 0.5)) + rows[r][1] * (vs[1] * 1000000 * (i[1] + 0.5)) \
                + rows[r][2] * (vs[2] * 1000000 * (i[2] + 0.5)) + rows[r][3]
            phys = (A[r][0] * i[0] + A[r][1] * i[1] + A[r][2] * i[2] + A[r][3]) * 1000000
            yield (f"T@[res*(i+1/2);1]=={'xyz'[r]}-of-affine@[i;1]-in-nm", ng == phys)
        yield ("last-row-[0,0,0,1]", And(rows[3][0] == 0, rows[3][1] == 0, rows[3][2] == 0, rows[3][3] == 1))

    def raises_when(self, c):
        return [(Exception, self.cfg[2] == "x,y")]


@register
class MatrixAsCompactJson(Contract):
    target = TR + "matrix_as_compact_urlsafe_json"
    props = ("C16",)
    use_at_call_sites = False

    N = 2      # the function treats elements independently (nested comprehension): verified on a 2x2 matrix of
    #            arbitrary reals (3 outcomes per element -> 81 paths); the 4x4 case only multiplies paths

    def setup(self, c, cfg):
        self.M = [[c.real(f"m{i}{j}", inp=True) for j in range(self.N)] for i in range(self.N)]
        return ([list(r) for r in self.M],), {}

    def bind(self, fn, args, kwargs):
        return {}

    def ensures(self, c, result):
        yield ("returns-json-text", isinstance(result, SJsonText))
        if not isinstance(result, SJsonText):
            return
        v = result.value
        yield ("compact-url-safe-separators", result.kw.get("separators") == ("_", ":") and result.kw.get("indent") is None)
        n = self.N
        yield ("same-shape", isinstance(v, list) and len(v) == n and all(isinstance(r, list) and len(r) == n for r in v))
        for i in range(n):
            for j in range(n):
                yield (f"element[{i}][{j}]-numerically-equal-to-the-input", v[i][j] == self.M[i][j])


# ---- native replay adapters (scenario sweeps on the real code, contracts/_native.py)

from . import _native  # noqa: E402


def _use(fn):
    return lambda self, model, cfg, ob_name: fn()


NiftiToNeuroglancer.replay = _use(_native.transform_sweep)
NibabelImageToInfo.replay = lambda self, model, cfg, ob_name: (_native.info_dtype_sweep() if "data_type" in ob_name else _native.transform_sweep())
