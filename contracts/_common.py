"""Shared builders and spec functions for the contract files."""
import z3

from pyvc import core
from pyvc.core import SBool, SInt, SObj, SU64, And, Or, Not, implies, ite, smin, smax

BV64 = lambda v: z3.BitVecVal(v, 64)
ALL1 = BV64((1 << 64) - 1)


def low(n):
    """spec: mask of the n low bits of a 64-bit word (n is a BV64 term), saturating at 64"""
    return z3.If(z3.UGE(n, BV64(64)), ALL1, (BV64(1) << n) - BV64(1))


def lshr_sat(x, n):
    """x >> n with the mathematical meaning (0 when n >= 64)"""
    return z3.If(z3.UGE(n, BV64(64)), BV64(0), z3.LShR(x, n))


def shl_sat(x, n):
    return z3.If(z3.UGE(n, BV64(64)), BV64(0), x << n)


def mk_shard_spec(c, prefix="", cached=False, encodings=("raw", "raw"), bits_bound=1 << 32):
    """ShardSpec object whose bit counts are symbolic np.uint64 < bits_bound (class invariant of
    ShardSpec.__init__: fields are np.uint64 of non-negative ints)."""
    from neuroglancer_scripts.sharded_base import ShardSpec
    mb = c.u64(prefix + "minishard_bits", inp=True)
    sb = c.u64(prefix + "shard_bits", inp=True)
    pb = c.u64(prefix + "preshift_bits", inp=True)
    for b in (mb, sb, pb):
        c.assume(z3.ULT(b.t, BV64(bits_bound)))
    attrs = {"minishard_bits": mb, "shard_bits": sb, "preshift_bits": pb, "hash": "identity",
             "minishard_index_encoding": encodings[0], "data_encoding": encodings[1],
             "_shard_mask": None, "_minishard_mask": None, "_preshift_mask": None}
    if cached:
        attrs["_minishard_mask"] = SU64(low(mb.t))
        attrs["_shard_mask"] = SU64(low(mb.t + sb.t) & ~low(mb.t))
        attrs["_preshift_mask"] = SU64(low(pb.t))
    return SObj(ShardSpec, attrs)


def spec_minishard_number(spec, cmc):
    """sharded.md: minishard number = low minishard_bits bits of hash(id >> preshift_bits)"""
    h = lshr_sat(cmc.t, spec.attrs["preshift_bits"].t)     # identity hash
    return h & low(spec.attrs["minishard_bits"].t)


def spec_shard_number(spec, cmc):
    """sharded.md: shard number = bits [minishard_bits, minishard_bits+shard_bits) of the hash"""
    h = lshr_sat(cmc.t, spec.attrs["preshift_bits"].t)
    return lshr_sat(h, spec.attrs["minishard_bits"].t) & low(spec.attrs["shard_bits"].t)


def on_grid_axis(c, mn, mx, cs, size):
    """statement of C03: 0 <= min < size, min on the chunk lattice, max == min(min+cs, size)"""
    q, r = c.divmod(mn, cs)
    return And(mn >= 0, mn < size, r == 0, mx == smin(mn + cs, size))


def ceil_div_spec(c, a, b):
    q, r = c.divmod(a, b)
    return ite(r == 0, q, q + 1)
