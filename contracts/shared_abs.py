"""Abstract (assumed) contracts shared by several properties:
  * Accessor.{store_chunk,fetch_chunk,store_file,fetch_file,file_exists}: a store that keeps the
    last value written per name / (key, coords) -- the abstract view  S  of DESIGN.md L1.
    (Proved of the concrete accessors, modulo the FS/HTTP models, under C12/C14/C05.)
  * ChunkEncoder.{encode,decode}: a lossless codec  decode(encode(a), shape(a)) == a
    (proved of RawChunkEncoder under C03 and of compressed_segmentation under C02).
  * PrecomputedIO.{write_chunk,read_chunk,scale_is_lossy} as used by the L4 algorithms: the
    abstract dataset view  D : (key, coords) -> array  (their bodies are verified under C03).
"""
import numpy as np
import z3

from pyvc import core
from pyvc.arrays import SArr
from pyvc.core import And, Not, Or, RaiseSig, SBool, SInt, SObj, Unsupported, ctx, implies, ite, smin
from pyvc.sbytes import SBytes
from pyvc.verify import Contract, register

from ._common import on_grid_axis

ACC = "neuroglancer_scripts.accessor.Accessor."
ENC = "neuroglancer_scripts.chunk_encoding.ChunkEncoder."
PIO = "neuroglancer_scripts.precomputed_io.PrecomputedIO."


def coords_equal(a, b):
    return And(*[x == y for x, y in zip(a, b)])


class _Assumed(Contract):
    has_body = False
    props = ()

    def setup(self, c, cfg):
        raise NotImplementedError


@register
class AccStoreChunk(_Assumed):
    target = ACC + "store_chunk"

    def apply(self, interp, fn, args, kwargs):
        b = self.bind(fn, args, kwargs)
        acc = b["self"]
        interp.heap_write()
        acc.ghost.setdefault("log", []).append(("chunk", b["key"], tuple(b["chunk_coords"]), b["buf"], b["mime_type"]))
        ctx().calls_log.append((self.target, b, None))
        return None


@register
class AccFetchChunk(_Assumed):
    target = ACC + "fetch_chunk"

    def apply(self, interp, fn, args, kwargs):
        b = self.bind(fn, args, kwargs)
        acc = b["self"]
        cc = tuple(b["chunk_coords"])
        for kind, key, coords, buf, mime in reversed(acc.ghost.get("log", [])):
            if kind == "chunk" and key == b["key"] and interp.truth(coords_equal(coords, cc)):
                return buf
        from neuroglancer_scripts.accessor import DataAccessError
        raise RaiseSig(DataAccessError("chunk not stored in this history"))


@register
class AccStoreFile(_Assumed):
    target = ACC + "store_file"

    def apply(self, interp, fn, args, kwargs):
        b = self.bind(fn, args, kwargs)
        interp.heap_write()
        b["self"].ghost.setdefault("log", []).append(("file", b["relative_path"], None, b["buf"], b["mime_type"]))
        ctx().calls_log.append((self.target, b, None))
        return None


@register
class EncEncode(_Assumed):
    target = ENC + "encode"

    def apply(self, interp, fn, args, kwargs):
        b = self.bind(fn, args, kwargs)
        enc, chunk = b["self"], b["chunk"]
        c = ctx()
        if not isinstance(chunk, SArr):
            raise Unsupported("abstract encode of a non-symbolic chunk")
        # precondition of every concrete encoder (their own asserts / casting='safe')
        c.prove("pre[encode]:chunk.ndim==4", chunk.ndim == 4, kind="pre")
        c.prove("pre[encode]:chunk.shape[0]==num_channels", chunk.shape[0] == enc.attrs["num_channels"], kind="pre")
        c.prove("pre[encode]:dtype-safely-castable", bool(np.can_cast(chunk.dtype, enc.attrs["dtype"], "safe")), kind="pre")
        out = SBytes.fresh(c, c.fresh_name("enc"), inp=False)
        out.of_array = (enc, chunk)
        return out


@register
class EncDecode(_Assumed):
    target = ENC + "decode"

    def apply(self, interp, fn, args, kwargs):
        b = self.bind(fn, args, kwargs)
        enc, buf, size = b["self"], b["buf"], b["chunk_size"]
        c = ctx()
        tag = getattr(buf, "of_array", None)
        from neuroglancer_scripts.chunk_encoding import InvalidFormatError
        if tag is None or tag[0] is not enc:
            raise RaiseSig(InvalidFormatError("abstract decode of foreign bytes"))
        a = tag[1]
        want = (enc.attrs["num_channels"], size[2], size[1], size[0])
        if not interp.truth(And(*[x == y for x, y in zip(a.shape, want)])):
            raise RaiseSig(InvalidFormatError("size mismatch"))
        c.trust("abstract lossless codec: decode(encode(a), shape(a)) == a with the encoder dtype")
        return a.astype(enc.attrs["dtype"], casting="safe")


# --------------------------------------------------------------------------- dataset view for L4

def mk_io(c, info, key_levels=None, channels=None):
    """PrecomputedIO object over an abstract accessor, satisfying the class invariant of
    PrecomputedIO.__init__ (_scale_info/_encoders keyed by scale key)."""
    from neuroglancer_scripts.accessor import Accessor
    from neuroglancer_scripts.chunk_encoding import ChunkEncoder
    from neuroglancer_scripts.precomputed_io import PrecomputedIO
    acc = SObj(Accessor)
    dt = np.dtype(info["data_type"]).newbyteorder("<")
    encs = {}
    for sc in info["scales"]:
        encs[sc["key"]] = SObj(ChunkEncoder, {"num_channels": info["num_channels"], "dtype": dt, "lossy": False,
                                              "mime_type": "application/octet-stream"})
    io = SObj(PrecomputedIO, {"_info": info, "accessor": acc,
                              "_scale_info": {sc["key"]: sc for sc in info["scales"]}, "_encoders": encs})
    io.ghost["written"] = []
    io.ghost["levels"] = {}
    return io


def level_fn(io, key):
    """abstract content of one scale:  D_key(c, z, y, x)"""
    lv = io.ghost.setdefault("levels", {})
    if key not in lv:
        lv[key] = z3.Function(f"D_{key}_{id(io) % 9973}", *([z3.IntSort()] * 4), z3.IntSort())
    return lv[key]


def valid_coords(c, scale_info, cc):
    """C03 statement: on the chunk grid of some listed chunk size"""
    xs, ys, zs = scale_info["size"]
    alts = []
    for cs in scale_info["chunk_sizes"]:
        alts.append(And(on_grid_axis(c, cc[0], cc[1], cs[0], xs),
                        on_grid_axis(c, cc[2], cc[3], cs[1], ys),
                        on_grid_axis(c, cc[4], cc[5], cs[2], zs)))
    return Or(*alts) if len(alts) > 1 else alts[0]


@register
class IOWriteChunkAbs(Contract):
    """call-site contract of PrecomputedIO.write_chunk (body verified in c03_io.WriteChunk)"""
    target = PIO + "write_chunk"
    props = ()
    has_body = True     # verified by the C03 unit with the same target name (registered there)

    def setup(self, c, cfg):
        raise NotImplementedError

    def apply(self, interp, fn, args, kwargs):
        c = ctx()
        b = self.bind(fn, args, kwargs)
        io, chunk, key, cc = b["self"], b["chunk"], b["scale_key"], tuple(b["chunk_coords"])
        si = io.attrs["_scale_info"][key]
        ok = valid_coords(c, si, cc)
        if not interp.truth(ok):
            raise RaiseSig(AssertionError("write_chunk: chunk coordinates not valid for the scale"))
        if not isinstance(chunk, SArr):
            raise Unsupported("write_chunk of a non-symbolic chunk")
        nch = io.attrs["_info"]["num_channels"]
        want = (nch, cc[5] - cc[4], cc[3] - cc[2], cc[1] - cc[0])
        c.prove("pre[write_chunk]:chunk-is-4D", chunk.ndim == 4, kind="pre")
        if chunk.ndim == 4:
            for nm, x, y in zip(("channels", "z-extent", "y-extent", "x-extent"), chunk.shape, want):
                c.prove(f"pre[write_chunk]:shape-{nm}-matches-coords", x == y, kind="pre")
        enc_dt = io.attrs["_encoders"][key].attrs["dtype"]
        c.prove("pre[write_chunk]:dtype-safely-castable", bool(np.can_cast(chunk.dtype, enc_dt, "safe")), kind="pre")
        interp.heap_write()
        io.ghost["written"].append((key, cc, chunk, tuple(v for (_, v, _, _) in c.loop_vars),
                                    tuple((lo, hi) for (_, _, lo, hi) in c.loop_vars)))
        c.calls_log.append((self.target, b, None))
        return None


@register
class IOReadChunkAbs(Contract):
    target = PIO + "read_chunk"
    props = ()

    def setup(self, c, cfg):
        raise NotImplementedError

    def apply(self, interp, fn, args, kwargs):
        c = ctx()
        b = self.bind(fn, args, kwargs)
        io, key, cc = b["self"], b["scale_key"], tuple(b["chunk_coords"])
        si = io.attrs["_scale_info"][key]
        if not interp.truth(valid_coords(c, si, cc)):
            raise RaiseSig(AssertionError("read_chunk: chunk coordinates not valid for the scale"))
        D = level_fn(io, key)
        nch = io.attrs["_info"]["num_channels"]
        shape = (nch, cc[5] - cc[4], cc[3] - cc[2], cc[1] - cc[0])
        dt = io.attrs["_encoders"][key].attrs["dtype"]
        x0, y0, z0 = cc[0], cc[2], cc[4]
        c.trust("read_chunk contract: chunk (C, Z, Y, X) holding the stored level at offset (zmin, ymin, xmin) (body verified under C03; storage under C12/C05)")
        c.calls_log.append((self.target, b, None))
        return SArr.from_fn(lambda ch, z, y, x: SInt(D(core._i(ch), core._i(z0 + z), core._i(y0 + y), core._i(x0 + x))),
                            shape, dt)


@register
class IOScaleIsLossy(Contract):
    target = PIO + "scale_is_lossy"
    props = ()

    def setup(self, c, cfg):
        raise NotImplementedError

    def apply(self, interp, fn, args, kwargs):
        b = self.bind(fn, args, kwargs)
        return b["self"].attrs["_encoders"][b["scale_key"]].attrs["lossy"]
