"""C03 -- write then read returns the same array; off-grid positions rejected
(precomputed_io.py, chunk_encoding.py)."""
import numpy as np
import z3

from pyvc import core
from pyvc.arrays import SArr
from pyvc.core import And, Not, Or, RaiseSig, SBool, SInt, SObj, ctx, implies, ite, smin
from pyvc.interp import harness
from pyvc.sbytes import SBytes
from pyvc.verify import Contract, Lemma, register

from . import shared_abs
from .shared_abs import mk_io, valid_coords

PIO = "neuroglancer_scripts.precomputed_io.PrecomputedIO."
CE = "neuroglancer_scripts.chunk_encoding."


def mk_info(c, n_chunk_sizes=1, data_type="uint16", nscales=1, prefix=""):
    nch = c.int(prefix + "num_channels", inp=True)
    c.assume(nch >= 1)
    scales = []
    for s in range(nscales):
        size = [c.int(f"{prefix}size{s}_{i}", inp=True) for i in range(3)]
        css = [[c.int(f"{prefix}cs{s}_{k}_{i}", inp=True) for i in range(3)] for k in range(n_chunk_sizes)]
        for v in size + [x for cs in css for x in cs]:
            c.assume(v >= 1)
        scales.append({"key": f"k{s}", "size": size, "chunk_sizes": css, "voxel_offset": [0, 0, 0],
                       "encoding": "raw", "resolution": [1, 1, 1]})
    return {"type": "image", "data_type": data_type, "num_channels": nch, "scales": scales}


def mk_coords(c, prefix=""):
    return tuple(c.int(prefix + n, inp=True) for n in ("xmin", "xmax", "ymin", "ymax", "zmin", "zmax"))


def native_io(model, n_chunk_sizes=1, data_type="uint16", prefix=""):
    """rebuild a real PrecomputedIO over an in-memory accessor from a counter-model"""
    from neuroglancer_scripts import precomputed_io
    from neuroglancer_scripts.accessor import Accessor, DataAccessError

    class Mem(Accessor):
        can_read = can_write = True

        def __init__(self):
            self.d = {}

        def store_chunk(self, buf, key, cc, mime_type=None, overwrite=True):
            self.d[(key, tuple(cc))] = bytes(buf)

        def fetch_chunk(self, key, cc):
            try:
                return self.d[(key, tuple(cc))]
            except KeyError:
                raise DataAccessError("missing")
    g = lambda n, d=1: max(d, model.get(prefix + n, d)) if isinstance(model.get(prefix + n, d), int) else d
    info = {"type": "image", "data_type": data_type, "num_channels": min(g("num_channels"), 3),
            "scales": [{"key": "k0", "size": [g(f"size0_{i}") for i in range(3)],
                        "chunk_sizes": [[g(f"cs0_{k}_{i}") for i in range(3)] for k in range(n_chunk_sizes)],
                        "voxel_offset": [0, 0, 0], "encoding": "raw", "resolution": [1, 1, 1]}]}
    return precomputed_io.PrecomputedIO(info, Mem()), info


def on_grid_py(info, cc):
    si = info["scales"][0]
    for cs in si["chunk_sizes"]:
        if all(0 <= cc[2 * a] < si["size"][a] and cc[2 * a] % cs[a] == 0
               and cc[2 * a + 1] == min(cc[2 * a] + cs[a], si["size"][a]) for a in range(3)):
            return True
    return False


@register
class ValidateChunkCoords(Contract):
    target = PIO + "validate_chunk_coords"
    props = ("C03",)
    configs = (1, 2)

    def setup(self, c, cfg):
        self.info = mk_info(c, n_chunk_sizes=cfg)
        io = mk_io(c, self.info)
        return (io, "k0", mk_coords(c)), {}

    def ensures(self, c, result, self_=None, scale_key=None, chunk_coords=None, **kw):
        si = self_.attrs["_scale_info"][scale_key]
        grid = valid_coords(c, si, chunk_coords)
        return [("True-iff-on-the-chunk-grid-and-inside-the-volume",
                 (result == grid) if isinstance(result, SBool) else (grid if result else Not(grid)))]

    def fresh_result(self, c, self_=None, scale_key=None, chunk_coords=None):
        return c.bool("valid")

    def raises_when(self, c, self_=None, scale_key=None, chunk_coords=None):
        si = self_.attrs["_scale_info"][scale_key]
        return [(NotImplementedError, si["voxel_offset"] != [0, 0, 0])]

    def bind(self, fn, args, kwargs):
        return {"self_": args[0], "scale_key": args[1], "chunk_coords": args[2]}

    def replay(self, model, cfg, ob_name):
        io, info = native_io(model, n_chunk_sizes=cfg)
        cc = tuple(model.get(n, 0) for n in ("xmin", "xmax", "ymin", "ymax", "zmin", "zmax"))
        got = io.validate_chunk_coords("k0", cc)
        exp = on_grid_py(info, cc)
        return {"reproduced": got != exp, "detail": f"size={info['scales'][0]['size']} chunk_sizes={info['scales'][0]['chunk_sizes']} coords={cc}: validate_chunk_coords -> {got}, statement -> {exp}"}


@register
class ValidateVoxelOffset(Contract):
    target = PIO + "validate_chunk_coords"
    name = "validate_chunk_coords[voxel_offset!=0]"
    props = ("C03",)
    use_at_call_sites = False

    def setup(self, c, cfg):
        self.info = mk_info(c)
        self.info["scales"][0]["voxel_offset"] = [0, 4, 0]
        return (mk_io(c, self.info), "k0", mk_coords(c)), {}

    def bind(self, fn, args, kwargs):
        return {}

    def ensures(self, c, result):
        return [("non-zero-voxel-offset-is-refused", False)]

    def raises_when(self, c):
        return [(NotImplementedError, True)]


@register
class WriteChunk(Contract):
    target = PIO + "write_chunk"
    name = "PrecomputedIO.write_chunk[body]"
    props = ("C03",)
    use_at_call_sites = False

    def setup(self, c, cfg):
        self.info = mk_info(c, n_chunk_sizes=1)
        self.io = mk_io(c, self.info)
        self.cc = mk_coords(c)
        nch = self.info["num_channels"]
        shape = (nch, self.cc[5] - self.cc[4], self.cc[3] - self.cc[2], self.cc[1] - self.cc[0])
        self.chunk = SArr.fresh(c, "chunk", "uint16", shape)
        return (self.io, self.chunk, "k0", self.cc), {}

    def bind(self, fn, args, kwargs):
        return {}

    def ensures(self, c, result):
        acc = self.io.attrs["accessor"]
        log = acc.ghost.get("log", [])
        ok = valid_coords(c, self.info["scales"][0], self.cc)
        out = [("stores-only-valid-coordinates", ok),
               ("exactly-one-store", len(log) == 1)]
        if len(log) == 1:
            kind, key, coords, buf, mime = log[0]
            tag = getattr(buf, "of_array", None)
            out.append(("stored-under-the-given-key-and-coordinates",
                        kind == "chunk" and key == "k0" and all(a is b for a, b in zip(coords, self.cc))))
            out.append(("stored-bytes-are-encoder.encode(chunk)", tag is not None and tag[1] is self.chunk
                        and tag[0] is self.io.attrs["_encoders"]["k0"]))
            out.append(("mime-type-from-encoder", mime == "application/octet-stream"))
        return out

    def raises_when(self, c):
        ok = valid_coords(c, self.info["scales"][0], self.cc)
        return [(AssertionError, Not(ok))]

    def replay(self, model, cfg, ob_name):
        io, info = native_io(model)
        cc = tuple(model.get(n, 0) for n in ("xmin", "xmax", "ymin", "ymax", "zmin", "zmax"))
        shape = (info["num_channels"], max(0, cc[5] - cc[4]), max(0, cc[3] - cc[2]), max(0, cc[1] - cc[0]))
        try:
            io.write_chunk(np.zeros(shape, "uint16"), "k0", cc)
            got = "stored"
        except AssertionError:
            got = "AssertionError"
        exp = "stored" if on_grid_py(info, cc) else "AssertionError"
        return {"reproduced": got != exp, "detail": f"size={info['scales'][0]['size']} chunk_sizes={info['scales'][0]['chunk_sizes']} coords={cc}: write_chunk -> {got}, statement -> {exp}"}


@register
class ReadChunk(Contract):
    target = PIO + "read_chunk"
    name = "PrecomputedIO.read_chunk[body]"
    props = ("C03",)
    use_at_call_sites = False

    configs = (1, 2)          # number of chunk sizes listed for the scale: a chunk may be on the grid of any of them

    def setup(self, c, cfg):
        self.info = mk_info(c, n_chunk_sizes=cfg)
        self.io = mk_io(c, self.info)
        self.cc = mk_coords(c)
        # one chunk previously stored (by the abstract encoder) at these coordinates
        nch = self.info["num_channels"]
        shape = (nch, self.cc[5] - self.cc[4], self.cc[3] - self.cc[2], self.cc[1] - self.cc[0])
        self.chunk = SArr.fresh(c, "stored", "uint16", shape)
        enc = self.io.attrs["_encoders"]["k0"]
        buf = SBytes.fresh(c, "encbytes", inp=False)
        buf.of_array = (enc, self.chunk)
        self.io.attrs["accessor"].ghost["log"] = [("chunk", "k0", self.cc, buf, "application/octet-stream")]
        return (self.io, "k0", self.cc), {}

    def bind(self, fn, args, kwargs):
        return {}

    def ensures(self, c, result):
        ok = valid_coords(c, self.info["scales"][0], self.cc)
        out = [("reads-only-valid-coordinates", ok)]
        if not isinstance(result, SArr):
            return out + [("returns-array", False)]
        out.append(("dtype", result.dtype == np.dtype("<u2")))
        out.append(("rank-4", result.ndim == 4))
        for k in range(4):
            out.append((f"shape[{k}]-from-coordinates", result.shape[k] == self.chunk.shape[k]))
        idx, inb = self.chunk.forall(None)
        out.append(("every-element-equals-the-stored-chunk", implies(inb, result.elem(*idx) == self.chunk.elem(*idx))))
        return out

    def raises_when(self, c):
        ok = valid_coords(c, self.info["scales"][0], self.cc)
        return [(AssertionError, Not(ok))]


# --------------------------------------------------------------------------- raw codec

def mk_raw(c, dt, nch=None):
    from neuroglancer_scripts.chunk_encoding import RawChunkEncoder
    nch = nch if nch is not None else c.int("num_channels", inp=True)
    if isinstance(nch, SInt):
        c.assume(nch >= 1)
    return SObj(RawChunkEncoder, {"num_channels": nch, "dtype": np.dtype(dt).newbyteorder("<")})


RAW_DTYPES = ("uint8", "uint16", "uint32", "uint64", "float32")


@register
class RawEncode(Contract):
    target = CE + "RawChunkEncoder.encode"
    props = ("C03",)
    configs = RAW_DTYPES
    use_at_call_sites = False

    def setup(self, c, cfg):
        self.enc = mk_raw(c, cfg)
        shape = tuple(c.int(n, inp=True) for n in ("C", "Z", "Y", "X"))
        for s in shape:
            c.assume(s >= 0)
        kind = "real" if cfg == "float32" else "int"
        self.chunk = SArr.fresh(c, "chunk", cfg, shape, kind=kind)
        return (self.enc, self.chunk), {}

    def bind(self, fn, args, kwargs):
        return {}

    def ensures(self, c, result):
        a = self.chunk
        isz = a.dtype.itemsize
        out = [("accepts-only-chunks-with-the-encoder-channel-count", a.shape[0] == self.enc.attrs["num_channels"])]
        if not isinstance(result, SBytes):
            return out + [("returns-bytes", False)]
        out.append(("length==C*Z*Y*X*itemsize", result.len == a.shape[0] * a.shape[1] * a.shape[2] * a.shape[3] * isz))
        return out

    def raises_when(self, c):
        return [(AssertionError, Not(self.chunk.shape[0] == self.enc.attrs["num_channels"]))]


@harness
def raw_roundtrip(enc, chunk, size):
    buf = enc.encode(chunk)
    return enc.decode(buf, size)


@register
class RawRoundTrip(Lemma):
    """decode(encode(a), (X,Y,Z)) == a in shape (C,Z,Y,X), dtype and every value; both methods are
    interpreted from the real source (inlined), tobytes/frombuffer/reshape are assumed models.
    The chunk handed to encode may be in either byte order (e.g. '>u2' data from a memmap)."""
    name = "lemma:raw-decode(encode(a))==a"
    props = ("C03",)
    configs = RAW_DTYPES + (">u2", ">u4", ">u8")

    def run(self, c, cfg):
        in_dt = np.dtype(cfg)
        cfg = in_dt.name
        enc = mk_raw(c, cfg)
        nch = enc.attrs["num_channels"]
        Zs, Ys, Xs = (c.int(n, inp=True) for n in ("Z", "Y", "X"))
        for s in (Zs, Ys, Xs):
            c.assume(s >= 1)
        kind = "real" if cfg == "float32" else "int"
        a = SArr.fresh(c, "chunk", in_dt, (nch, Zs, Ys, Xs), kind=kind)
        from pyvc.core import RaiseSig
        try:
            res = c.interp.call(raw_roundtrip, (enc, a, (Xs, Ys, Zs)))
        except RaiseSig as e:
            c.prove(f"round-trip-raises-nothing:{type(e.exc).__name__}", False)
            return
        c.prove("returns-array", isinstance(res, SArr))
        if not isinstance(res, SArr):
            return
        c.prove("dtype-preserved", res.dtype == np.dtype(cfg).newbyteorder("<") or res.dtype == np.dtype(cfg))
        c.prove("rank-4", res.ndim == 4)
        for k in range(4):
            c.prove(f"shape[{k}]", res.shape[k] == a.shape[k])
        idx, inb = a.forall(None)
        c.assume(inb)
        c.prove("every-value-identical", res.elem(*idx) == a.elem(*idx))

    def replay(self, model, cfg, ob_name):
        from neuroglancer_scripts.chunk_encoding import RawChunkEncoder
        g = lambda n: min(max(1, model.get(n, 1)), 5)
        shape = (min(g("num_channels"), 3), g("Z"), g("Y"), g("X"))
        rng = np.random.default_rng(0)
        a = (rng.random(shape) * 1000).astype(cfg)
        cfg = np.dtype(cfg).name
        enc = RawChunkEncoder(cfg, shape[0])
        try:
            b = enc.decode(enc.encode(a), (shape[3], shape[2], shape[1]))
            bad = not (b.shape == a.shape and b.dtype == a.dtype and np.array_equal(a, b))
            return {"reproduced": bad, "detail": f"shape={shape} dtype={cfg}: round trip {'differs' if bad else 'ok'}"}
        except Exception as e:
            return {"reproduced": True, "detail": f"shape={shape} dtype={cfg}: raised {e!r}"}


@register
class RawDecode(Contract):
    """arbitrary bytes: returns an array of exactly (C,Z,Y,X) and the encoder dtype, or raises
    InvalidFormatError; nothing else (also C10)."""
    target = CE + "RawChunkEncoder.decode"
    props = ("C03", "C10")
    configs = RAW_DTYPES
    use_at_call_sites = False

    def setup(self, c, cfg):
        self.enc = mk_raw(c, cfg)
        self.buf = SBytes.fresh(c, "buf")
        self.size = tuple(c.int(n, inp=True) for n in ("X", "Y", "Z"))
        for s in self.size:
            c.assume(s >= 1)
        self.cfg = cfg
        return (self.enc, self.buf, self.size), {}

    def bind(self, fn, args, kwargs):
        return {}

    def _len_ok(self):
        isz = np.dtype(self.cfg).itemsize
        X, Y, Zz = self.size
        return self.buf.len == self.enc.attrs["num_channels"] * Zz * Y * X * isz

    def ensures(self, c, result):
        out = [("accepts-only-buffers-of-the-exact-size", self._len_ok())]
        if not isinstance(result, SArr):
            return out + [("returns-array", False)]
        X, Y, Zz = self.size
        want = (self.enc.attrs["num_channels"], Zz, Y, X)
        out.append(("rank-4", result.ndim == 4))
        for k in range(min(4, result.ndim)):
            out.append((f"shape[{k}]-as-requested", result.shape[k] == want[k]))
        out.append(("dtype-of-encoder", result.dtype == self.enc.attrs["dtype"]))
        return out

    def raises_when(self, c):
        from neuroglancer_scripts.chunk_encoding import InvalidFormatError
        return [(InvalidFormatError, Not(self._len_ok()))]

    def replay(self, model, cfg, ob_name):
        from neuroglancer_scripts.chunk_encoding import InvalidFormatError, RawChunkEncoder
        g = lambda n: min(max(1, model.get(n, 1)), 6)
        nch = min(g("num_channels"), 3)
        n = max(0, min(model.get("buf_len", 0), 4096))
        enc = RawChunkEncoder(cfg, nch)
        size = (g("X"), g("Y"), g("Z"))
        want = nch * size[0] * size[1] * size[2] * np.dtype(cfg).itemsize
        try:
            r = enc.decode(bytes(n), size)
            got = "array" if r.shape == (nch, size[2], size[1], size[0]) else f"wrong shape {r.shape}"
        except InvalidFormatError:
            got = "InvalidFormatError"
        except Exception as e:
            got = repr(e)
        exp = "array" if n == want else "InvalidFormatError"
        return {"reproduced": got != exp, "detail": f"len(buf)={n} size={size} channels={nch}: got {got}, expected {exp}"}


# --------------------------------------------------------------------------- history lemma

@harness
def write_write_read(io, a, b, cc1, cc2, cc3):
    io.write_chunk(a, "k0", cc1)
    io.write_chunk(b, "k0", cc2)
    return io.read_chunk("k0", cc3)


@register
class WriteThenRead(Lemma):
    """History lemma over the real write_chunk/read_chunk/RawChunkEncoder bodies and the abstract
    last-write-wins store: after write(a, cc1); write(b, cc2), read(cc3) returns b if cc3 == cc2,
    else a if cc3 == cc1 (shape, dtype, every value). Longer histories follow by induction because
    the store is a map and writes to different keys commute (argument, not mechanised)."""
    name = "lemma:write-write-read"
    props = ("C03",)
    inline = (PIO + "write_chunk", PIO + "read_chunk", CE + "ChunkEncoder.encode", CE + "ChunkEncoder.decode")

    def run(self, c, cfg):
        from neuroglancer_scripts.chunk_encoding import RawChunkEncoder
        info = mk_info(c)
        io = mk_io(c, info)
        nch = info["num_channels"]
        io.attrs["_encoders"]["k0"] = SObj(RawChunkEncoder, {"num_channels": nch, "dtype": np.dtype("<u2"),
                                                             "lossy": False, "mime_type": "application/octet-stream"})
        cc1, cc2, cc3 = mk_coords(c, "a_"), mk_coords(c, "b_"), mk_coords(c, "r_")

        def arr(name, cc):
            return SArr.fresh(c, name, "uint16", (nch, cc[5] - cc[4], cc[3] - cc[2], cc[1] - cc[0]))
        a, b = arr("A", cc1), arr("B", cc2)
        si = info["scales"][0]
        for cc in (cc1, cc2, cc3):
            c.assume(valid_coords(c, si, cc))
        same2 = shared_abs.coords_equal(cc3, cc2)
        same1 = shared_abs.coords_equal(cc3, cc1)
        c.assume(Or(same1, same2))
        from pyvc.core import RaiseSig
        try:
            res = c.interp.call(write_write_read, (io, a, b, cc1, cc2, cc3))
        except RaiseSig as e:
            c.prove(f"history-raises-nothing:{type(e.exc).__name__}", False)
            return
        c.prove("returns-array", isinstance(res, SArr))
        if not isinstance(res, SArr):
            return
        exp = b if c.interp.truth(same2) else a
        c.prove("dtype", res.dtype == np.dtype("<u2"))
        for k in range(4):
            c.prove(f"shape[{k}]", res.shape[k] == exp.shape[k])
        idx, inb = exp.forall(None)
        c.assume(inb)
        c.prove("read-returns-last-value-written-at-those-coordinates", res.elem(*idx) == exp.elem(*idx))

    def replay(self, model, cfg, ob_name):
        return {"reproduced": False, "detail": "history lemma refuted (model: %s)" % {k: v for k, v in model.items() if not k.startswith(('A', 'B'))}}


# --------------------------------------------------------------------------- get_encoder

@register
class GetEncoder(Contract):
    target = CE + "get_encoder"
    props = ("C03",)
    use_at_call_sites = False
    configs = tuple(
        [("raw", dt, "ok") for dt in ("uint8", "uint16", "uint32", "uint64", "float32")]
        + [("compressed_segmentation", dt, "ok") for dt in ("uint32", "uint64")]
        + [("compressed_segmentation", "uint8", "bad-dtype"), ("compressed_segmentation", "uint32", "no-block-size"),
           ("jpeg", "uint8", "ok"), ("jpeg", "uint16", "bad-dtype"), ("png", "uint8", "bad-encoding"),
           ("raw", "int16", "bad-dtype"), ("raw", "uint8", "no-data_type"), ("raw", "uint8", "channels-float")])

    def setup(self, c, cfg):
        enc, dt, case = cfg
        nch = c.int("num_channels", inp=True)
        self.nch = nch
        info = {"data_type": dt, "num_channels": nch}
        sc = {"encoding": enc, "compressed_segmentation_block_size": [8, 8, 8]}
        if case == "no-block-size":
            del sc["compressed_segmentation_block_size"]
        if case == "no-data_type":
            del info["data_type"]
        if case == "channels-float":
            info["num_channels"] = 1.5
        self.case = case
        self.cfg = cfg
        return (info, sc, {}), {}

    def bind(self, fn, args, kwargs):
        return {}

    def _ok(self):
        enc, dt, case = self.cfg
        if case != "ok":
            return False
        if enc == "jpeg":
            return Or(self.nch == 1, self.nch == 3)
        return self.nch > 0

    def ensures(self, c, result):
        from neuroglancer_scripts import chunk_encoding as ce
        enc, dt, case = self.cfg
        cls = {"raw": ce.RawChunkEncoder, "compressed_segmentation": ce.CompressedSegmentationEncoder,
               "jpeg": ce.JpegChunkEncoder}.get(enc)
        out = [("returns-encoder-only-for-valid-info", self._ok())]
        good = isinstance(result, SObj) and cls is not None and result.cls is cls
        out.append(("encoder-class-named-by-the-info", good))
        if good:
            out.append(("encoder-dtype", result.attrs["dtype"] == np.dtype(dt).newbyteorder("<")))
            out.append(("encoder-channels", result.attrs["num_channels"] is self.nch))
            if enc == "compressed_segmentation":
                out.append(("block-size-from-info", result.attrs["block_size"] == [8, 8, 8]))
        return out

    def raises_when(self, c):
        from neuroglancer_scripts.chunk_encoding import InvalidInfoError
        return [(InvalidInfoError, Not(self._ok()))]


@register
class LeBytesRoundTrip(Lemma):
    """little-endian byte decomposition and recomposition are inverse (used by frombuffer(tobytes()))"""
    name = "lemma:le-bytes-roundtrip"
    props = ("C03", "C02", "C10", "C17")
    configs = (1, 2, 4, 8)

    def run(self, c, n):
        from pyvc.sbytes import _byte_of, le_compose
        e = c.int("e", inp=True)
        c.assume(And(e >= 0, e < (1 << (8 * n))))
        bs = [_byte_of(e, k, n) for k in range(n)]
        for k, b in enumerate(bs):
            c.prove(f"byte{k}-in-range", And(b >= 0, b <= 255))
        # telescoping steps first (each a one-step div/mod fact), then the sum is linear
        for k in range(n):
            lo = SInt(e.t % (256 ** k)) if k else 0
            hi = SInt(e.t % (256 ** (k + 1)))
            c.prove(f"step{k}: e mod 256^{k+1} == e mod 256^{k} + 256^{k}*byte{k}", hi == lo + (256 ** k) * bs[k])
        c.prove("compose(bytes(e))==e", le_compose(lambda i: bs[i], 0, n) == e)


@harness
def two_encoders(info1, info2, sc):
    from neuroglancer_scripts.chunk_encoding import get_encoder
    e1 = get_encoder(info1, sc)
    e2 = get_encoder(info2, sc)
    return e1, e2


@register
class GetEncoderNoHiddenState(Lemma):
    """history: an encoder reflects the info it was built from, whatever was built before it
    (datasets opened in sequence in one process)."""
    name = "lemma:get_encoder-has-no-hidden-state"
    props = ("C03",)
    configs = ("raw", "compressed_segmentation")

    def run(self, c, cfg):
        n1, n2 = c.int("channels1", inp=True), c.int("channels2", inp=True)
        c.assume(And(n1 >= 1, n2 >= 1))
        dt = "uint32"
        sc = {"encoding": cfg, "compressed_segmentation_block_size": [8, 8, 8]}
        e1, e2 = c.interp.call(two_encoders, ({"data_type": dt, "num_channels": n1}, {"data_type": dt, "num_channels": n2}, sc))
        for nm, e, n in (("first", e1, n1), ("second", e2, n2)):
            c.prove(f"{nm}-encoder-has-its-own-channel-count", isinstance(e, SObj) and (e.attrs["num_channels"] == n))

    def replay(self, model, cfg, ob_name):
        from neuroglancer_scripts.chunk_encoding import get_encoder
        n1, n2 = max(1, model.get("channels1", 1)), max(1, model.get("channels2", 2))
        if n1 == n2:
            n2 = n1 + 2
        sc = {"encoding": cfg, "compressed_segmentation_block_size": [8, 8, 8]}
        e1 = get_encoder({"data_type": "uint32", "num_channels": n1}, sc)
        e2 = get_encoder({"data_type": "uint32", "num_channels": n2}, sc)
        bad = e1.num_channels != n1 or e2.num_channels != n2
        return {"reproduced": bad, "detail": f"get_encoder for {n1} then {n2} channels -> encoders with {e1.num_channels}, {e2.num_channels} channels"}


# --------------------------------------------------------------------------- codec wrappers (parameters handed to the codecs)

from .c01_nibabel import Logged as _Logged  # noqa: E402

CE = "neuroglancer_scripts.chunk_encoding."


def _logged(target_, result_fn):
    class _L(_Logged):
        target = target_
        name = target_.rsplit(".", 2)[-2] + "." + target_.rsplit(".", 1)[-1] + "[call-site]"

        def apply(self, interp, fn, args, kwargs):
            r = result_fn(args, kwargs)
            ctx().calls_log.append((self.target, {"args": args, "kwargs": kwargs}, r))
            return r
    return _L


@register
class CsegWrapper(Lemma):
    """CompressedSegmentationEncoder: encode and decode hand the codec the SAME block size, the one given at
    construction (x, y, z order of the info's compressed_segmentation_block_size), the chunk cast to the
    encoder's little-endian data type, and decode allocates (C, Z, Y, X) from the (x, y, z) chunk size --
    so the round trip and the format conformance of C02 apply with that block size"""
    name = "CompressedSegmentationEncoder:encode/decode-use-the-configured-block-size"
    props = ("C03", "C02")
    configs = tuple((dt, bs) for dt in ("uint32", "uint64") for bs in ((8, 8, 8), (8, 8, 4), (4, 8, 16)))

    def local_contracts_for(self, cfg):
        enc = _logged("neuroglancer_scripts._compressed_segmentation.encode_chunk", lambda a, k: "<encoded>")
        dec = _logged("neuroglancer_scripts._compressed_segmentation.decode_chunk_into", lambda a, k: None)
        return {k_.target: k_() for k_ in (enc, dec)}

    def run(self, c, cfg):
        from neuroglancer_scripts.chunk_encoding import CompressedSegmentationEncoder
        dt, bs = cfg
        c.interp.contracts.update(self.local_contracts_for(cfg))
        bsl = list(bs)
        e = CompressedSegmentationEncoder(dt, 2, bsl)
        dims = tuple(c.int(n, inp=True) for n in ("Z", "Y", "X"))
        for d in dims:
            c.assume(d >= 1)
        chunk = SArr.fresh(c, "chunk", np.dtype(dt).newbyteorder("<"), (2,) + dims)
        r = c.interp.call(e.encode, (chunk,))
        log = c.calls_log
        encs = [x for x in log if x[0].endswith("encode_chunk")]
        c.prove("encode:one-codec-call", len(encs) == 1 and r == "<encoded>")
        if len(encs) == 1:
            a = encs[0][1]["args"]
            c.prove("encode:block-size-as-configured(x,y,z)", list(a[1]) == bsl)
            ok = isinstance(a[0], SArr) and a[0].ndim == 4 and a[0].dtype == np.dtype(dt).newbyteorder("<")
            c.prove("encode:chunk-in-the-encoder's-little-endian-type,4-D", ok)
            if ok:
                i = tuple(c.int(n, inp=True) for n in ("ci", "zi", "yi", "xi"))
                c.prove("encode:chunk-values-passed-unchanged", implies(a[0].in_bounds(i), a[0].elem(*i) == chunk.elem(*i)))
        # a chunk whose type cannot be cast SAFELY to the encoder's type is refused, not silently converted
        for bad_dt in (("uint64", "int64", "float32") if dt == "uint32" else ("int64", "float64")):
            badchunk = SArr.fresh(c, "chunk_" + bad_dt, bad_dt, (2,) + dims, kind="real" if bad_dt.startswith("float") else "int")
            n_before = len([x for x in c.calls_log if x[0].endswith("encode_chunk")])
            try:
                c.interp.call(e.encode, (badchunk,))
                refused = False
            except RaiseSig as ex:
                refused = isinstance(ex.exc, TypeError)
            c.prove(f"encode:{bad_dt}-chunk-refused-with-TypeError(no unsafe cast)", refused and len([x for x in c.calls_log if x[0].endswith("encode_chunk")]) == n_before)
        cs = [c.int(n, inp=True) for n in ("csx", "csy", "csz")]
        for v in cs:
            c.assume(v >= 1)
        buf = SBytes.fresh(c, "buf")
        out = c.interp.call(e.decode, (buf, cs))
        decs = [x for x in log if x[0].endswith("decode_chunk_into")]
        c.prove("decode:one-codec-call", len(decs) == 1)
        if len(decs) == 1:
            a = decs[0][1]["args"]
            c.prove("decode:same-block-size-as-encode", list(a[2]) == bsl)
            c.prove("decode:bytes-passed-unchanged", a[1] is buf)
            ok = isinstance(a[0], SArr) and a[0] is out and a[0].ndim == 4
            c.prove("decode:fills-and-returns-one-array", ok)
            if ok:
                c.prove("decode:array-shape==(C, csz, csy, csx)", And(a[0].shape[0] == 2, a[0].shape[1] == cs[2], a[0].shape[2] == cs[1], a[0].shape[3] == cs[0]))
                c.prove("decode:array-dtype", a[0].dtype == np.dtype(dt).newbyteorder("<"))


@register
class JpegWrapper(Lemma):
    """JpegChunkEncoder hands the codec its configured quality and plane and the channel count"""
    name = "JpegChunkEncoder:encode/decode-use-the-configured-parameters"
    props = ("C03",)
    configs = ((1, 95, "xy"), (3, 60, "xz"))

    def local_contracts_for(self, cfg):
        enc = _logged("neuroglancer_scripts._jpeg.encode_chunk", lambda a, k: "<jpeg>")
        dec = _logged("neuroglancer_scripts._jpeg.decode_chunk", lambda a, k: "<decoded>")
        return {k_.target: k_() for k_ in (enc, dec)}

    def run(self, c, cfg):
        from neuroglancer_scripts.chunk_encoding import JpegChunkEncoder
        nch, q, plane = cfg
        c.interp.contracts.update(self.local_contracts_for(cfg))
        e = JpegChunkEncoder("uint8", nch, jpeg_quality=q, jpeg_plane=plane)
        dims = tuple(c.int(n, inp=True) for n in ("Z", "Y", "X"))
        for d in dims:
            c.assume(d >= 1)
        chunk = SArr.fresh(c, "chunk", np.uint8, (nch,) + dims)
        r = c.interp.call(e.encode, (chunk,))
        encs = [x for x in c.calls_log if x[0].endswith("_jpeg.encode_chunk")]
        c.prove("encode:codec-gets-(chunk, quality, plane)-as-configured", len(encs) == 1 and r == "<jpeg>"
                and encs[0][1]["args"][0] is chunk and tuple(encs[0][1]["args"][1:]) == (q, plane))
        buf = SBytes.fresh(c, "buf")
        cs = [4, 5, 6]
        r2 = c.interp.call(e.decode, (buf, cs))
        decs = [x for x in c.calls_log if x[0].endswith("_jpeg.decode_chunk")]
        c.prove("decode:codec-gets-(bytes, chunk size, channel count)", len(decs) == 1 and r2 == "<decoded>"
                and decs[0][1]["args"][0] is buf and decs[0][1]["args"][1] is cs and decs[0][1]["args"][2] == nch)


def native_cseg_wrapper_check():
    """round trip through the encoder object with non-cubic block sizes, decoded also by the format-derived decoder"""
    from neuroglancer_scripts.chunk_encoding import CompressedSegmentationEncoder
    from .c02_cseg import spec_decode
    rng = np.random.default_rng(1)
    for bs in ((8, 8, 4), (4, 8, 16), (2, 3, 1)):
        for dt in ("uint32", "uint64"):
            a = rng.integers(0, 7, size=(1, 9, 10, 11)).astype(dt)
            e = CompressedSegmentationEncoder(dt, 1, list(bs))
            try:
                buf = bytes(e.encode(a))
                back = e.decode(buf, [11, 10, 9])
                spec = spec_decode(buf, a.shape, bs, np.dtype(dt).newbyteorder("<"))
            except Exception as ex:
                return {"reproduced": True, "detail": f"compressed_segmentation_block_size {list(bs)} {dt}: {type(ex).__name__} {ex}"}
            if not np.array_equal(back, a) or not np.array_equal(spec, a):
                return {"reproduced": True, "detail": f"compressed_segmentation_block_size {list(bs)} {dt}: round trip ok={bool(np.array_equal(back, a))}, a decoder written from the format recovers the data={bool(np.array_equal(spec, a))}"}
    return {"reproduced": False, "detail": "encoder object round-trips with non-cubic block sizes"}


CsegWrapper.replay = lambda self, model, cfg, ob_name: native_cseg_wrapper_check()


# --------------------------------------------------------------------------- bounded: memory layouts of the input chunk

from pyvc.verify import BoundedUnit  # noqa: E402


@register
class RawEncodeLayoutsBounded(BoundedUnit):
    """The functional arrays of the executor do not track MEMORY layout (C / Fortran order, strides), so
    code whose result depends on it (tobytes(order='A'/'K'), views, ascontiguousarray ...) is undecided for
    the proof units. Bounded stand-in: RawChunkEncoder.encode / decode on inputs of every layout against
    the raw format written out with struct (x fastest, then y, z, channel; little-endian)."""
    name = "bounded:raw-encoder-over-memory-layouts"
    props = ("C03",)
    bound = ("shapes (C,Z,Y,X) from {1,2,3}x{1,2,4}x{1,3}x{1,2,5}; uint8/uint16/uint32/uint64/float32; layouts: C-contiguous, "
             "Fortran-contiguous, fully transposed view, strided view, negative-stride view, big-endian, read-only")

    def cases(self, cfg, tier):
        import itertools
        import struct
        from neuroglancer_scripts.chunk_encoding import RawChunkEncoder
        shapes = list(itertools.product((1, 2, 3), (1, 2, 4), (1, 3), (1, 2, 5)))
        if tier != "thorough":
            shapes = shapes[::3]
        fmt = {"uint8": "B", "uint16": "H", "uint32": "I", "uint64": "Q", "float32": "f"}

        def layouts(a):
            yield "C-contiguous", np.ascontiguousarray(a)
            yield "Fortran-contiguous", np.asfortranarray(a)
            yield "transposed view", np.ascontiguousarray(a.transpose(3, 2, 1, 0)).transpose(3, 2, 1, 0)
            big = np.zeros(tuple(2 * n for n in a.shape), dtype=a.dtype)
            big[::2, ::2, ::2, ::2] = a
            yield "strided view", big[::2, ::2, ::2, ::2]
            yield "negative-stride view", np.ascontiguousarray(a[:, ::-1, :, ::-1])[:, ::-1, :, ::-1]
            yield "big-endian", a.astype(a.dtype.newbyteorder(">"))
            ro = a.copy()
            ro.flags.writeable = False
            yield "read-only", ro
        for shape in shapes:
            for dt in fmt:
                def thunk(shape=shape, dt=dt):
                    rng = np.random.default_rng(sum(shape))
                    a = (rng.integers(0, 250, size=shape)).astype(dt)
                    want = struct.pack("<%d%s" % (a.size, fmt[dt]), *[a[idx].item() for idx in np.ndindex(shape)])
                    e = RawChunkEncoder(dt, shape[0])
                    for label, v in layouts(a):
                        try:
                            buf = bytes(e.encode(v))
                        except Exception as ex:
                            return f"{label} input of shape {shape} {dt}: encode raises {ex!r}"
                        if buf != want:
                            return f"{label} input of shape {shape} {dt}: stored bytes differ from the raw format (C order of (C,Z,Y,X), little-endian)"
                        back = e.decode(buf, (shape[3], shape[2], shape[1]))
                        if back.shape != shape or not np.array_equal(back, a):
                            return f"{label} input of shape {shape} {dt}: decode(encode(a)) != a"
                    return None
                yield f"shape={shape} dtype={dt}", thunk
