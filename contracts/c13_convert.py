"""C13 -- re-encoding a dataset preserves its voxels (scripts/convert_chunks.py)."""
import numpy as np
import z3

from pyvc import core
from pyvc.arrays import SArr
from pyvc.core import And, Not, Or, RaiseSig, SBool, SInt, SObj, ctx, implies, ite
from pyvc.verify import Contract, Lemma, register

from .c01_volume import SymTransformer
from .c03_io import mk_info
from .shared_abs import level_fn, mk_io
from .shared_grid import grid_coverage

CC = "neuroglancer_scripts.scripts.convert_chunks."


@register
class ConvertChunksForScale(Contract):
    """source and destination agree on key, size and chunk sizes of the scale (otherwise read_chunk's
    own precondition fails and is reported as such); destination data type may be wider."""
    target = CC + "convert_chunks_for_scale"
    props = ("C13", "C20")
    use_at_call_sites = False
    configs = ((1, "uint16", "uint16"), (2, "uint16", "uint16"), (1, "uint8", "uint32"))

    def setup(self, c, cfg):
        ncs, src_dt, dst_dt = cfg
        self.cfg = cfg
        self.src_info = mk_info(c, n_chunk_sizes=ncs, data_type=src_dt, nscales=2)
        # the destination lists the same scales in another order: scales are identified by key, not by position
        self.dst_info = dict(self.src_info, data_type=dst_dt, scales=list(reversed(self.src_info["scales"])))
        self.reader = mk_io(c, self.src_info)
        self.writer = mk_io(c, self.dst_info)
        self.tr = SymTransformer(c, src_dt, dst_dt)
        return (self.reader, self.dst_info, self.writer, 1, self.tr), {}

    def bind(self, fn, args, kwargs):
        return {}

    def ensures(self, c, result):
        ncs = self.cfg[0]
        w = self.writer.ghost["written"]
        si = self.dst_info["scales"][1]
        out = [("source-not-written", len(self.reader.ghost["written"]) == 0),
               ("one-write-per-iteration-and-chunk-size", len(w) == ncs)]
        if len(w) != ncs:
            return out
        D = level_fn(self.reader, si["key"])
        for k, entry in enumerate(w):
            key, cc, chunk, lvs, lrs = entry
            out.append((f"cs{k}:written-to-the-same-scale", key == si["key"]))
            out.append((f"cs{k}:every-grid-cell-written-exactly-once",
                        grid_coverage(c, entry, si["size"], si["chunk_sizes"][k])))
            idx, inb = chunk.forall(None, tag=f"j{k}_")
            ch, z, y, x = idx
            srcv = SInt(D(core._i(ch), core._i(cc[4] + z), core._i(cc[2] + y), core._i(cc[0] + x)))
            out.append((f"cs{k}:dest[c,z,y,x]==T(source[c,z,y,x])-at-the-same-position",
                        implies(inb, chunk.elem(*idx) == self.tr.apply_T(srcv))))
            out.append((f"cs{k}:dest-dtype", chunk.dtype == np.dtype(self.cfg[2]).newbyteorder("<")))
        return out

    def replay(self, model, cfg, ob_name):
        return native_convert_check(model, cfg)


def native_convert_check(model, cfg):
    from neuroglancer_scripts import precomputed_io
    from neuroglancer_scripts.scripts import convert_chunks
    from .c03_io import native_io
    ncs, src_dt, dst_dt = cfg
    g = lambda n, d=1: min(max(d, model.get(n, d)), 6) if isinstance(model.get(n, d), int) else d
    def info(dt):
        return {"type": "image", "data_type": dt, "num_channels": min(g("num_channels"), 2),
                "scales": [{"key": f"k{s}", "size": [g(f"size{s}_{i}") for i in range(3)],
                            "chunk_sizes": [[g(f"cs{s}_{k}_{i}") for i in range(3)] for k in range(ncs)],
                            "voxel_offset": [0, 0, 0], "encoding": "raw", "resolution": [1, 1, 1]} for s in range(2)]}
    io0, _ = native_io({})
    src = precomputed_io.PrecomputedIO(info(src_dt), type(io0.accessor)())
    dinfo = info(dst_dt)
    dinfo["scales"].reverse()                  # same scales, other order: the scale is identified by its key
    dst = precomputed_io.PrecomputedIO(dinfo, type(io0.accessor)())
    si = src.info["scales"][1]
    rng = np.random.default_rng(2)
    nch = src.info["num_channels"]
    vol = rng.integers(0, 200, size=(nch,) + tuple(reversed(si["size"]))).astype(src_dt)
    def cells(cs):
        for x0 in range(0, si["size"][0], cs[0]):
            for y0 in range(0, si["size"][1], cs[1]):
                for z0 in range(0, si["size"][2], cs[2]):
                    yield (x0, min(x0 + cs[0], si["size"][0]), y0, min(y0 + cs[1], si["size"][1]), z0, min(z0 + cs[2], si["size"][2]))
    for cs in si["chunk_sizes"]:
        for cc in cells(cs):
            src.write_chunk(vol[:, cc[4]:cc[5], cc[2]:cc[3], cc[0]:cc[1]], "k1", cc)
    from neuroglancer_scripts.data_types import get_chunk_dtype_transformer
    try:
        convert_chunks.convert_chunks_for_scale(src, dst.info, dst, 0, get_chunk_dtype_transformer(src_dt, dst_dt, warn=False))
        for cs in si["chunk_sizes"]:
            for cc in cells(cs):
                got = dst.read_chunk("k1", cc)
                if not np.array_equal(got, vol[:, cc[4]:cc[5], cc[2]:cc[3], cc[0]:cc[1]]):
                    return {"reproduced": True, "detail": f"scale {si}: chunk {cc} differs after conversion"}
    except Exception as e:
        return {"reproduced": True, "detail": f"scale {si}: raised {e!r}"}
    return {"reproduced": False, "detail": f"scale {si}: destination equals source"}


# --------------------------------------------------------------------------- the driver

import types  # noqa: E402

from .c01_nibabel import Logged  # noqa: E402


def _mk_logged(target_, name_, result_fn):
    class _L(Logged):
        target = target_
        name = name_

        def apply(self, interp, fn, args, kwargs):
            r = result_fn(args, kwargs)
            ctx().calls_log.append((self.target, {"args": args, "kwargs": kwargs}, r))
            return r
    return _L


@register
class ConvertChunksDriver(Contract):
    """convert_chunks: reader = IO of the source dataset, writer = IO of the destination (its own info,
    or a copy of the source's with --copy-info), both with the encoder options; the transformer is built
    for (source data type, destination data type); EVERY scale of the destination is converted exactly
    once with that reader/writer/transformer"""
    target = CC + "convert_chunks"
    props = ("C13",)
    use_at_call_sites = False
    configs = tuple((n, copy) for n in (1, 3) for copy in (False, True)) + ((3, "fault"),)

    def local_contracts_for(self, cfg):
        u = self
        acc = _mk_logged("neuroglancer_scripts.accessor.get_accessor_for_url", "get_accessor_for_url[call-site]",
                         lambda a, k: "<acc:%s>" % a[0])
        ex = _mk_logged("neuroglancer_scripts.precomputed_io.get_IO_for_existing_dataset", "get_IO_for_existing_dataset[call-site]",
                        lambda a, k: u.io_for(a[0], k))
        new = _mk_logged("neuroglancer_scripts.precomputed_io.get_IO_for_new_dataset", "get_IO_for_new_dataset[call-site]",
                         lambda a, k: types.SimpleNamespace(info=a[0], accessor=a[1], opts=k.get("encoder_options"), new=True))
        tr = _mk_logged("neuroglancer_scripts.data_types.get_chunk_dtype_transformer", "get_chunk_dtype_transformer[call-site]",
                        lambda a, k: ("<transformer>", a[0], a[1]))
        def per_scale(a, k):
            from neuroglancer_scripts.accessor import DataAccessError
            if cfg[1] == "fault" and a[3] == 1:
                raise RaiseSig(DataAccessError("a chunk of this scale could not be read / written"))
            return None
        one = _mk_logged(CC + "convert_chunks_for_scale", "convert_chunks_for_scale[call-site]", per_scale)
        return {k_.target: k_() for k_ in (acc, ex, new, tr, one)}

    def io_for(self, accessor, kw):
        info = self.src_info if accessor == "<acc:src>" else self.dst_info
        return types.SimpleNamespace(info=info, accessor=accessor, opts=kw.get("encoder_options"), new=False)

    def setup(self, c, cfg):
        n, copy = cfg
        self.cfg = cfg
        mk = lambda dt: {"type": "image", "data_type": dt, "num_channels": 1, "scales": [{"key": f"s{i}"} for i in range(n)]}
        self.src_info, self.dst_info = mk("uint16"), mk("uint32")
        self.opts = {"gzip": True}
        return ("src", "dst"), {"copy_info": copy is True, "options": self.opts}

    def bind(self, fn, args, kwargs):
        return {}

    def raises_when(self, c):
        from neuroglancer_scripts.accessor import DataAccessError
        # a scale that fails with a data-access error must not be swallowed: the conversion fails too
        return [(DataAccessError, self.cfg[1] == "fault")]

    def ensures(self, c, result):
        n, copy = self.cfg
        log = c.calls_log
        conv = [x for x in log if x[0] == CC + "convert_chunks_for_scale"]
        tr = [x for x in log if x[0].endswith("get_chunk_dtype_transformer")]
        yield ("every-destination-scale-converted-exactly-once", sorted(x[1]["args"][3] for x in conv) == list(range(n)))
        yield ("one-transformer-for-(source type, destination type)", len(tr) == 1 and tr[0][1]["args"][0] == "uint16"
               and tr[0][1]["args"][1] == ("uint16" if copy else "uint32"))
        if not conv or len(tr) != 1:
            return
        rd, dinfo, wr, _, t = conv[0][1]["args"]
        yield ("reader-is-the-IO-of-the-source", rd.accessor == "<acc:src>" and rd.info is self.src_info)
        yield ("writer-is-the-IO-of-the-destination-with-the-options", wr.accessor == "<acc:dst>" and wr.opts is self.opts and wr.new == copy)
        yield ("destination-info(copy of the source's with --copy-info)", dinfo is (self.src_info if copy else self.dst_info) and wr.info is dinfo)
        yield ("same-reader-writer-transformer-for-every-scale",
               all(x[1]["args"][0] is rd and x[1]["args"][2] is wr and x[1]["args"][4] is tr[0][2] and x[1]["args"][1] is dinfo for x in conv))
        accs = [x for x in log if x[0].endswith("get_accessor_for_url")]
        yield ("destination-accessor-gets-the-options", any(x[1]["args"][0] == "dst" and len(x[1]["args"]) > 1 and x[1]["args"][1] is self.opts for x in accs))
