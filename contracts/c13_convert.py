"""C13 -- re-encoding a dataset preserves its voxels (scripts/convert_chunks.py)."""
import numpy as np
import z3

from pyvc import core
from pyvc.arrays import SArr
from pyvc.core import And, Not, Or, SBool, SInt, SObj, ctx, implies, ite
from pyvc.verify import Contract, Lemma, register

from .c01_volume import SymTransformer
from .c03_io import mk_info
from .shared_abs import level_fn, mk_io
from .shared_grid import grid_coverage

CC = "neuroglancer_scripts.scripts.convert_chunks."


@register
class ConvertChunksForScale(Contract):
    """source and destination agree on key, size and chunk sizes of the scale (otherwise read_chunk's
    own precondition fails and is reported as such); destination data type may be wider."""
    target = CC + "convert_chunks_for_scale"
    props = ("C13", "C20")
    use_at_call_sites = False
    configs = ((1, "uint16", "uint16"), (2, "uint16", "uint16"), (1, "uint8", "uint32"))

    def setup(self, c, cfg):
        ncs, src_dt, dst_dt = cfg
        self.cfg = cfg
        self.src_info = mk_info(c, n_chunk_sizes=ncs, data_type=src_dt, nscales=2)
        self.dst_info = dict(self.src_info, data_type=dst_dt)
        self.reader = mk_io(c, self.src_info)
        self.writer = mk_io(c, self.dst_info)
        self.tr = SymTransformer(c, src_dt, dst_dt)
        return (self.reader, self.dst_info, self.writer, 1, self.tr), {}

    def bind(self, fn, args, kwargs):
        return {}

    def ensures(self, c, result):
        ncs = self.cfg[0]
        w = self.writer.ghost["written"]
        si = self.dst_info["scales"][1]
        out = [("source-not-written", len(self.reader.ghost["written"]) == 0),
               ("one-write-per-iteration-and-chunk-size", len(w) == ncs)]
        if len(w) != ncs:
            return out
        D = level_fn(self.reader, si["key"])
        for k, entry in enumerate(w):
            key, cc, chunk, lvs, lrs = entry
            out.append((f"cs{k}:written-to-the-same-scale", key == si["key"]))
            out.append((f"cs{k}:every-grid-cell-written-exactly-once",
                        grid_coverage(c, entry, si["size"], si["chunk_sizes"][k])))
            idx, inb = chunk.forall(None, tag=f"j{k}_")
            ch, z, y, x = idx
            srcv = SInt(D(core._i(ch), core._i(cc[4] + z), core._i(cc[2] + y), core._i(cc[0] + x)))
            out.append((f"cs{k}:dest[c,z,y,x]==T(source[c,z,y,x])-at-the-same-position",
                        implies(inb, chunk.elem(*idx) == self.tr.apply_T(srcv))))
            out.append((f"cs{k}:dest-dtype", chunk.dtype == np.dtype(self.cfg[2]).newbyteorder("<")))
        return out

    def replay(self, model, cfg, ob_name):
        return native_convert_check(model, cfg)


def native_convert_check(model, cfg):
    from neuroglancer_scripts import precomputed_io
    from neuroglancer_scripts.scripts import convert_chunks
    from .c03_io import native_io
    ncs, src_dt, dst_dt = cfg
    g = lambda n, d=1: min(max(d, model.get(n, d)), 6) if isinstance(model.get(n, d), int) else d
    def info(dt):
        return {"type": "image", "data_type": dt, "num_channels": min(g("num_channels"), 2),
                "scales": [{"key": f"k{s}", "size": [g(f"size{s}_{i}") for i in range(3)],
                            "chunk_sizes": [[g(f"cs{s}_{k}_{i}") for i in range(3)] for k in range(ncs)],
                            "voxel_offset": [0, 0, 0], "encoding": "raw", "resolution": [1, 1, 1]} for s in range(2)]}
    io0, _ = native_io({})
    src = precomputed_io.PrecomputedIO(info(src_dt), type(io0.accessor)())
    dst = precomputed_io.PrecomputedIO(info(dst_dt), type(io0.accessor)())
    si = src.info["scales"][1]
    rng = np.random.default_rng(2)
    nch = src.info["num_channels"]
    vol = rng.integers(0, 200, size=(nch,) + tuple(reversed(si["size"]))).astype(src_dt)
    def cells(cs):
        for x0 in range(0, si["size"][0], cs[0]):
            for y0 in range(0, si["size"][1], cs[1]):
                for z0 in range(0, si["size"][2], cs[2]):
                    yield (x0, min(x0 + cs[0], si["size"][0]), y0, min(y0 + cs[1], si["size"][1]), z0, min(z0 + cs[2], si["size"][2]))
    for cs in si["chunk_sizes"]:
        for cc in cells(cs):
            src.write_chunk(vol[:, cc[4]:cc[5], cc[2]:cc[3], cc[0]:cc[1]], "k1", cc)
    from neuroglancer_scripts.data_types import get_chunk_dtype_transformer
    try:
        convert_chunks.convert_chunks_for_scale(src, dst.info, dst, 1, get_chunk_dtype_transformer(src_dt, dst_dt, warn=False))
        for cs in si["chunk_sizes"]:
            for cc in cells(cs):
                got = dst.read_chunk("k1", cc)
                if not np.array_equal(got, vol[:, cc[4]:cc[5], cc[2]:cc[3], cc[0]:cc[1]]):
                    return {"reproduced": True, "detail": f"scale {si}: chunk {cc} differs after conversion"}
    except Exception as e:
        return {"reproduced": True, "detail": f"scale {si}: raised {e!r}"}
    return {"reproduced": False, "detail": f"scale {si}: destination equals source"}
