"""C05 / C18 -- the on-disk byte array of the sharded writer against the abstract container contract used by the
MiniShard proofs (contracts/c05_writer*.py: `+=` appends, `len` is the number of bytes appended), over the file-system
model. `__iter__` (a generator over 4096-byte reads) stays outside the executor: bounded units only."""
import pathlib

from pyvc import fsmodel
from pyvc.core import And, Not, SBool, SObj, implies
from pyvc.fsmodel import get_fs
from pyvc.sbytes import SBytes
from pyvc.verify import Contract, register

SFA = "neuroglancer_scripts.sharded_file_accessor."
BUF = "/tmp/buffers/sharded_ondisk_bytearray"


@register
class OnDiskByteArrayAdd(Contract):
    """representation invariant: the backing file holds exactly the `_len` bytes appended so far (it may be absent
    while nothing was appended). `arr + o` (also `arr += o`, `o + arr`): returns the same object, `_len` grows by
    len(o), the file holds old content followed by o, no other path is touched; with faults: only an OSError escapes."""
    target = SFA + "OnDiskByteArray.__add__"
    props = ("C05", "C18")
    use_at_call_sites = False
    configs = ("no-faults", "faults")

    def setup(self, c, cfg):
        from neuroglancer_scripts.sharded_file_accessor import OnDiskByteArray
        self.cfg = cfg
        self.n = c.int("len_before", inp=True)
        c.assume(self.n >= 0)
        self.old = SBytes.fresh(c, "appended_so_far")
        c.assume(self.old.len == self.n)
        self.exists0 = c.bool("file_exists", inp=True)
        c.assume(implies(self.n > 0, self.exists0))
        fs = get_fs()
        fs.faults = cfg == "faults"
        self.entry = fsmodel.FSEntry(BUF, self.exists0, self.old)
        fs.entries.append(self.entry)
        self.other = fsmodel.FSEntry("/tmp/buffers/other", True, SBytes.fresh(c, "other_file"))
        fs.entries.append(self.other)
        self.obj = SObj(OnDiskByteArray, {"_file": pathlib.Path(BUF), "_len": self.n})
        self.o = SBytes.fresh(c, "o")
        return (self.obj, self.o), {}

    def bind(self, fn, args, kwargs):
        return {}

    def ensures(self, c, result):
        yield ("returns-the-same-object", result is self.obj)
        yield ("len-grows-by-len(o)", self.obj.attrs["_len"] == self.n + self.o.len)
        ct = self.entry.content
        yield ("file-exists-afterwards", self.entry.exists is True or self.entry.exists == True)  # noqa: E712
        ok = isinstance(ct, SBytes)
        yield ("file-content-is-bytes", ok)
        if ok:
            yield ("file-length==len-after(representation invariant kept)", ct.len == self.n + self.o.len)
            i = c.int("byte_index", inp=True)
            c.assume(And(i >= 0, i < self.n + self.o.len))
            from pyvc.core import ite
            yield ("file-content==old-content-followed-by-o", ct.fn(i) == ite(i < self.n, self.old.fn(i), self.o.fn(i - self.n)))
        yield ("no-other-file-touched", self.other.initial)

    def check_raise(self, c, exc, b, cfg):
        c.prove(f"only-an-OSError-escapes-and-only-under-faults:{type(exc).__name__}", isinstance(exc, OSError) and cfg == "faults", kind="exc")
        c.prove("no-other-file-touched", self.other.initial, kind="exc")

    def replay(self, model, cfg, ob_name):
        from neuroglancer_scripts.sharded_file_accessor import OnDiskByteArray
        a = OnDiskByteArray()
        parts = [b"ab", b"", b"cde"]
        r = a
        for p in parts:
            r = r + p
        want = b"".join(parts)
        got = a._file.read_bytes() if a._file.exists() else None
        bad = r is not a or len(a) != len(want) or got != want or b"".join(iter(a)) != want
        return {"reproduced": bool(bad), "detail": f"after appending {parts}: len {len(a)}, file {got!r}, expected {want!r}"}
