"""C20 -- reported statistics (utils.readable_count, scripts/scale_stats.show_scales_info)."""
import z3

from pyvc import core
from pyvc.core import SBool, SInt, SObj, And, Or, Not, implies, ite, ctx
from pyvc.models_py import SCat, SDecStr
from pyvc.verify import Contract, Lemma, register

PREFIXES = ["", "ki", "Mi", "Gi", "Ti", "Pi", "Ei"]


@register
class ReadableCount(Contract):
    target = "neuroglancer_scripts.utils.readable_count"
    props = ("C20",)
    configs = ("lt2^53", "ge2^53")
    assume_ensures_at_call_sites = False   # callers only pass the count on

    def setup(self, c, cfg):
        count = c.int("count", inp=True)
        c.assume(count >= 0)
        if cfg == "lt2^53":
            c.assume(count < (1 << 53))
        else:
            c.assume(And(count >= (1 << 53), count < (1 << 80)))
        self.cfg = cfg
        return (count,), {}

    def requires(self, c, count):
        return [("count>=0", count >= 0)]

    def _parse(self, result):
        """result must be <decimal> ' ' [prefix]"""
        from pyvc.interp import SymStr
        if isinstance(result, SymStr) and result.parts:
            parts = result.parts
        elif isinstance(result, SCat):
            parts = result.parts
        else:
            return None
        if len(parts) < 2 or not isinstance(parts[0], SDecStr) or parts[1] != " ":
            return None
        prefix = "".join(parts[2:]) if all(isinstance(x, str) for x in parts[2:]) else None
        if prefix not in PREFIXES:
            return None
        return parts[0], PREFIXES.index(prefix)

    def _parts(self, result):
        return result.parts

    def ensures(self, c, result, count):
        pr = self._parse(result)
        if pr is None:
            return [("result-is-mantissa-space-prefix", False)]
        dec, k = pr
        M, p = dec.M.t, dec.p
        F = 1 << (10 * k)
        out = [("result-is-mantissa-space-prefix", True)]
        # |count/F - M/10^p| <= 0.5 * 10^-p  (+ float slack above 2^53)
        lhs = z3.ToReal(count.t) * (10 ** p) / F
        slack = 0 if self.cfg == "lt2^53" else lhs / (1 << 52)
        out.append(("within-rounding-distance-of-true-value",
                    SBool(z3.And(2 * (lhs - slack) - 1 <= 2 * z3.ToReal(M), 2 * z3.ToReal(M) <= 2 * (lhs + slack) + 1))))
        # at least two significant digits whenever the count has two digits
        out.append(("two-significant-digits", implies(count >= 10, SBool(M >= 10))))
        if not dec.grouped:
            ln = SCat(list(self._parts(result))).length()
            out.append(("at-most-six-characters-up-to-2^60", implies(count <= (1 << 60), ln <= 6)))
        else:
            out.append(("at-most-six-characters-up-to-2^60", Not(count <= (1 << 60))))
        return out

    def fresh_result(self, c, count):
        return SCat([SDecStr(c.int("M"), 0), " "])

    def replay(self, model, cfg, ob_name):
        from fractions import Fraction
        from neuroglancer_scripts.utils import readable_count
        n = model.get("count", 0)
        r = self.native(n)
        if r["reproduced"]:
            return r
        # the solver's witness lies in a band where the float model is loose: search the band edges
        for cand in self.bounded_models(cfg, "quick"):
            r2 = self.native(cand["count"])
            if r2["reproduced"]:
                r2["detail"] += f" (found by the bounded search around prefix boundaries; solver model was count={n})"
                return r2
        return r

    bounded_bound = "counts m*1024^k (+-3) for m in {1, 9.5, 9.95, 10, 99.5, 100, 999.5, 1000, 1023.5, 1023.99} and k = 0..7, plus 0..2000"

    def bounded_models(self, cfg, tier):
        from fractions import Fraction
        seen = set()
        for n in range(0, 2001):
            yield {"count": n}
        for k in range(0, 8):
            for m in ("1", "1.5", "9.5", "9.94", "9.95", "9.96", "10", "10.5", "99.5", "100", "999.4", "999.5", "1000", "1023.5", "1023.99"):
                base = int(Fraction(m) * (1 << (10 * k)))
                for d in (-3, -1, 0, 1, 3):
                    n = base + d
                    if n >= 0 and n not in seen:
                        seen.add(n)
                        yield {"count": n}

    @staticmethod
    def native(n):
        from fractions import Fraction
        from neuroglancer_scripts.utils import readable_count
        s = readable_count(n)
        num, _, prefix = s.partition(" ")
        bad = []
        if prefix not in PREFIXES:
            bad.append("prefix")
        else:
            k = PREFIXES.index(prefix)
            txt = num.replace(",", "")
            p = len(txt.split(".")[1]) if "." in txt else 0
            m = Fraction(txt)
            true = Fraction(n, 1 << (10 * k))
            if abs(true - m) > Fraction(1, 2 * 10 ** p) * (1 + Fraction(1, 1 << 40)):
                bad.append("rounding-distance")
            sig = len(txt.replace(".", "").lstrip("0"))
            if n >= 10 and sig < 2:
                bad.append("two-significant-digits")
            if n <= (1 << 60) and len(s) > 6:
                bad.append("six-characters")
        return {"reproduced": bool(bad), "detail": f"readable_count({n}) == {s!r}: violates {bad}" if bad else f"readable_count({n}) == {s!r} ok"}


@register
class ShowScalesInfo(Contract):
    """Bound stated: the number of scales and of chunk-size entries is fixed per configuration (layouts with one
    to four scales, one or two chunk sizes each, sharded and unsharded mixed; loops unrolled); every size, chunk
    size, shard_bits and the channel count are symbolic."""
    target = "neuroglancer_scripts.scripts.scale_stats.show_scales_info"
    props = ("C20",)
    use_at_call_sites = False
    # (data type, layout): a layout lists, per scale, (number of chunk-size entries, sharded?)
    LAYOUTS = {"U2+S1": ((2, False), (1, True)), "U1": ((1, False),), "S2": ((2, True),), "U1+U1+S1+U2": ((1, False), (1, False), (1, True), (2, False))}
    configs = tuple((dt, "U2+S1") for dt in ("uint8", "uint16", "uint32", "uint64", "float32")) + \
        (("uint16", "U1"), ("uint8", "S2"), ("uint32", "U1+U1+S1+U2"))

    def setup(self, c, cfg):
        def vec(n):
            v = [c.int(f"{n}{i}", inp=True) for i in range(3)]
            for x in v:
                c.assume(x >= 1)
            return v
        nch = c.int("num_channels", inp=True)
        c.assume(nch >= 1)
        sb = c.int("shard_bits", inp=True)
        c.assume(And(sb >= 0, sb <= 64))
        dt, layout = cfg
        self.scales = []
        for si, (ncs, sharded) in enumerate(self.LAYOUTS[layout]):
            sc = {"key": "abcdefgh"[si], "size": vec(f"s{si}_"), "chunk_sizes": [vec(f"c{si}{k}_") for k in range(ncs)]}
            if sharded:
                sc["sharding"] = {"@type": "neuroglancer_uint64_sharded_v1", "shard_bits": sb}
            self.scales.append(sc)
        self.nch = nch
        self.cfg = cfg
        info = {"data_type": dt, "num_channels": nch, "scales": self.scales}
        return (info,), {}

    def bind(self, fn, args, kwargs):
        return {}

    def ensures(self, c, result):
        import numpy as np
        from pyvc.interp import SymStr
        isz = np.dtype(self.cfg[0]).itemsize
        lines = [a[0] for a in c.print_log if a and isinstance(a[0], SymStr)]
        rc_calls = [b["count"] for (t, b, r) in c.calls_log if t.endswith("readable_count")]
        NL = sum(len(sc["chunk_sizes"]) for sc in self.scales) + 1
        out = [("one-line-per-(scale,chunk_size)-plus-total", len(lines) == NL and len(rc_calls) == NL)]
        if len(lines) != NL or len(rc_calls) != NL:
            return out
        exp = []
        for sc in self.scales:
            for cs in sc["chunk_sizes"]:
                n = 1
                for s, k in zip(sc["size"], cs):
                    q, r = c.divmod(s, k)
                    e = ite(r == 0, q, q + 1)
                    # per-axis lemma first (then the product equality is congruence)
                    q2, _ = c.divmod(s - 1, k)
                    c.prove("lemma:(s-1)//cs+1==ceil(s/cs)", q2 + 1 == e)
                    n = n * (q2 + 1)
                nbytes = sc["size"][0] * sc["size"][1] * sc["size"][2] * isz * self.nch
                exp.append((n, nbytes))
        for i, ((n, nbytes), line, rc) in enumerate(zip(exp, lines[:NL - 1], rc_calls[:NL - 1])):
            ints = [p for p in line.parts if isinstance(p, SInt)]
            out.append((f"line{i}:chunks==prod(ceil(size/chunk))", bool(ints) and ints[0] == n))
            out.append((f"line{i}:bytes==prod(size)*itemsize*channels", rc == nbytes))
        tints = [p for p in lines[NL - 1].parts if isinstance(p, SInt)]
        tot_n, tot_b = exp[0][0], exp[0][1]
        for (n, nbytes) in exp[1:]:
            tot_n, tot_b = tot_n + n, tot_b + nbytes
        out.append(("total-chunks==sum", bool(tints) and tints[0] == tot_n))
        out.append(("total-bytes==sum", rc_calls[NL - 1] == tot_b))
        return out

    def replay(self, model, cfg, ob_name):
        import contextlib
        import io
        import re
        from neuroglancer_scripts.scripts.scale_stats import show_scales_info
        g = lambda n: max(1, model.get(n, 1))
        vec = lambda n: [g(f"{n}{i}") for i in range(3)]
        scales = []
        for si, (ncs, sharded) in enumerate(self.LAYOUTS[cfg[1]]):
            sc = {"key": "abcdefgh"[si], "size": vec(f"s{si}_"), "chunk_sizes": [vec(f"c{si}{k}_") for k in range(ncs)]}
            if sharded:
                sc["sharding"] = {"shard_bits": model.get("shard_bits", 0)}
            scales.append(sc)
        info = {"data_type": cfg[0], "num_channels": g("num_channels"), "scales": scales}
        buf = io.StringIO()
        try:
            import warnings
            with contextlib.redirect_stdout(buf), warnings.catch_warnings():
                warnings.simplefilter("ignore")
                show_scales_info(info)
        except Exception as e:
            return {"reproduced": True, "detail": f"info={info}: show_scales_info raised {e!r}"}
        lines = buf.getvalue().splitlines()
        got = [int(re.search(r": (-?[\d,]+) chunks", l).group(1).replace(",", "")) for l in lines if "chunks" in l]
        exp = []
        for sc in info["scales"]:
            for cs in sc["chunk_sizes"]:
                n = 1
                for s, k in zip(sc["size"], cs):
                    n *= -(-s // k)
                exp.append(n)
        exp.append(sum(exp))
        return {"reproduced": got != exp, "detail": f"info={info}: printed chunk counts {got}, expected {exp}"}
