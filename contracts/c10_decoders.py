"""C10 -- decoders never misbehave on malformed chunk data
(_compressed_segmentation.decode_chunk_into/_decode_channel_into/_unpack_encoded_values,
chunk_encoding.*.decode, _jpeg.decode_chunk). The raw decoder is under c03_io.RawDecode."""
import itertools

import numpy as np
import z3

from pyvc import core
from pyvc.arrays import SArr
from pyvc.core import And, Not, Or, RaiseSig, SBool, SInt, SObj, Unsupported, ctx, implies, ite
from pyvc.interp import model
from pyvc.sbytes import SBytes, le_compose
from pyvc.verify import Contract, Lemma, register

from .c01_volume import snapshot

CS = "neuroglancer_scripts._compressed_segmentation."
CE = "neuroglancer_scripts.chunk_encoding."


def mk_cseg_args(c, nch, dt, cubic=False):
    dims = tuple(c.int(n, inp=True) for n in ("Z", "Y", "X"))
    for d in dims:
        c.assume(And(d >= 1, d <= (1 << 20)))
    bs = [c.int(n, inp=True) for n in ("bx", "by", "bz")]
    for b in bs:
        c.assume(And(b >= 1, b <= 256))
    chunk = SArr.fresh(c, "chunk0", dt, (nch,) + dims, kind="int")     # np.empty contents
    buf = SBytes.fresh(c, "buf")
    return chunk, buf, bs


@register
class DecodeChannelInto(Contract):
    """one channel, arbitrary bytes: writes only into chunk[channel] or raises InvalidFormatError"""
    target = CS + "_decode_channel_into"
    props = ("C10", "C02")
    use_at_call_sites = False
    configs = ("<u4", "<u8")
    timeout_ms = 40000
    path_budget = 1500

    def setup(self, c, cfg):
        self.chunk, self.buf, self.bs = mk_cseg_args(c, 2, cfg)
        self.before = snapshot(self.chunk)
        self.channel = 1
        return (self.chunk, self.channel, self.buf, self.bs), {}

    def bind(self, fn, args, kwargs):
        return {}

    def ensures(self, c, result):
        yield ("returns-None", result is None)
        idx, inb = self.chunk.forall(None)
        c.assume(inb)
        yield ("other-channels-untouched", implies(idx[0] != self.channel, self.chunk.elem(*idx) == self.before.elem(*idx)))
        # (decoder_vs_spec below is not registered: the obligations only discharged for bit widths 0 and
        #  32 within budget on the unchanged tree, so the decoder's conformance to the format is covered
        #  by the bounded unit of C02 instead -- see DESIGN.md)

    def decoder_vs_spec(self, c):
        """C02: the voxel written for an arbitrary position of the arbitrary block equals what the
        format description prescribes (for the bit widths where the obligation is within budget)."""
        from pyvc.sbytes import le_compose
        closed = getattr(c, "closed_loops", [])
        if not closed or len(closed[-1]) != 3:
            return
        (_, bz_i, _, _), (_, by_i, _, _), (_, bx_i, _, _) = closed[-1]
        bx, by, bz = self.bs
        C, Z, Y, X = self.chunk.shape
        isz = self.chunk.dtype.itemsize
        gx = (X - 1) // bx + 1 if False else None
        gxv = c.divmod(X - 1, bx)[0] + 1          # the code's ceil_div (same cached quotient terms)
        gyv = c.divmod(Y - 1, by)[0] + 1
        h = 8 * (bx_i + gxv * (by_i + gyv * bz_i))
        w0 = le_compose(self.buf.fn, h, 4)
        w1 = le_compose(self.buf.fn, h + 4, 4)
        bits = c.concretize(SInt(core._i(w0) / (1 << 24)))
        if bits is None:
            yield ("C02:bit-width-of-the-block-is-decided-on-this-path", False)
            return
        if bits in (1, 2):
            return                      # widths 1 and 2: covered by the bounded units of C02
        tab = 4 * SInt(core._i(w0) % (1 << 24))
        dz, dy, dx = c.int("dz"), c.int("dy"), c.int("dx")
        Zp, Yp, Xp = bz_i * bz + dz, by_i * by + dy, bx_i * bx + dx
        c.assume(And(dz >= 0, dz < bz, dy >= 0, dy < by, dx >= 0, dx < bx, Zp < Z, Yp < Y, Xp < X))
        k = dx + bx * (dy + by * dz)
        if bits == 0:
            idx = 0
        else:
            per = 32 // bits
            q, r = c.divmod(k, per)
            word = le_compose(self.buf.fn, 4 * w1 + 4 * q, 4)
            idx = None
            for s_ in range(per):
                v = SInt((core._i(word) / (1 << (bits * s_))) % (1 << bits))
                idx = v if idx is None else ite(r == s_, v, idx)
        exp = le_compose(self.buf.fn, tab + isz * idx, isz)
        yield (f"C02:decoded-voxel==format-description[bits={bits}]", self.chunk.elem(self.channel, Zp, Yp, Xp) == exp)

    def raises_when(self, c):
        from neuroglancer_scripts.chunk_encoding import InvalidFormatError
        return [(InvalidFormatError, True)]

    def replay(self, model, cfg, ob_name):
        return native_cseg_fuzz(model, cfg)


def native_cseg_fuzz(model, dt, n=400):
    """mutations of a valid encoding: only InvalidFormatError may escape; shape/dtype preserved"""
    from neuroglancer_scripts import _compressed_segmentation as cs
    from neuroglancer_scripts.chunk_encoding import InvalidFormatError
    rng = np.random.default_rng(11)
    g = lambda k, lo=1, hi=5: min(max(lo, model.get(k, lo)), hi) if isinstance(model.get(k, lo), int) else lo
    shape = (2, g("Z"), g("Y"), g("X"))
    bs = (g("bx", 1, 3), g("by", 1, 3), g("bz", 1, 3))
    a = rng.integers(0, 4, size=shape).astype(dt)
    good = bytes(cs.encode_chunk(a, bs))
    for k in range(n):
        b = bytearray(good)
        mode = k % 4
        if mode == 0 and b:
            b = b[:rng.integers(0, len(b))]
        elif mode == 1 and b:
            for _ in range(rng.integers(1, 4)):
                b[rng.integers(0, len(b))] = rng.integers(0, 256)
        elif mode == 2:
            b = bytearray(rng.integers(0, 256, size=rng.integers(0, 80), dtype="uint8").tobytes())
        else:
            pos = 4 * rng.integers(0, max(1, len(b) // 4))
            b[pos:pos + 4] = int(rng.integers(0, 2 ** 32)).to_bytes(4, "little")
        out = np.empty(shape, dt)
        try:
            r = cs.decode_chunk_into(out, bytes(b), bs)
            if r.shape != shape or r.dtype != np.dtype(dt):
                return {"reproduced": True, "detail": f"wrong shape/dtype {r.shape} {r.dtype}"}
        except InvalidFormatError:
            pass
        except Exception as e:
            return {"reproduced": True, "detail": f"shape {shape} block {bs} dtype {dt}: mutation {k} (mode {mode}) raised {e!r}"}
    return {"reproduced": False, "detail": f"{n} mutations: only InvalidFormatError"}


@register
class CeilDivForms(Lemma):
    name = "lemma:(a-1)//b+1==ceil(a/b)"
    props = ("C10",)

    def run(self, c, cfg):
        a, b = c.int("a", inp=True), c.int("b", inp=True)
        c.assume(And(a >= 1, b >= 1))
        q, r = c.divmod(a, b)
        c.prove("(a-1)//b+1==ceil(a/b)", c.divmod(a - 1, b)[0] + 1 == ite(r == 0, q, q + 1))


def native_cseg_valid(dt):
    """valid encodings (shared lookup tables, several blocks and channels) must decode to the encoded array"""
    from neuroglancer_scripts import _compressed_segmentation as cs
    for shape in ((1, 16, 16, 16), (2, 9, 8, 17), (3, 1, 1, 1), (1, 4, 4, 4)):
        for bs in ((8, 8, 8), (4, 4, 4), (2, 3, 1)):
            for fill in ("zeros", "const", "sparse"):
                a = np.zeros(shape, dt)
                if fill == "const":
                    a[...] = 7
                elif fill == "sparse":
                    a[0, 0, 0, 0] = 5
                buf = bytes(cs.encode_chunk(a, bs))
                try:
                    out = cs.decode_chunk_into(np.empty(shape, dt), buf, bs)
                except Exception as e:
                    return {"reproduced": True, "detail": f"valid encoding of a {fill} chunk, shape {shape}, block {bs}, {dt} ({len(buf)} bytes) rejected: {e!r}"}
                if not np.array_equal(out, a):
                    return {"reproduced": True, "detail": f"valid encoding of a {fill} chunk, shape {shape}, block {bs} decodes to a different array"}
    return {"reproduced": False, "detail": "valid encodings accepted"}


@register
class DecodeChannelIntoAbs(Contract):
    """call-site contract of _decode_channel_into (body verified above): may write chunk[channel],
    may raise InvalidFormatError"""
    target = CS + "_decode_channel_into"
    name = "_decode_channel_into[call-site]"
    props = ()

    def setup(self, c, cfg):
        raise NotImplementedError

    def apply(self, interp, fn, args, kwargs):
        c = ctx()
        b = self.bind(fn, args, kwargs)
        from neuroglancer_scripts.chunk_encoding import InvalidFormatError
        if interp.truth(c.bool("channel_invalid")):
            c.ghost["channel_decoder_raised"] = True
            raise RaiseSig(InvalidFormatError())
        chunk, ch = b["chunk"], b["channel"]
        junk = SArr.fresh(c, c.fresh_name("decoded"), chunk.dtype, chunk.shape[1:], kind="int", inp=False)
        chunk.getitem(ch)._assign(junk)
        c.calls_log.append((self.target, b, None))
        return None


@register
class DecodeChunkInto(Contract):
    target = CS + "decode_chunk_into"
    props = ("C10",)
    use_at_call_sites = False
    configs = tuple(itertools.product((1, 2, 3), ("<u4", "<u8")))

    def setup(self, c, cfg):
        nch, dt = cfg
        self.cfg = cfg
        self.chunk, self.buf, self.bs = mk_cseg_args(c, nch, dt)
        return (self.chunk, self.buf, self.bs), {}

    def bind(self, fn, args, kwargs):
        return {}

    def ensures(self, c, result):
        nch, dt = self.cfg
        yield ("returns-the-chunk-array-with-its-shape-and-dtype", result is self.chunk and result.dtype == np.dtype(dt))
        calls = [b for (t, b, r) in c.calls_log if t.endswith("_decode_channel_into")]
        yield ("every-channel-decoded-once-in-order", [b["channel"] for b in calls] == list(range(nch)))

    def check_return(self, c, result, b, cfg):
        self.cfg = cfg
        super().check_return(c, result, b, cfg)

    def raises_when(self, c):
        # "valid data is never rejected": decode_chunk_into itself may reject only a file that cannot hold what
        # the format requires -- the channel offset table plus every channel's block headers (lookup tables may
        # be shared between blocks, so nothing more can be demanded here), or a channel whose block headers
        # would run past the end of the file. Any other rejection must come from the channel decoder.
        from neuroglancer_scripts.chunk_encoding import InvalidFormatError
        nch, dt = self.cfg
        _, Z, Y, X = self.chunk.shape
        g = []
        for size, b in ((X, self.bs[0]), (Y, self.bs[1]), (Z, self.bs[2])):
            # ceil(size/b) written as (size-1)//b + 1 (equal for size, b >= 1: lemma:(a-1)//b+1==ceil(a/b) below), so
            # that the block count is the same opaque product as in the code and the goal stays linear
            g.append(c.divmod(size - 1, b)[0] + 1)
        headers = 8 * g[0] * g[1] * g[2]
        reasons = [SBool(z3.BoolVal(bool(c.ghost.get("channel_decoder_raised", False)))),
                   self.buf.len < nch * (4 + headers)]
        for ch in range(nch):
            reasons.append(And(self.buf.len >= 4 * nch, 4 * le_compose(self.buf.fn, 4 * ch, 4) + headers > self.buf.len))
        return [(InvalidFormatError, Or(*reasons))]

    def replay(self, model, cfg, ob_name):
        r = native_cseg_fuzz(model, cfg[1])
        if r["reproduced"]:
            return r
        return native_cseg_valid(cfg[1])


@register
class CsegEncoderDecode(Contract):
    """CompressedSegmentationEncoder.decode: array of exactly (C,Z,Y,X) and the encoder dtype, or
    InvalidFormatError"""
    target = CE + "CompressedSegmentationEncoder.decode"
    props = ("C10", "C03")
    use_at_call_sites = False
    configs = ("uint32", "uint64")

    def setup(self, c, cfg):
        from neuroglancer_scripts.chunk_encoding import CompressedSegmentationEncoder
        self.nch = c.int("num_channels", inp=True)
        c.assume(And(self.nch >= 1, self.nch <= 4))
        self.size = tuple(c.int(n, inp=True) for n in ("X", "Y", "Z"))
        for s in self.size:
            c.assume(And(s >= 1, s <= (1 << 20)))
        self.enc = SObj(CompressedSegmentationEncoder, {"num_channels": self.nch, "dtype": np.dtype(cfg).newbyteorder("<"),
                                                        "block_size": [8, 8, 8]})
        self.buf = SBytes.fresh(c, "buf")
        return (self.enc, self.buf, self.size), {}

    def bind(self, fn, args, kwargs):
        return {}

    def ensures(self, c, result):
        X, Y, Zz = self.size
        yield ("returns-array", isinstance(result, SArr) and result.ndim == 4)
        if isinstance(result, SArr) and result.ndim == 4:
            for k, want in enumerate((self.nch, Zz, Y, X)):
                yield (f"shape[{k}]-as-requested", result.shape[k] == want)
            yield ("dtype-of-encoder", result.dtype == self.enc.attrs["dtype"])

    def raises_when(self, c):
        from neuroglancer_scripts.chunk_encoding import InvalidFormatError
        return [(InvalidFormatError, True)]


@register
class DecodeChunkIntoAbs(Contract):
    target = CS + "decode_chunk_into"
    name = "decode_chunk_into[call-site]"
    props = ()

    def setup(self, c, cfg):
        raise NotImplementedError

    def apply(self, interp, fn, args, kwargs):
        c = ctx()
        b = self.bind(fn, args, kwargs)
        from neuroglancer_scripts.chunk_encoding import InvalidFormatError
        if interp.truth(c.bool("data_invalid")):
            raise RaiseSig(InvalidFormatError())
        return b["chunk"]


# --------------------------------------------------------------------------- JPEG (modulo the PIL contract)

import PIL.Image as _PILImage  # noqa: E402


class AnyOtherPILException(Exception):
    """stands for every exception PIL may raise that is not an OSError"""


PIL_BANDS = {"L": ("L",), "RGB": ("R", "G", "B"), "CMYK": ("C", "M", "Y", "K"), "I;16": ("I",), "F": ("F",)}


class SPilImage:
    _pyvc_symbolic = True

    def __init__(self, mode):
        self.mode = mode

    def getbands(self):
        return PIL_BANDS[self.mode]

    def truth(self):
        return True


@model(_PILImage.open)
def m_pil_open(interp, fp, *a, **k):
    c = ctx()
    c.trust("PIL.Image.open: raises some exception on data it does not recognise, else an image of some mode (decoded lazily)")
    if interp.truth(c.bool("pil_open_fails")):
        # PIL raises UnidentifiedImageError / OSError for most bad input, but also exceptions that are
        # not OSErrors (DecompressionBombError, SyntaxError, ValueError, struct.error ...): the assumed
        # contract is only "some Exception", so both kinds are explored
        if interp.truth(c.bool("pil_open_failure_is_an_OSError")):
            raise RaiseSig(OSError("cannot identify image file"))
        raise RaiseSig(AnyOtherPILException("decompression bomb / broken header / ..."))
    # any image format PIL recognises may be handed in: 8-bit grey, RGB, CMYK, and single-band images whose
    # samples are NOT 8-bit unsigned (16-bit grey, 32-bit float)
    for m in ("L", "RGB", "I;16", "F"):
        if interp.truth(c.bool(f"pil_mode_is_{m}")):
            return SPilImage(m)
    return SPilImage("CMYK")


def _asarray_pil(interp, img):
    c = ctx()
    c.trust("np.asarray(PIL image): raises some exception on truncated/corrupt data, else an array (rows, cols[, 3]) uint8")
    if interp.truth(c.bool("pil_decode_fails")):
        if interp.truth(c.bool("pil_decode_failure_is_an_OSError")):
            raise RaiseSig(OSError("image file is truncated"))
        raise RaiseSig(AnyOtherPILException("broken data stream / ..."))
    h, w = c.int("img_h"), c.int("img_w")
    c.assume(And(h >= 1, w >= 1))
    bands = len(PIL_BANDS[img.mode])
    shape = (h, w) if bands == 1 else (h, w, bands)
    dt = {"I;16": "uint16", "F": "float32"}.get(img.mode, "uint8")
    return SArr.fresh(c, c.fresh_name("pixels"), dt, shape, kind="real" if dt == "float32" else "int", inp=False)


from pyvc import models_numpy as _mn  # noqa: E402

_orig_asarray = _mn.m_asarray


@model(np.asarray, np.asanyarray)
def m_asarray_with_pil(interp, a, dtype=None, **kw):
    if isinstance(a, SPilImage):
        return _asarray_pil(interp, a)
    return _orig_asarray(interp, a, dtype=dtype, **kw)


import io as _io  # noqa: E402


@model(_io.BytesIO)
def m_bytesio(interp, b=b""):
    if isinstance(b, SBytes):
        from pyvc.models_env import SReadFile
        return SReadFile(b)
    return _io.BytesIO(b)


@register
class JpegDecodeChunk(Contract):
    target = "neuroglancer_scripts._jpeg.decode_chunk"
    props = ("C10",)
    use_at_call_sites = False
    configs = (1, 3)

    def setup(self, c, cfg):
        self.size = tuple(c.int(n, inp=True) for n in ("X", "Y", "Z"))
        for s in self.size:
            c.assume(s >= 1)
        self.nch = cfg
        return (SBytes.fresh(c, "buf"), self.size, cfg), {}

    def bind(self, fn, args, kwargs):
        return {}

    def ensures(self, c, result):
        X, Y, Zz = self.size
        yield ("returns-array", isinstance(result, SArr) and result.ndim == 4)
        if isinstance(result, SArr) and result.ndim == 4:
            for k, want in enumerate((self.nch, Zz, Y, X)):
                yield (f"shape[{k}]-as-requested", result.shape[k] == want)
            yield ("dtype-uint8", result.dtype == np.dtype("uint8"))

    def raises_when(self, c):
        from neuroglancer_scripts.chunk_encoding import InvalidFormatError
        return [(InvalidFormatError, True)]

    def replay(self, model, cfg, ob_name):
        from neuroglancer_scripts import _jpeg
        from neuroglancer_scripts.chunk_encoding import InvalidFormatError
        rng = np.random.default_rng(5)
        a = rng.integers(0, 255, size=(cfg, 4, 5, 6)).astype("uint8")
        good = _jpeg.encode_chunk(a, 90, "xy")
        for k in range(120):
            b = bytearray(good)
            if k % 3 == 0:
                b = b[:rng.integers(0, len(b))]
            elif k % 3 == 1:
                b[rng.integers(0, len(b))] = rng.integers(0, 256)
            else:
                b = bytearray(rng.integers(0, 256, size=50, dtype="uint8").tobytes())
            try:
                r = _jpeg.decode_chunk(bytes(b), (6, 5, 4), cfg)
                if r.shape != (cfg, 4, 5, 6):
                    return {"reproduced": True, "detail": f"wrong shape {r.shape}"}
            except InvalidFormatError:
                pass
            except Exception as e:
                return {"reproduced": True, "detail": f"mutation {k}: raised {e!r}"}
        return {"reproduced": False, "detail": "only InvalidFormatError"}
