"""Accessor-level plumbing of the sharded accessors (C05 / C14 / C04): a chunk request for scale `key`
is served by a scale object built from *that* scale's entry of the info -- every field of its
"sharding" dictionary (minishard_bits, shard_bits, preshift_bits, hash, both encodings), its chunk size
and its size -- and the request is passed on unchanged.

  ShardedHttpAccessor.fetch_chunk            (C14: the HTTP reader routes like the local one)
  ShardedFileAccessor.fetch_chunk            (C05)
  ShardedFileAccessor.get_volume_shard_spec  (C05, C04: writer side)

Callee abstractions used at these call sites only (local contracts): ShardVolumeSpec.__init__ records its
two arguments (it is a deterministic function of them; its own contract is in c09), and the scale
object's fetch_chunk is the abstract "returns some bytes or raises ShardedIOError" with its receiver and
argument logged.  ShardSpec.__init__ is inlined (its contract: c09.ShardSpecInit).
"""
import pathlib

import numpy as np
import z3

from pyvc import core
from pyvc.core import And, Not, Or, RaiseSig, SBool, SInt, SObj, SU64, ctx, implies
from pyvc.sbytes import SBytes
from pyvc.verify import Contract, register

SB = "neuroglancer_scripts.sharded_base."
ENC = (("raw", "raw"), ("gzip", "raw"), ("raw", "gzip"))


class VolumeSpecAbs(Contract):
    target = SB + "ShardVolumeSpec.__init__"
    name = "ShardVolumeSpec.__init__[call-site:arguments-recorded]"
    props = ()
    has_body = False

    def setup(self, c, cfg):
        raise NotImplementedError

    def apply(self, interp, fn, args, kwargs):
        from neuroglancer_scripts.sharded_base import ShardedIOError
        c = ctx()
        obj = args[0]
        cs = args[1] if len(args) > 1 else kwargs.get("chunk_sizes")
        sizes = args[2] if len(args) > 2 else kwargs.get("sizes")
        if interp.truth(c.bool(c.fresh_name("volume_spec_rejected"))):
            raise RaiseSig(ShardedIOError("rejected"))
        obj.attrs["_abs_chunk_sizes"] = list(cs)
        obj.attrs["_abs_sizes"] = list(sizes)
        c.calls_log.append((self.target, {"self": obj}, None))
        return None


class ScaleFetchAbs(Contract):
    target = SB + "ShardedScaleBase.fetch_chunk"
    name = "ShardedScaleBase.fetch_chunk[call-site]"
    props = ()
    has_body = False

    def setup(self, c, cfg):
        raise NotImplementedError

    def apply(self, interp, fn, args, kwargs):
        from neuroglancer_scripts.sharded_base import ShardedIOError
        c = ctx()
        if interp.truth(c.bool(c.fresh_name("scale_fetch_fails"))):
            raise RaiseSig(ShardedIOError("not found"))
        res = SBytes.fresh(c, c.fresh_name("chunk_bytes"), inp=False)
        c.calls_log.append((self.target, {"self": args[0], "chunk_coords": args[1]}, res))
        return res


def mk_info(c, enc):
    """two scales with independent symbolic descriptions (as ShardedAccessorBase.info leaves them: '@type'
    popped by the setter / by get_sharding_spec)"""
    scales, truth = [], []
    for i in range(2):
        mb, sb, pb = (c.int(f"s{i}_{n}", inp=True) for n in ("minishard_bits", "shard_bits", "preshift_bits"))
        size = [c.int(f"s{i}_size{d}", inp=True) for d in range(3)]
        cs = [c.int(f"s{i}_chunk{d}", inp=True) for d in range(3)]
        for v in (mb, sb, pb):
            c.assume(And(v >= 0, v < (1 << 32)))
        for v in size + cs:
            c.assume(And(v >= 1, v < (1 << 48)))
        sharding = {"minishard_bits": mb, "shard_bits": sb, "preshift_bits": pb, "hash": "identity",
                    "minishard_index_encoding": enc[0], "data_encoding": enc[1]}
        scales.append({"key": f"k{i}", "size": size, "chunk_sizes": [cs], "encoding": "raw", "resolution": [1, 1, 1],
                       "voxel_offset": [0, 0, 0], "sharding": sharding})
        truth.append({"mb": mb, "sb": sb, "pb": pb, "size": size, "cs": cs, "enc": enc})
    return {"type": "image", "data_type": "uint8", "num_channels": 1, "scales": scales}, truth


def spec_conds(spec, vol, t):
    """the scale object's two specs describe scale `t` of the info"""
    out = []
    a = spec.attrs if isinstance(spec, SObj) else {}
    for name, k in (("minishard_bits", "mb"), ("shard_bits", "sb"), ("preshift_bits", "pb")):
        f = a.get(name)
        out.append((f"shard_spec.{name}==info[key].sharding.{name}",
                    SBool(f.t == z3.Int2BV(core._i(t[k]), 64)) if isinstance(f, SU64) else False))     # 0 <= value < 2^32: injective
    out.append(("shard_spec.hash/encodings==info[key].sharding", a.get("hash") == "identity"
                and (a.get("minishard_index_encoding"), a.get("data_encoding")) == t["enc"]))
    va = vol.attrs if isinstance(vol, SObj) else {}
    cs, sz = va.get("_abs_chunk_sizes"), va.get("_abs_sizes")
    out.append(("shard_volume_spec-built-from-info[key].chunk_sizes[0]", isinstance(cs, list) and len(cs) == 3 and And(*[cs[d] == t["cs"][d] for d in range(3)])))
    out.append(("shard_volume_spec-built-from-info[key].size", isinstance(sz, list) and len(sz) == 3 and And(*[sz[d] == t["size"][d] for d in range(3)])))
    return out


class _FetchPlumbing(Contract):
    use_at_call_sites = False
    configs = tuple((k, e) for k in ("k0", "k1") for e in ENC)

    def local_contracts_for(self, cfg):
        return {VolumeSpecAbs.target: VolumeSpecAbs(), ScaleFetchAbs.target: ScaleFetchAbs()}

    def bind(self, fn, args, kwargs):
        return {}

    def _scale_call(self, c):
        calls = [x for x in c.calls_log if x[0] == ScaleFetchAbs.target]
        return calls[0] if len(calls) == 1 else None

    def ensures(self, c, result):
        call = self._scale_call(c)
        yield ("exactly-one-request-to-the-scale-object", call is not None)
        if call is None:
            return
        scale = call[1]["self"]
        t = self.truth[int(self.cfg[0][1])]
        yield ("scale-object-is-for-this-key", scale.attrs.get("key") == self.cfg[0])
        yield from spec_conds(scale.attrs.get("shard_spec"), scale.attrs.get("shard_volume_spec"), t)
        yield ("chunk-coordinates-passed-on-unchanged", call[1]["chunk_coords"] is self.cc)
        yield ("returns-what-the-scale-object-returned", result is call[2])
        yield from self.extra(c, scale)

    def extra(self, c, scale):
        return ()

    def check_raise(self, c, exc, b, cfg):
        from neuroglancer_scripts.sharded_base import ShardedIOError
        c.prove(f"raises-only-ShardedIOError:{type(exc).__name__}", isinstance(exc, ShardedIOError), kind="exc")


@register
class ShardedHttpFetchChunk(_FetchPlumbing):
    target = "neuroglancer_scripts.sharded_http_accessor.ShardedHttpAccessor.fetch_chunk"
    props = ("C14", "C05")

    def setup(self, c, cfg):
        import requests
        from neuroglancer_scripts.sharded_http_accessor import ShardedHttpAccessor
        self.cfg = cfg
        info, self.truth = mk_info(c, cfg[1])
        self.cc = tuple(c.int(n, inp=True) for n in ("xmin", "xmax", "ymin", "ymax", "zmin", "zmax"))
        acc = SObj(ShardedHttpAccessor, {"base_url": "http://host/ds/", "_session": requests.Session(),
                                         "shard_scale_dict": {}, "_info": info})
        self.acc = acc
        return (acc, cfg[0], self.cc), {}

    def extra(self, c, scale):
        yield ("scale-object-reads-under-base_url", scale.attrs.get("base_url") == "http://host/ds/")
        yield ("scale-object-cached-under-its-key", self.acc.attrs["shard_scale_dict"].get(self.cfg[0]) is scale
               and len(self.acc.attrs["shard_scale_dict"]) == 1)


@register
class ShardedFileFetchChunk(_FetchPlumbing):
    target = "neuroglancer_scripts.sharded_file_accessor.ShardedFileAccessor.fetch_chunk"
    props = ("C05",)

    def setup(self, c, cfg):
        from neuroglancer_scripts.sharded_file_accessor import ShardedFileAccessor
        self.cfg = cfg
        info, self.truth = mk_info(c, cfg[1])
        self.cc = tuple(c.int(n, inp=True) for n in ("xmin", "xmax", "ymin", "ymax", "zmin", "zmax"))
        acc = SObj(ShardedFileAccessor, {"base_dir": pathlib.Path("/data/dataset"), "shard_dict": {}, "ro_shard_dict": {},
                                         "kwargs": {}, "_info": info})
        self.acc = acc
        return (acc, cfg[0], self.cc), {}

    def extra(self, c, scale):
        yield ("scale-object-reads-under-base_dir/key", str(scale.attrs.get("base_dir")) == "/data/dataset/" + self.cfg[0])
        yield ("scale-object-cached-under-its-key", self.acc.attrs["ro_shard_dict"].get(self.cfg[0]) is scale
               and len(self.acc.attrs["ro_shard_dict"]) == 1 and not self.acc.attrs["shard_dict"])


@register
class GetVolumeShardSpec(Contract):
    target = "neuroglancer_scripts.sharded_file_accessor.ShardedFileAccessor.get_volume_shard_spec"
    props = ("C05", "C04")
    use_at_call_sites = False
    configs = _FetchPlumbing.configs + (("missing", ("raw", "raw")),)

    def local_contracts_for(self, cfg):
        return {VolumeSpecAbs.target: VolumeSpecAbs()}

    def setup(self, c, cfg):
        from neuroglancer_scripts.sharded_file_accessor import ShardedFileAccessor
        self.cfg = cfg
        info, self.truth = mk_info(c, cfg[1])
        for s in info["scales"]:
            s["sharding"]["@type"] = "neuroglancer_uint64_sharded_v1"      # the writer's info keeps '@type'
        acc = SObj(ShardedFileAccessor, {"base_dir": pathlib.Path("/data/dataset"), "shard_dict": {}, "ro_shard_dict": {},
                                         "kwargs": {}, "_info": info})
        return (acc, cfg[0]), {}

    def bind(self, fn, args, kwargs):
        return {}

    def ensures(self, c, result):
        yield ("returns-only-for-a-key-of-the-info", self.cfg[0] != "missing")
        ok = isinstance(result, tuple) and len(result) == 2
        yield ("returns-(volume-spec,shard-spec)", ok)
        if ok and self.cfg[0] != "missing":
            yield from spec_conds(result[1], result[0], self.truth[int(self.cfg[0][1])])

    def check_raise(self, c, exc, b, cfg):
        from neuroglancer_scripts.sharded_base import ShardedIOError
        c.prove(f"raises-only-ShardedIOError:{type(exc).__name__}", isinstance(exc, ShardedIOError), kind="exc")


# ---- native replay adapters (scenario sweeps on the real code, contracts/_native.py)

from . import _native  # noqa: E402


def _use(fn):
    return lambda self, model, cfg, ob_name: fn()


ShardedHttpFetchChunk.replay = _use(_native.sharded_http_plumbing_sweep)


# --------------------------------------------------------------------------- Shard.read_bytes (local files)

from pyvc import fsmodel as _fsmodel  # noqa: E402
from pyvc.fsmodel import get_fs as _get_fs  # noqa: E402


@register
class ShardReadBytes(Contract):
    """Shard.read_bytes(offset, length) == file[offset : offset + length] of <shard>.shard (legacy: .index
    below the header length, .data above, offset rebased) -- the concrete counterpart of the abstract
    read_bytes contract the reader proofs use; in particular a length of 0 reads nothing"""
    target = "neuroglancer_scripts.sharded_file_accessor.Shard.read_bytes"
    props = ("C05",)
    use_at_call_sites = False
    configs = ("modern", "legacy", "write-only")

    def setup(self, c, cfg):
        from neuroglancer_scripts.sharded_file_accessor import Shard
        from ._common import mk_shard_spec
        self.cfg = cfg
        self.H = c.int("header_byte_length", inp=True)
        c.assume(self.H >= 16)
        path = pathlib.Path("/data/dataset/key/0a.shard")
        self.obj = SObj(Shard, {"file_path": path, "root_dir": path.parent, "is_legacy": cfg == "legacy", "can_read_cmc": cfg != "write-only",
                                "header_byte_length": self.H, "shard_spec": mk_shard_spec(c), "shard_key_str": "0a"})
        fs = _get_fs()
        self.files = {}
        for suffix in (".shard", ".index", ".data"):
            content = SBytes.fresh(c, "file" + suffix.replace(".", "_"))
            e = _fsmodel.FSEntry("/data/dataset/key/0a" + suffix, True, content)
            fs.entries.append(e)
            self.files[suffix] = content
        self.off = c.int("offset", inp=True)
        self.ln = c.int("length", inp=True)
        c.assume(And(self.off >= 0, self.ln >= 0))
        return (self.obj, self.off, self.ln), {}

    def bind(self, fn, args, kwargs):
        return {}

    def ensures(self, c, result):
        yield ("readable-shard-only", self.cfg != "write-only")
        fs = _get_fs()
        opened = [p for (op, p) in fs.log if op.startswith("open")]
        yield ("opens-exactly-one-file", len(opened) == 1)
        if len(opened) != 1:
            return
        if self.cfg == "legacy":
            in_index = self.off < self.H
            yield ("legacy:index-below-the-header-length,data-above", opened[0].endswith(".index") if c.interp.truth(in_index) else opened[0].endswith(".data"))
            base = self.off if opened[0].endswith(".index") else self.off - self.H
        else:
            yield ("reads-<shard>.shard", opened[0].endswith("0a.shard"))
            base = self.off
        F = self.files["." + opened[0].rsplit(".", 1)[1]]
        ok = isinstance(result, SBytes)
        yield ("returns-bytes", ok)
        if not ok:
            return
        avail = core.smax(0, F.len - base)
        yield ("length==min(requested, what the file holds from the offset)(0 requested -> nothing)", result.len == core.smin(self.ln, avail))
        j = c.int("j", inp=True)
        yield ("content==file[offset+j]", implies(And(j >= 0, j < result.len), result.fn(j) == F.fn(base + j)))
        yield ("nothing-modified", all(e.initial for e in fs.entries))

    def raises_when(self, c):
        from neuroglancer_scripts.sharded_base import ShardedIOError
        return [(ShardedIOError, self.cfg == "write-only")]


def native_read_bytes_check(model):
    import tempfile
    from neuroglancer_scripts.sharded_file_accessor import Shard
    bad = []
    with tempfile.TemporaryDirectory() as td:
        p = pathlib.Path(td) / "0a.shard"
        p.write_bytes(bytes(range(40)))
        sh = Shard.__new__(Shard)
        sh.file_path, sh.root_dir, sh.is_legacy, sh.can_read_cmc, sh.header_byte_length = p, p.parent, False, True, 16
        cases = [(0, 0), (16, 0), (5, 7), (30, 20), (40, 3)]
        if "offset" in model and "length" in model:
            cases.insert(0, (min(max(0, model["offset"]), 45), min(max(0, model["length"]), 45)))
        for off, ln in cases:
            got = sh.read_bytes(off, ln)
            if got != bytes(range(40))[off:off + ln]:
                bad.append(f"Shard.read_bytes(offset={off}, length={ln}) on a 40-byte file returns {len(got)} bytes instead of {len(bytes(range(40))[off:off + ln])}")
    return {"reproduced": bool(bad), "detail": bad[0] if bad else "read_bytes returns exactly the requested range"}


ShardReadBytes.replay = lambda self, model, cfg, ob_name: native_read_bytes_check(model)


# --------------------------------------------------------------------------- ShardCMC.populate_minishard_dict (reader side)

class _TagDecoder(Contract):
    props = ()
    has_body = False
    which = ""

    def setup(self, c, cfg):
        raise NotImplementedError

    def apply(self, interp, fn, args, kwargs):
        c = ctx()
        src = args[1]
        out = SBytes.fresh(c, c.fresh_name(self.which + "_decoded"), inp=False)
        c.assume(out.len < (1 << 50))
        out.decoded_by = (self.which, src)
        c.calls_log.append((self.target, {"b": src}, out))
        return out


class IndexDecoderAbs(_TagDecoder):
    target = SB + "ShardSpec.index_decoder"
    name = "ShardSpec.index_decoder[call-site]"
    which = "index"


class DataDecoderTagAbs(_TagDecoder):
    target = SB + "ShardSpec.data_decoder"
    name = "ShardSpec.data_decoder[call-site:tagged]"
    which = "data"


class ReadableInitAbs(Contract):
    """ReadableMiniShardCMC(parent, buffer) at the call site: remembers both; its index starts with some id"""
    target = SB + "ReadableMiniShardCMC.__init__"
    name = "ReadableMiniShardCMC.__init__[call-site]"
    props = ()
    has_body = False

    def setup(self, c, cfg):
        raise NotImplementedError

    def apply(self, interp, fn, args, kwargs):
        c = ctx()
        obj, parent, buf = args[0], args[1], args[2]
        first = c.u64(c.fresh_name("first_id"))
        obj.attrs["parent_shard"] = parent
        obj.attrs["_buffer"] = buf
        obj.attrs["minishard_index"] = [first]
        c.calls_log.append((self.target, {"self": obj, "parent": parent, "buf": buf, "first": first}, None))
        return None


@register
class PopulateMinishardDict(Contract):
    """populate_minishard_dict of a readable shard with 2^minishard_bits index slots: every non-empty slot
    (start != end) is read at [header + start, header + end), decoded with the INDEX decoder (not the data
    decoder), turned into a ReadableMiniShardCMC of this shard and registered under the minishard number of
    its first id; empty slots are skipped; nothing else is read"""
    target = SB + "ShardCMC.populate_minishard_dict"
    props = ("C05", "C14")
    use_at_call_sites = False
    configs = (0, 1, "not-readable")
    timeout_ms = 60000

    def local_contracts_for(self, cfg):
        return {k.target: k() for k in (IndexDecoderAbs, DataDecoderTagAbs, ReadableInitAbs)}

    def setup(self, c, cfg):
        from neuroglancer_scripts.sharded_base import ShardCMC
        from ._common import mk_shard_spec
        self.cfg = cfg
        mb = 0 if cfg == "not-readable" else cfg
        self.nslots = 1 << mb
        self.H = 16 * self.nslots
        spec = mk_shard_spec(c)
        a = spec.attrs
        c.assume(SBool(z3.And(a["minishard_bits"].t == z3.BitVecVal(mb, 64), a["shard_bits"].t == z3.BitVecVal(0, 64), a["preshift_bits"].t == z3.BitVecVal(0, 64))))
        self.file = SBytes.fresh(c, "shard_file")
        self.obj = SObj(ShardCMC, {"shard_spec": spec, "can_read_cmc": cfg != "not-readable", "header_byte_length": self.H,
                                   "ro_minishard_dict": {}, "minishard_dict": {}})
        self.obj.ghost = {"file": self.file}
        self.slots = []
        for m in range(self.nslots):
            s_ = read_uint_le(self.file, 16 * m)
            e_ = read_uint_le(self.file, 16 * m + 8)
            self.slots.append((s_, e_))
        c.assume(self.file.len >= self.H)
        # well-formed index: ranges inside the file, start <= end, below 2^50
        for s_, e_ in self.slots:
            c.assume(And(s_ <= e_, self.H + e_ <= self.file.len, e_ < (1 << 50)))
        return (self.obj,), {}

    def bind(self, fn, args, kwargs):
        return {}

    def ensures(self, c, result):
        log = c.calls_log
        reads = [x for x in log if x[0].endswith("read_bytes")]
        inits = [x for x in log if x[0] == ReadableInitAbs.target]
        idec = [x for x in log if x[0] == IndexDecoderAbs.target]
        ddec = [x for x in log if x[0] == DataDecoderTagAbs.target]
        if self.cfg == "not-readable":
            yield ("a-shard-without-a-readable-file-reads-nothing", not reads and not inits)
            return
        yield ("the-data-decoder-is-not-applied-to-minishard-indices", not ddec)
        nonempty = [m for m, (s_, e_) in enumerate(self.slots) if c.interp.truth(s_ != e_)]
        yield ("one-minishard-object-per-non-empty-slot", len(inits) == len(nonempty) and len(idec) == len(nonempty))
        yield ("reads:the-shard-index-then-one-range-per-non-empty-slot", len(reads) == 1 + len(nonempty))
        if len(inits) != len(nonempty) or len(idec) != len(nonempty) or len(reads) != 1 + len(nonempty):
            return
        yield ("first-read-is-the-shard-index[0, header length)", And(reads[0][1]["offset"] == 0, reads[0][1]["length"] == self.H))
        # well-formed file (precondition, sharded.md): the index found in slot m lists ids of minishard number m
        for k, m in enumerate(nonempty):
            c.assume(SBool((inits[k][1]["first"].t & z3.BitVecVal(self.nslots - 1, 64)) == z3.BitVecVal(m, 64)))
        d = self.obj.attrs["ro_minishard_dict"]
        for k, m in enumerate(nonempty):
            s_, e_ = self.slots[m]
            rd = reads[1 + k][1]
            yield (f"slot{m}:reads-[header+start, header+end)", And(rd["offset"] == self.H + s_, rd["length"] == e_ - s_))
            raw = reads[1 + k][2]
            yield (f"slot{m}:the-bytes-read-go-through-the-index-decoder", idec[k][1]["b"] is raw)
            yield (f"slot{m}:minishard-object-built-from-the-decoded-index,with-this-shard-as-parent",
                   inits[k][1]["buf"] is idec[k][2] and inits[k][1]["parent"] is self.obj)
            first = inits[k][1]["first"]
            want_key = SU64(first.t & z3.BitVecVal(self.nslots - 1, 64))
            regs = [kk for kk, v in d.items() if v is inits[k][1]["self"]]
            yield (f"slot{m}:registered-once", len(regs) == 1)
            if len(regs) == 1:
                kk = regs[0]
                kt = kk if isinstance(kk, SU64) else SU64(z3.BitVecVal(int(kk), 64))
                yield (f"slot{m}:registered-under-the-minishard-number-of-its-first-id", kt == want_key)

    def raises_when(self, c):
        return []


def read_uint_le(sb, off):
    from pyvc.sbytes import le_compose
    return le_compose(sb.fn, off, 8)
