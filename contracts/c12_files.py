"""C12 -- file storage returns the latest stored bytes under every layout option (file_accessor.py),
modulo the file-system model of pyvc/fsmodel.py (the trusted base of this property)."""
import itertools
import pathlib

import numpy as np
import z3

from pyvc import core, fsmodel
from pyvc.core import And, Not, Or, RaiseSig, SBool, SInt, SObj, ctx, implies, ite
from pyvc.fsmodel import GzBytes, fmt, get_fs, str_eq
from pyvc.interp import harness
from pyvc.sbytes import SBytes
from pyvc.verify import Contract, Lemma, register

FA = "neuroglancer_scripts.file_accessor.FileAccessor."
BASE = "/data/dataset"
MIMES = ("application/octet-stream", "application/json", "image/jpeg")


def mk_acc(flat, gz, level=9):
    from neuroglancer_scripts.file_accessor import FileAccessor
    from neuroglancer_scripts.accessor import _CHUNK_PATTERN_FLAT
    from neuroglancer_scripts.file_accessor import _CHUNK_PATTERN_SUBDIR
    return SObj(FileAccessor, {"base_path": pathlib.Path(BASE), "chunk_pattern": _CHUNK_PATTERN_FLAT if flat else _CHUNK_PATTERN_SUBDIR,
                               "gzip": gz, "compresslevel": level})


def mk_cc(c, prefix=""):
    cc = tuple(c.int(prefix + n, inp=True) for n in ("xmin", "xmax", "ymin", "ymax", "zmin", "zmax"))
    for v in cc:
        c.assume(v >= 0)
    return cc


def documented_path(key, cc, flat, gz_suffix):
    """the statement: key/x-X_y-Y_z-Z (flat) or key/x-X/y-Y/z-Z, '.gz' when compression applies"""
    t = "{}/{}/{}-{}_{}-{}_{}-{}" if flat else "{}/{}/{}-{}/{}-{}/{}-{}"
    return fmt(t, BASE, key, *cc) + (".gz" if gz_suffix else "")


def four_names(key, cc):
    return [documented_path(key, cc, fl, g) for fl in (True, False) for g in (False, True)]


@register
class StoreChunk(Contract):
    target = FA + "store_chunk"
    props = ("C12",)
    use_at_call_sites = False
    configs = tuple(itertools.product((True, False), (True, False), MIMES, (True, False)))   # flat, gzip, mime, overwrite

    def setup(self, c, cfg):
        flat, gz, mime, ow = cfg
        self.cfg = cfg
        self.acc = mk_acc(flat, gz)
        self.cc = mk_cc(c)
        self.buf = SBytes.fresh(c, "buf")
        return (self.acc, self.buf, "key", self.cc), {"mime_type": mime, "overwrite": ow}

    def bind(self, fn, args, kwargs):
        return {}

    def _target(self):
        flat, gz, mime, ow = self.cfg
        compress = gz and mime not in ("application/json", "image/jpeg", "image/png")
        return documented_path("key", self.cc, flat, compress), compress

    def ensures(self, c, result):
        flat, gz, mime, ow = self.cfg
        fs = get_fs()
        path, compress = self._target()
        files = [e for e in fs.entries if not e.initial]
        yield ("exactly-one-file-written", len(files) == 1)
        if len(files) != 1:
            return
        e = files[0]
        yield ("written-at-the-documented-path(flat/deep,.gz-iff-compression-applies)", str_eq(e.path, path))
        yield ("existing-content-is-replaced-only-with-permission-to-overwrite", Or(ow, Not(e.pre_exists)))
        if compress:
            yield ("holds-a-complete-gzip-stream-of-the-bytes", isinstance(e.content, GzBytes) and e.content.complete and e.content.payload is not None)
            if isinstance(e.content, GzBytes):
                l, b = e.content.payload.eq_bytes(self.buf)
                yield ("gzip-payload-length", l)
                yield ("gzip-payload-bytes", b)
        else:
            yield ("holds-exactly-the-bytes", isinstance(e.content, SBytes))
            if isinstance(e.content, SBytes):
                l, b = e.content.eq_bytes(self.buf)
                yield ("content-length", l)
                yield ("content-bytes", b)

    def check_raise(self, c, exc, b, cfg):
        from neuroglancer_scripts.accessor import DataAccessError
        flat, gz, mime, ow = cfg
        fs = get_fs()
        c.prove(f"raises-only-DataAccessError:{type(exc).__name__}", isinstance(exc, DataAccessError), kind="exc")
        # without faults the only failure is 'exists and overwrite not allowed', and then nothing is written
        path, compress = self._target()
        c.prove("fails-only-when-overwriting-is-not-allowed", not ow, kind="exc")
        c.prove("existing-content-untouched-on-failure", all(e.initial for e in fs.entries), kind="exc")
        ent = [e for e in fs.entries if c.interp.truth(str_eq(e.path, path))]
        c.prove("...and-the-target-already-existed", len(ent) == 1 and ent[0].exists, kind="exc")


@register
class FetchChunk(Contract):
    """precondition (what every writer configuration establishes): exactly one of the four documented
    names of the chunk exists; .gz names hold complete gzip streams, plain names hold the bytes."""
    target = FA + "fetch_chunk"
    props = ("C12",)
    use_at_call_sites = False
    configs = tuple(itertools.product((True, False), (True, False), range(5)))   # reader flat, reader gzip, which name exists (4 = none)

    def setup(self, c, cfg):
        rflat, rgz, which = cfg
        self.cfg = cfg
        self.acc = mk_acc(rflat, rgz)
        self.cc = mk_cc(c)
        fs = get_fs()
        self.stored = SBytes.fresh(c, "stored")
        names = four_names("key", self.cc)
        for k, nm in enumerate(names):
            e = fsmodel.FSEntry(nm, k == which, None)
            if k == which:
                e.content = GzBytes(self.stored) if nm.endswith(".gz") else self.stored
            fs.entries.append(e)
        return (self.acc, "key", self.cc), {}

    def bind(self, fn, args, kwargs):
        return {}

    def ensures(self, c, result):
        rflat, rgz, which = self.cfg
        yield ("returns-only-when-the-chunk-exists", which != 4)
        if isinstance(result, SBytes):
            l, b = result.eq_bytes(self.stored)
            yield ("returns-the-stored-bytes:length", l)
            yield ("returns-the-stored-bytes:content", b)
        else:
            yield ("returns-bytes", False)
        yield ("nothing-written", all(e.initial for e in get_fs().entries))

    def raises_when(self, c):
        from neuroglancer_scripts.accessor import DataAccessError
        return [(DataAccessError, self.cfg[2] == 4)]


FILE_NAMES = ("info", "mesh/12:0", "a/b/c.json", "../escape", "a/../../escape", "/etc/passwd", "a/../b", "..")


def escapes(name):
    """statement: names that would resolve outside the dataset directory (any '..' part, or absolute)"""
    p = pathlib.PurePosixPath(name)
    return p.is_absolute() or ".." in p.parts


@register
class StoreFile(Contract):
    target = FA + "store_file"
    props = ("C12",)
    use_at_call_sites = False
    configs = tuple(itertools.product(FILE_NAMES, (True, False), ("application/octet-stream", "application/json"), (True, False)))

    def setup(self, c, cfg):
        name, gz, mime, ow = cfg
        self.cfg = cfg
        self.acc = mk_acc(False, gz)
        self.buf = SBytes.fresh(c, "buf")
        return (self.acc, name, self.buf), {"mime_type": mime, "overwrite": ow}

    def bind(self, fn, args, kwargs):
        return {}

    def ensures(self, c, result):
        name, gz, mime, ow = self.cfg
        fs = get_fs()
        yield ("names-outside-the-dataset-are-refused", not escapes(name))
        compress = gz and mime != "application/json"
        files = [e for e in fs.entries if not e.initial]
        yield ("exactly-one-file-written", len(files) == 1)
        if len(files) == 1:
            yield ("at-base/name(+.gz-iff-compression-applies)", files[0].path == BASE + "/" + name + (".gz" if compress else ""))
            yield ("existing-content-is-replaced-only-with-permission-to-overwrite", Or(ow, Not(files[0].pre_exists)))
            ct = files[0].content
            payload = ct.payload if isinstance(ct, GzBytes) else ct
            yield ("compressed-iff-applicable", isinstance(ct, GzBytes) == compress)
            l, b = payload.eq_bytes(self.buf)
            yield ("content-length", l)
            yield ("content-bytes", b)

    def check_raise(self, c, exc, b, cfg):
        from neuroglancer_scripts.accessor import DataAccessError
        name, gz, mime, ow = cfg
        fs = get_fs()
        if escapes(name):
            c.prove(f"refused-with-ValueError:{type(exc).__name__}", isinstance(exc, ValueError), kind="exc")
            c.prove("refused-without-touching-the-file-system", len(fs.log) == 0, kind="exc")
        else:
            c.prove(f"raises-only-DataAccessError:{type(exc).__name__}", isinstance(exc, DataAccessError), kind="exc")
            c.prove("fails-only-when-overwriting-is-not-allowed", not ow, kind="exc")
            c.prove("existing-content-untouched-on-failure", all(e.initial for e in fs.entries), kind="exc")


@register
class FetchFile(Contract):
    target = FA + "fetch_file"
    props = ("C12",)
    use_at_call_sites = False
    configs = tuple(itertools.product(FILE_NAMES, ("plain", "gz", "none")))

    def setup(self, c, cfg):
        name, which = cfg
        self.cfg = cfg
        self.acc = mk_acc(False, True)
        fs = get_fs()
        self.stored = SBytes.fresh(c, "stored")
        if not escapes(name):
            for suffix, kind in (("", "plain"), (".gz", "gz")):
                e = fsmodel.FSEntry(BASE + "/" + name + suffix, which == kind, None)
                if which == kind:
                    e.content = GzBytes(self.stored) if kind == "gz" else self.stored
                fs.entries.append(e)
        return (self.acc, name), {}

    def bind(self, fn, args, kwargs):
        return {}

    def ensures(self, c, result):
        name, which = self.cfg
        yield ("names-outside-the-dataset-are-refused", not escapes(name))
        yield ("returns-only-when-the-file-exists", which != "none")
        if isinstance(result, SBytes):
            l, b = result.eq_bytes(self.stored)
            yield ("returns-the-stored-bytes:length", l)
            yield ("returns-the-stored-bytes:content", b)
        else:
            yield ("returns-bytes", False)

    def check_raise(self, c, exc, b, cfg):
        from neuroglancer_scripts.accessor import DataAccessError
        name, which = cfg
        if escapes(name):
            c.prove(f"refused-with-ValueError:{type(exc).__name__}", isinstance(exc, ValueError), kind="exc")
            c.prove("refused-without-touching-the-file-system", len(get_fs().log) == 0, kind="exc")
        else:
            c.prove(f"raises-only-DataAccessError:{type(exc).__name__}", isinstance(exc, DataAccessError), kind="exc")
            c.prove("fails-only-when-the-file-is-missing", which == "none", kind="exc")


@register
class FileExists(Contract):
    target = FA + "file_exists"
    props = ("C12",)
    use_at_call_sites = False
    configs = tuple(itertools.product(FILE_NAMES, ("plain", "gz", "none")))

    def setup(self, c, cfg):
        name, which = cfg
        self.cfg = cfg
        self.acc = mk_acc(False, True)
        fs = get_fs()
        if not escapes(name):
            for suffix, kind in (("", "plain"), (".gz", "gz")):
                fs.entries.append(fsmodel.FSEntry(BASE + "/" + name + suffix, which == kind, SBytes.fresh(c, "x" + kind)))
        return (self.acc, name), {}

    def bind(self, fn, args, kwargs):
        return {}

    def ensures(self, c, result):
        name, which = self.cfg
        yield ("names-outside-the-dataset-are-refused", not escapes(name))
        yield ("True-iff-stored-plain-or-gz", result == (which != "none"))
        yield ("nothing-written", all(e.initial for e in get_fs().entries))

    def check_raise(self, c, exc, b, cfg):
        name, which = cfg
        c.prove(f"refused-with-ValueError-only-for-escaping-names:{type(exc).__name__}", isinstance(exc, ValueError) and escapes(name), kind="exc")
        c.prove("refused-without-touching-the-file-system", len(get_fs().log) == 0, kind="exc")


@harness
def store_then_fetch(writer, reader, buf1, buf2, cc):
    writer.store_chunk(buf1, "key", cc, mime_type="application/octet-stream", overwrite=True)
    writer.store_chunk(buf2, "key", cc, mime_type="application/octet-stream", overwrite=True)
    return reader.fetch_chunk("key", cc)


@register
class CrossConfigHistory(Lemma):
    """history over the real bodies: a chunk stored twice under one configuration is fetched by an
    accessor opened with any configuration and yields the bytes stored last (empty dataset before)."""
    name = "lemma:store-store-fetch-across-configurations"
    props = ("C12",)
    configs = tuple(itertools.product((True, False), (True, False), (True, False), (True, False)))

    def run(self, c, cfg):
        wflat, wgz, rflat, rgz = cfg
        cc = mk_cc(c)
        fs = get_fs()
        for nm in four_names("key", cc):
            fs.entries.append(fsmodel.FSEntry(nm, False, None))       # empty dataset directory
        b1, b2 = SBytes.fresh(c, "first"), SBytes.fresh(c, "second")
        try:
            res = c.interp.call(store_then_fetch, (mk_acc(wflat, wgz), mk_acc(rflat, rgz), b1, b2, cc))
        except RaiseSig as e:
            c.prove(f"history-raises-nothing:{type(e.exc).__name__}", False)
            return
        c.prove("returns-bytes", isinstance(res, SBytes))
        if isinstance(res, SBytes):
            l, b = res.eq_bytes(b2)
            c.prove("fetch-returns-the-bytes-stored-last:length", l)
            c.prove("fetch-returns-the-bytes-stored-last:content", b)


# --------------------------------------------------------------------------- ShardedFileAccessor plain files

SFA = "neuroglancer_scripts.sharded_file_accessor.ShardedFileAccessor."


def mk_sharded_acc():
    from neuroglancer_scripts.sharded_file_accessor import ShardedFileAccessor
    return SObj(ShardedFileAccessor, {"base_dir": pathlib.Path(BASE), "shard_dict": {}, "ro_shard_dict": {}, "kwargs": {}})


@register
class ShardedStoreFile(Contract):
    target = SFA + "store_file"
    props = ("C12",)
    use_at_call_sites = False
    configs = tuple(itertools.product(FILE_NAMES, (True, False)))

    def setup(self, c, cfg):
        name, ow = cfg
        self.cfg = cfg
        self.buf = SBytes.fresh(c, "buf")
        return (mk_sharded_acc(), name, self.buf), {"overwrite": ow}

    def bind(self, fn, args, kwargs):
        return {}

    def ensures(self, c, result):
        name, ow = self.cfg
        fs = get_fs()
        yield ("names-outside-the-dataset-are-refused", not escapes(name))
        files = [e for e in fs.entries if not e.initial]
        yield ("exactly-one-file-written", len(files) == 1)
        if len(files) == 1:
            yield ("at-base/name", files[0].path == BASE + "/" + name)
            yield ("existing-content-is-replaced-only-with-permission-to-overwrite", Or(ow, Not(files[0].pre_exists)))
            l, b = files[0].content.eq_bytes(self.buf)
            yield ("content-length", l)
            yield ("content-bytes", b)

    def check_raise(self, c, exc, b, cfg):
        name, ow = cfg
        fs = get_fs()
        if escapes(name):
            c.prove(f"refused-with-ValueError:{type(exc).__name__}", isinstance(exc, ValueError), kind="exc")
            c.prove("refused-without-touching-the-file-system", len(fs.log) == 0, kind="exc")
        else:
            c.prove(f"raises-only-OSError:{type(exc).__name__}", isinstance(exc, OSError), kind="exc")
            c.prove("fails-only-when-overwriting-is-not-allowed", not ow, kind="exc")
            c.prove("existing-content-untouched-on-failure", all(e.initial for e in fs.entries), kind="exc")


@register
class ShardedFetchFile(Contract):
    target = SFA + "fetch_file"
    props = ("C12",)
    use_at_call_sites = False
    configs = tuple(itertools.product(FILE_NAMES, (True, False)))

    def setup(self, c, cfg):
        name, exists = cfg
        self.cfg = cfg
        self.stored = SBytes.fresh(c, "stored")
        if not escapes(name):
            e = fsmodel.FSEntry(BASE + "/" + name, exists, self.stored if exists else None)
            get_fs().entries.append(e)
        return (mk_sharded_acc(), name), {}

    def bind(self, fn, args, kwargs):
        return {}

    def ensures(self, c, result):
        name, exists = self.cfg
        yield ("names-outside-the-dataset-are-refused", not escapes(name))
        yield ("returns-only-when-the-file-exists", exists)
        l, b = result.eq_bytes(self.stored) if isinstance(result, SBytes) else (False, False)
        yield ("returns-the-stored-bytes:length", l)
        yield ("returns-the-stored-bytes:content", b)

    def check_raise(self, c, exc, b, cfg):
        name, exists = cfg
        if escapes(name):
            c.prove(f"refused-with-ValueError:{type(exc).__name__}", isinstance(exc, ValueError), kind="exc")
            c.prove("refused-without-touching-the-file-system", len(get_fs().log) == 0, kind="exc")
        else:
            c.prove(f"raises-only-OSError:{type(exc).__name__}", isinstance(exc, OSError), kind="exc")
            c.prove("fails-only-when-the-file-is-missing", not exists, kind="exc")


@register
class ShardedFileExists(Contract):
    target = SFA + "file_exists"
    props = ("C12",)
    use_at_call_sites = False
    configs = tuple(itertools.product(FILE_NAMES, (True, False)))

    def setup(self, c, cfg):
        name, exists = cfg
        self.cfg = cfg
        if not escapes(name):
            get_fs().entries.append(fsmodel.FSEntry(BASE + "/" + name, exists, None))
        return (mk_sharded_acc(), name), {}

    def bind(self, fn, args, kwargs):
        return {}

    def ensures(self, c, result):
        name, exists = self.cfg
        yield ("names-outside-the-dataset-are-refused", not escapes(name))
        yield ("True-iff-the-file-exists", result == exists)

    def check_raise(self, c, exc, b, cfg):
        name, exists = cfg
        c.prove(f"refused-with-ValueError-only-for-escaping-names:{type(exc).__name__}", isinstance(exc, ValueError) and escapes(name), kind="exc")
        c.prove("refused-without-touching-the-file-system", len(get_fs().log) == 0, kind="exc")


# ---- native replay adapters (scenario sweeps on the real code, contracts/_native.py)

from . import _native  # noqa: E402


def _use(fn):
    return lambda self, model, cfg, ob_name: fn()


for _cls in (StoreChunk, FetchChunk, StoreFile, FetchFile, FileExists, CrossConfigHistory):
    _cls.replay = _use(_native.files_sweep)
for _cls in (ShardedStoreFile, ShardedFetchFile, ShardedFileExists):
    _cls.replay = _use(_native.confinement_sweep)
