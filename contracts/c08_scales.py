"""C08 -- generated scale metadata is consistent and usable (dyadic_pyramid.fill_scales_for_dyadic_pyramid,
choose_unit_for_key, utils.format_length, scripts/generate_scales_info.set_info_params).

Float inputs are abstracted soundly: axis delays round(log2(res/min res)) are arbitrary integers >= 0,
monotone in the resolution, 0 for the finest axis; ceil(log2(size/target)) is the least n with
target*2^n >= size (exact arithmetic; float accuracy at exact powers of two assumed, probed natively).
"""
import itertools

import numpy as np
import z3

from pyvc import core
from pyvc.core import And, Not, Or, RaiseSig, SBool, SInt, SObj, SReal, Unsupported, ctx, implies, ite, smax, smin
from pyvc.models_py import SCat, SDecStr
from pyvc.symseq import SymSeq
from pyvc.verify import Contract, Lemma, register

from .shared_grid import ceil_div_term

DP = "neuroglancer_scripts.dyadic_pyramid."
MORE_TARGETS = (4, 16, 32, 128, 512, 1024)        # thorough tier
TARGETS = (1, 2, 8, 64, 256)


def mk_full_info(c, max_size=10 ** 9):
    size = [c.int(f"size{i}", inp=True) for i in range(3)]
    for s in size:
        c.assume(And(s >= 1, s <= max_size))
    res = [c.real(f"res{i}", inp=True) for i in range(3)]
    for r in res:
        c.assume(r > 0)
    return {"type": "image", "data_type": "uint8", "num_channels": 1,
            "scales": [{"size": size, "resolution": res, "voxel_offset": [0, 0, 0], "encoding": "raw",
                        "chunk_sizes": [[64, 64, 64]], "key": "full"}]}, size, res


def delays_of(c, res):
    """the delay terms the code computed: the integers it obtained from math.log2 of a resolution ratio
    (by round(), or -- after a code change -- by int())"""
    seen = c.ghost.get("roundlog2", []) + c.ghost.get("trunclog2", [])
    return [d for (_, d) in seen]


@register
class ChooseUnitAbs(Contract):
    """call-site contract: some unit of LENGTH_UNITS, or NotImplementedError (body verified below)"""
    target = DP + "choose_unit_for_key"
    name = "choose_unit_for_key[call-site]"
    props = ()

    def setup(self, c, cfg):
        raise NotImplementedError

    def apply(self, interp, fn, args, kwargs):
        c = ctx()
        u = c.ghost.get("key_unit", "nm")
        if u is None:
            raise RaiseSig(NotImplementedError())
        return u


def nested_function(outer, name, closure_locals):
    """IFunc for a function nested in `outer`, with the given closure variables (the nested function
    is verified against a class invariant of its closure, established by the outer function)"""
    import ast
    from pyvc.interp import Frame, IFunc, function_ast, qualname
    node = next(n for n in ast.walk(function_ast(outer)) if isinstance(n, ast.FunctionDef) and n.name == name)
    fr = Frame(dict(closure_locals), None, outer.__globals__, qualname(outer))
    fr.harness_closure = True
    return IFunc(node, fr, qualname(outer) + ".<locals>." + name)


def _n_halvings(size, t):
    """least n with t*2^n >= size  (== ceil(log2(size/t)) in exact arithmetic)"""
    r = z3.IntVal(81)
    for k in range(80, -41, -1):
        cond = (size.t <= t * (1 << k)) if k >= 0 else (size.t * (1 << -k) <= t)
        r = z3.If(cond, z3.IntVal(k), r)
    return SInt(r)


@register
class FillScalesOuter(Contract):
    """the outer function: delays, number of levels, max_scales; the levels themselves are described
    lazily by downscale_info(L), verified separately for an arbitrary L against the closure invariant"""
    target = DP + "fill_scales_for_dyadic_pyramid"
    name = "fill_scales_for_dyadic_pyramid[outer]"
    props = ("C08",)
    use_at_call_sites = False
    configs = tuple((t, ms, u) for t in TARGETS for ms in (None,) for u in ("nm",)) + ((64, "max_scales", "um"), (64, None, None))
    timeout_ms = 40000

    def configs_for(self, tier):
        extra = tuple((t, None, "nm") for t in MORE_TARGETS) if tier == "thorough" else ()
        return list(self.configs) + list(extra)

    def setup(self, c, cfg):
        t, ms, unit = cfg
        self.cfg = cfg
        self.info, self.size, self.res = mk_full_info(c)
        c.ghost["key_unit"] = unit
        self.max_scales = None
        if ms:
            self.max_scales = c.int("max_scales", inp=True)
            c.assume(self.max_scales >= 0)
        return (self.info,), {"target_chunk_size": t, "max_scales": self.max_scales}

    def bind(self, fn, args, kwargs):
        return {}

    def raises_when(self, c):
        return [(NotImplementedError, self.cfg[2] is None)]

    def ensures(self, c, result):
        t, ms, unit = self.cfg
        seq = result.get("scales") if isinstance(result, dict) else None
        yield ("returns-the-same-info-with-scales-described-per-level", isinstance(seq, SymSeq) and result is self.info)
        if not isinstance(seq, SymSeq):
            return
        delays = delays_of(c, self.res)
        yield ("one-delay-per-axis", len(delays) == 3)
        if len(delays) != 3:
            return
        # the delays are the documented ones: round(log2(res_k / finest resolution)) -- the same function
        # symbol as the round(math.log2(.)) model, so any other rounding of the logarithm is a different term
        from pyvc.interp import _ROUNDLOG2
        finest = smin(smin(self.res[0], self.res[1]), self.res[2])
        for k in range(3):
            ratio = self.res[k] / finest
            sd = c.int(f"documented_delay{k}")
            c.assume(SBool(core._i(sd) == _ROUNDLOG2(core._r(ratio))))
            # meaning of the spec's function for the ratios in the stated range (counterexamples are then
            # real resolutions at which the two roundings differ): 2^(sd-1/2) <= ratio <= 2^(sd+1/2)
            c.assume(And(sd >= 0, sd <= 64))
            for j in range(0, 65):
                c.assume(implies(sd == j, And(2 * ratio * ratio >= (1 << (2 * j)), ratio * ratio <= (1 << (2 * j + 1)))))
            yield (f"delay[{k}]==round(log2(res[{k}]/finest-resolution))", delays[k] == sd)
        # stated bound: voxel-size ratios between axes are below 2^60
        c.assume(And(*[d <= 60 for d in delays]))
        # closure invariant handed to downscale_info
        yield ("delays-non-negative", And(*[d >= 0 for d in delays]))
        yield ("finest-axis-has-delay-0", Or(*[d == 0 for d in delays]))
        for a, b in itertools.permutations(range(3), 2):
            yield (f"coarser-voxels-start-later(res{a}<=res{b} => delay{a}<=delay{b})",
                   implies(self.res[a] <= self.res[b], delays[a] <= delays[b]))
        n_levels = seq.length()
        yield ("at-least-one-scale", n_levels >= 1)
        if self.max_scales is not None:
            yield ("max_scales-respected", implies(self.max_scales >= 1, n_levels <= self.max_scales))
            return
        # the last level (size_k == ceil(full_k / 2^max(0, L-d_k)) by the level contract) fits in at most
        # two target-size chunks per axis
        for k in range(3):
            e = smax(0, n_levels - 1 - delays[k])
            if not c.interp.truth(e <= 90):
                yield (f"last-level-exponent-bounded[{k}]", False)
                continue
            f = c.pow2(e)
            yield (f"last-level-size[{k}]<=2*target", ceil_div_term(c, self.size[k], f) <= 2 * t)

    def replay(self, model, cfg, ob_name):
        if ob_name.startswith("delay["):
            model = dict(model, size0=1000, size1=1000, size2=1000)     # a wrong delay shows in the level sizes
        return native_scales_check(model, cfg)

    bounded_bound = "sizes from {1,3,64,65,129,1000}, resolutions from {0.8,1,1.2,3,10}"

    def bounded_models(self, cfg, tier):
        vals = (1, 3, 64, 65, 129, 1000)
        rs = (0.8, 1.0, 1.2, 3.0, 10.0)
        for s in itertools.product(vals, repeat=3):
            for r in itertools.combinations_with_replacement(rs, 3):
                yield {"size0": s[0], "size1": s[1], "size2": s[2], "res": list(r)}


def spec_chunk_exponents(c, L, delays, te):
    """closed form of the chunk exponents (from the docstring: base exponent lowered so that about
    target^3 voxels are kept, finer axes get the anisotropy left to catch up)"""
    D = smax(smax(delays[0], delays[1]), delays[2])
    anis = [smax(0, D - d - L) for d in delays]
    S = anis[0] + anis[1] + anis[2]
    excess = S - 3 * te
    nz = ite(anis[0] != 0, 1, 0) + ite(anis[1] != 0, 1, 0) + ite(anis[2] != 0, 1, 0)
    return anis, S, excess, nz


@register
class DownscaleInfo(Lemma):
    """downscale_info(L) for an arbitrary level L, interpreted from the real source with a closure that
    satisfies the invariant proved of the outer function (delays >= 0, one of them 0)."""
    name = "fill_scales_for_dyadic_pyramid.downscale_info[arbitrary level]"
    props = ("C08",)
    configs = tuple((t, u) for t in TARGETS for u in ("nm",)) + ((64, "um"), (8, "pm"))
    timeout_ms = 40000
    path_budget = 4000

    def configs_for(self, tier):
        extra = tuple((t, "nm") for t in MORE_TARGETS) if tier == "thorough" else ()
        return list(self.configs) + list(extra)

    def run(self, c, cfg):
        from neuroglancer_scripts import dyadic_pyramid
        t, unit = cfg
        te = t.bit_length() - 1
        info, size, res = mk_full_info(c)
        delays = [c.int(f"delay{i}", inp=True) for i in range(3)]
        c.assume(And(*[d >= 0 for d in delays]))
        c.assume(Or(*[d == 0 for d in delays]))
        L = c.int("L", inp=True)
        c.assume(L >= 0)
        f = nested_function(dyadic_pyramid.fill_scales_for_dyadic_pyramid, "downscale_info",
                            {"axis_level_delays": delays, "full_scale_info": info["scales"][0],
                             "target_chunk_exponent": te, "key_unit": unit})
        try:
            lvl = c.interp.call(f, (L,))
        except RaiseSig as e:
            c.prove(f"downscale_info-raises-nothing(its-own-asserts-hold):{type(e.exc).__name__}", False)
            return
        for k in range(3):
            fk = c.pow2(smax(0, L - delays[k]))
            c.prove(f"size[{k}]==ceil(full/2^max(0,L-delay))", lvl["size"][k] == ceil_div_term(c, size[k], fk))
            c.prove(f"resolution[{k}]==full*same-factor", lvl["resolution"][k] == res[k] * fk)
        cs = lvl["chunk_sizes"]
        ok = isinstance(cs, list) and len(cs) == 1 and len(cs[0]) == 3
        c.prove("one-chunk-size-triple", ok)
        if ok:
            exps = []
            for k in range(3):
                v = cs[0][k]
                if isinstance(v, int):
                    is_p2 = v >= 1 and (v & (v - 1)) == 0
                    ex = v.bit_length() - 1
                else:
                    is_p2 = isinstance(v, SInt) and z3.is_app(v.t) and v.t.decl().name() == "pow2"
                    ex = SInt(v.t.arg(0)) if is_p2 else None
                c.prove(f"chunk[{k}]-is-a-power-of-two", is_p2)
                if is_p2:
                    exps.append(ex)
            if len(exps) == 3:
                tot = exps[0] + exps[1] + exps[2]
                c.prove("chunk-exponents-non-negative", And(*[x >= 0 for x in exps]))
                c.prove("chunk-holds-about-target^3-voxels(|sum exponents - 3*target exponent| <= 1)",
                        And(tot - 3 * te <= 1, 3 * te - tot <= 1))
                anis, S, excess, nz = spec_chunk_exponents(c, L, delays, te)
                c.prove("isotropic-voxels(no anisotropy left)=>cubic-target-size-chunks",
                        implies(S == 0, And(*[x == te for x in exps])))
                for a, b in itertools.permutations(range(3), 2):
                    c.prove(f"finer-axis-gets-the-larger-chunk(delay{a}<=delay{b} => exp{a}>=exp{b})",
                            implies(delays[a] <= delays[b], exps[a] >= exps[b]))
        key = lvl.get("key")
        c.prove("key==format(min resolution)+unit", isinstance(key, SCat) and len(key.parts) == 2
                and isinstance(key.parts[0], SDecStr) and key.parts[1] == unit)
        c.prove("other-fields-kept", lvl.get("encoding") == "raw" and lvl.get("voxel_offset") == [0, 0, 0])

    def replay(self, model, cfg, ob_name):
        return {"reproduced": False, "detail": f"level-description lemma refuted: {model}"}


@register
class ConsecutiveSizes(Lemma):
    """consecutive levels differ by factor 1 or 2 per axis: ceil(ceil(s/2^a)/2) == ceil(s/2^(a+1)),
    so compute_dyadic_downscaling's own factor test accepts every generated pair"""
    name = "lemma:consecutive-levels-differ-by-1-or-2"
    props = ("C08",)

    def run(self, c, cfg):
        s = c.int("size", inp=True)
        a = c.int("a", inp=True)
        c.assume(And(s >= 1, a >= 0, a <= 60))
        p = c.pow2(a)
        p2 = c.pow2(a + 1)
        cur = ceil_div_term(c, s, p)
        nxt = ceil_div_term(c, s, p2)
        half = ceil_div_term(c, cur, 2)
        c.prove("ceil(ceil(s/2^a)/2)==ceil(s/2^(a+1))", nxt == half)
        c.prove("new-size-is-old-size-or-its-half-rounded-up", Or(nxt == cur, nxt == half))


def native_scales_check(model, cfg, clauses=("sizes", "last", "chunks")):
    """real fill_scales_for_dyadic_pyramid on the model's sizes / resolutions; statement clauses on python ints"""
    import copy
    import math
    from fractions import Fraction
    from neuroglancer_scripts.dyadic_pyramid import fill_scales_for_dyadic_pyramid
    t = cfg[0]
    size = [min(max(1, model.get(f"size{i}", 1)), 10 ** 9) for i in range(3)]
    if "res" in model:
        res = list(model["res"])
    else:
        res = []
        for i in range(3):
            v = model.get(f"res{i}", [1, 1])
            if isinstance(v, str):                     # algebraic number printed by z3: '1.4142135623?'
                v = v.rstrip("?")
            res.append(float(Fraction(v[0], v[1])) if isinstance(v, list) else float(v))
        res = [r if 1e-3 < r < 1e9 else 1.0 for r in res]
    info = {"type": "image", "data_type": "uint8", "num_channels": 1, "scales": [
        {"size": size, "resolution": res, "voxel_offset": [0, 0, 0], "encoding": "raw", "chunk_sizes": [[64, 64, 64]], "key": "full"}]}
    ms = model.get("max_scales") if cfg[1] else None
    try:
        fill_scales_for_dyadic_pyramid(info, target_chunk_size=t, max_scales=ms)
    except NotImplementedError:
        return {"reproduced": False, "detail": "no unit for the key (refusal)"}
    except Exception as e:
        return {"reproduced": True, "detail": f"size {size} resolution {res} target {t}: raised {e!r}"}
    sc = info["scales"]
    d = [int(round(math.log2(r / min(res)))) for r in res]
    bad = []
    for L, s in enumerate(sc):
        f = [2 ** max(0, L - dk) for dk in d]
        if s["size"] != [-(-a // b) for a, b in zip(size, f)]:
            bad.append(f"level {L} size {s['size']}")
        for v in s["chunk_sizes"][0]:
            if v & (v - 1) or v < 1:
                bad.append(f"level {L} chunk {v} not a power of two")
    if ms is None and "last" in clauses:
        if any(v > 2 * t for v in sc[-1]["size"]):
            bad.append(f"last level size {sc[-1]['size']} does not fit in two chunks of {t} per axis")
    if "keys" in clauses:
        keys = [s["key"] for s in sc]
        if len(set(keys)) != len(keys):
            bad.append(f"duplicate keys {keys}")
    if "compat" in clauses:
        for a, b in zip(sc, sc[1:]):
            for k in range(3):
                f = 1 if a["size"][k] == b["size"][k] else 2
                hc = a["chunk_sizes"][0][k] // f
                nsz, ns = b["chunk_sizes"][0][k], b["size"][k]
                if hc == 0 or min(nsz, ns) > 2 * hc or (ns > nsz and nsz % hc != 0):
                    bad.append(f"scales {a['key']}->{b['key']} axis {k}: chunk {a['chunk_sizes'][0][k]} -> {nsz} not processable")
    return {"reproduced": bool(bad), "detail": f"size {size} resolution {res} target {t}: " + ("; ".join(bad[:3]) if bad else "ok")}


UNITS = (("km", 1e-12), ("m", 1e-9), ("mm", 1e-6), ("um", 1e-3), ("nm", 1.), ("pm", 1e3))


def _rhe_int(x):
    """round-half-even of a real term as an Int term"""
    from pyvc.models_numpy import round_half_even_real
    return SInt(z3.ToInt(round_half_even_real(x).t))


@register
class ChooseUnitForKey(Contract):
    target = DP + "choose_unit_for_key"
    name = "choose_unit_for_key[body]"
    props = ("C08",)
    use_at_call_sites = False
    timeout_ms = 30000

    def setup(self, c, cfg):
        self.res = c.real("resolution_nm", inp=True)
        c.assume(self.res > 0)
        return (self.res,), {}

    def bind(self, fn, args, kwargs):
        return {}

    def _ok(self, f):
        a = _rhe_int(self.res * f)
        b = _rhe_int(self.res * 2 * f)
        return And(a != 0, a != b)

    def ensures(self, c, result):
        names = [u for u, _ in UNITS]
        yield ("returns-a-known-unit", result in names)
        if result not in names:
            return
        i = names.index(result)
        yield ("key-is-non-zero-and-separates-res-from-2*res", self._ok(UNITS[i][1]))
        for j in range(i):
            yield (f"coarsest-such-unit(not {names[j]})", Not(self._ok(UNITS[j][1])))

    def raises_when(self, c):
        return [(NotImplementedError, And(*[Not(self._ok(f)) for _, f in UNITS]))]


@register
class FormatLength(Contract):
    target = "neuroglancer_scripts.utils.format_length"
    props = ("C08",)
    use_at_call_sites = False
    configs = tuple(u for u, _ in UNITS)

    def setup(self, c, cfg):
        self.x = c.real("length_nm", inp=True)
        c.assume(self.x >= 0)
        return (self.x, cfg), {}

    def bind(self, fn, args, kwargs):
        return {}

    def ensures(self, c, result, cfg=None):
        ok = isinstance(result, SCat) and len(result.parts) == 2 and isinstance(result.parts[0], SDecStr)
        yield ("rounded-number+unit", ok and result.parts[0].p == 0 and result.parts[1] == self._cfg)
        if ok:
            yield ("number==round_half_even(length*unit factor)", result.parts[0].M == _rhe_int(self.x * dict(UNITS)[self._cfg]))

    def check_return(self, c, result, b, cfg):
        self._cfg = cfg
        super().check_return(c, result, b, cfg)


@register
class KeysIncreaseIsotropic(Lemma):
    """isotropic voxels: the level keys round(r*u*2^L) strictly increase with L (hence are pairwise
    distinct), given what choose_unit_for_key guarantees (round(r*u) != 0 and key(r) != key(2r))."""
    name = "lemma:isotropic-keys-strictly-increase"
    props = ("C08",)

    def run(self, c, cfg):
        x = c.real("r_times_unit", inp=True)     # r*u at level 0
        c.assume(x > 0)
        k0, k1 = _rhe_int(x), _rhe_int(x * 2)
        c.assume(And(k0 != 0, k0 != k1))           # choose_unit_for_key's postcondition
        c.prove("level0<level1", k0 < k1)
        c.prove("r*u>1/2", x > 0.5)
        y = c.real("r_times_unit_times_2^L", inp=True)     # any later level: y >= 2x > 1
        c.assume(y > 1)
        c.prove("later-levels:round(2y)>round(y)", _rhe_int(y * 2) > _rhe_int(y))


@register
class ChunkCompatIsotropic(Lemma):
    """isotropic voxels and target chunk size >= 2: consecutive scales have the chunk sizes that
    compute_dyadic_downscaling's guard accepts (both 2^t; factor 2 unless the size is already 1)."""
    name = "lemma:isotropic-chunks-accepted-by-pyramid-computation"
    props = ("C08",)
    configs = tuple(t for t in TARGETS if t >= 2)

    def run(self, c, t):
        old_size = c.int("old_size", inp=True)
        c.assume(old_size >= 1)
        new_size = ceil_div_term(c, old_size, 2)
        f = ite(old_size == new_size, 1, 2)
        hc, _ = c.divmod(t, 2) if False else (ite(f == 1, t, t // 2), None)
        nsz = t
        c.prove("half-chunk>=1", hc >= 1)
        c.prove("new-chunk-spans-at-most-two-half-chunks", smin(nsz, new_size) <= 2 * hc)
        q, r = c.divmod(nsz, ite(f == 1, t, t // 2)) if False else (None, ite(f == 1, t % t, t % (t // 2)))
        c.prove("aligned-chunk-grids", Or(new_size <= nsz, r == 0))


GSI = "neuroglancer_scripts.scripts.generate_scales_info."


@register
class SetInfoParams(Contract):
    """branch-complete postcondition on type / encoding / data_type / block size"""
    target = GSI + "set_info_params"
    props = ("C08",)
    use_at_call_sites = False
    configs = tuple(itertools.product((None, "image", "segmentation"), (None, "raw", "jpeg", "compressed_segmentation"),
                                      ("uint8", "uint16", "uint32", "uint64", "float32"),
                                      ("absent", "raw", "compressed_segmentation"), (None, "image", "segmentation"))) + \
        tuple((None, e, dt, e0, None, "own-block-size") for e in (None, "compressed_segmentation")
              for dt in ("uint8", "uint16", "uint32", "uint64") for e0 in ("absent", "compressed_segmentation"))

    def setup(self, c, cfg):
        dtype_arg, enc_arg, dt, enc0, type0 = cfg[:5]
        self.own_bs = len(cfg) > 5          # the input info already carries its own block size
        self.cfg = cfg[:5]
        sc = {"size": [1, 1, 1]}
        if self.own_bs:
            sc["compressed_segmentation_block_size"] = [4, 4, 4]
        if enc0 != "absent":
            sc["encoding"] = enc0
        self.info = {"data_type": dt, "num_channels": 1, "scales": [sc]}
        if type0:
            self.info["type"] = type0
        return (self.info,), {"dataset_type": dtype_arg, "encoding": enc_arg}

    def bind(self, fn, args, kwargs):
        return {}

    def ensures(self, c, result):
        dtype_arg, enc_arg, dt, enc0, type0 = self.cfg
        sc = self.info["scales"][0]
        enc = enc_arg or (enc0 if enc0 != "absent" else "raw")
        typ = dtype_arg or type0 or ("segmentation" if enc == "compressed_segmentation" else "image")
        yield ("encoding:argument>existing>raw", sc.get("encoding") == enc)
        yield ("type:argument>existing>by-encoding", self.info.get("type") == typ)
        if enc == "compressed_segmentation":
            yield ("block-size-present(an existing one is kept)", sc.get("compressed_segmentation_block_size") == ([4, 4, 4] if self.own_bs else [8, 8, 8]))
            want = "uint32" if dt in ("uint8", "uint16") else dt
            yield ("data_type-widened-for-compressed_segmentation", self.info["data_type"] == want)
            if dt in ("uint8", "uint16", "uint32", "uint64"):
                from neuroglancer_scripts.chunk_encoding import get_encoder
                try:
                    get_encoder(self.info, sc)
                    acc = True
                except Exception:
                    acc = False
                yield ("accepted-by-get_encoder", acc)
        else:
            yield ("data_type-unchanged", self.info["data_type"] == dt)
            yield ("no-block-size-added", self.own_bs or "compressed_segmentation_block_size" not in sc)


class _FindingUnit(Lemma):
    """carrier of a known finding that has no contract-level obligation of its own: the witness is
    replayed natively; the complement class is covered by the lemmas named in the finding."""
    clause = None

    def run(self, c, cfg):
        c.prove("finding-carrier(see the isotropic lemmas for the complement)", True)

    def witness(self, finding):
        w = finding["witness"]
        r = native_scales_check({"size0": w["size"][0], "size1": w["size"][1], "size2": w["size"][2], "res": w["resolution"]},
                                (w["target"], None, "nm"), clauses=(self.clause,))
        return r["reproduced"], r["detail"]


@register
class FindingKeys(_FindingUnit):
    name = "finding:C08-scale-keys"
    props = ("C08",)
    clause = "keys"


@register
class FindingCompat(_FindingUnit):
    name = "finding:C08-chunk-compat"
    props = ("C08",)
    clause = "compat"
