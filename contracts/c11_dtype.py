"""C11 -- data-type conversion rounds to nearest and saturates (data_types.py).

The outer get_chunk_dtype_transformer runs natively on the installed NumPy for each dtype pair
(its dtype logic -- promote_types, can_cast, iinfo -- is NumPy's own answer); the returned closure
`chunk_transformer` is then executed symbolically on an array whose element is one arbitrary
finite value of the input dtype. Regimes: integer work dtype -> mathematical integers; float work
dtype -> z3 IEEE floating point, bit exact (integers enter as bit-vectors).
"""
import itertools

import numpy as np
import z3

from pyvc import core
from pyvc.arrays import SArr
from pyvc.core import And, Not, Or, SBool, SBV, SInt, SObj, SU64, ctx, implies, ite
from pyvc.verify import Contract, Lemma, register

from .c01_volume import snapshot

IN_DTYPES = ("int8", "int16", "int32", "int64", "uint8", "uint16", "uint32", "uint64", "float32", "float64")
OUT_DTYPES = ("uint8", "uint16", "uint32", "uint64", "float32")


def _bv_of(v, w):
    if isinstance(v, (SBV, SU64)):
        return v.t
    if isinstance(v, SInt):
        return z3.Int2BV(v.t, w)
    return z3.BitVecVal(int(v), w)


@register
class ChunkTransformer(Contract):
    target = "neuroglancer_scripts.data_types.get_chunk_dtype_transformer.<locals>.chunk_transformer"
    props = ("C11", "C01", "C13")   # C01 and C13 state their value mapping through this function
    use_at_call_sites = False
    configs = tuple(itertools.product(IN_DTYPES, OUT_DTYPES, (True, False), ("writeable",))) + \
        tuple((i, o, False, "readonly") for i, o in (("float64", "uint8"), ("int16", "uint16"), ("uint8", "uint8"), ("float32", "float32")))
    timeout_ms = 60000

    def resolve(self, cfg):
        from neuroglancer_scripts.data_types import get_chunk_dtype_transformer
        return get_chunk_dtype_transformer(cfg[0], cfg[1], warn=False)

    def setup(self, c, cfg):
        i, o, preserve, wr = cfg
        self.cfg = cfg
        di, do = np.dtype(i), np.dtype(o)
        work = np.promote_types(di, do)
        touches = (do.kind in "ui") and (di.kind == "f" or not np.can_cast(di, do, "safe"))
        float_path = (work.kind == "f" and touches) or do.kind == "f"
        self.float_path = float_path
        n = c.int("n", inp=True)
        c.assume(n >= 1)
        if di.kind == "f":
            kind = "fp"
        else:
            kind = "bv" if float_path else "int"
        self.kind = kind
        self.chunk = SArr.fresh(c, "chunk", di, (n,), kind=kind)
        self.chunk.writeable = (wr == "writeable")
        self.before = snapshot(self.chunk)
        return (self.chunk,), {"preserve_input": preserve}

    def bind(self, fn, args, kwargs):
        return {}

    # ---- the statement, per element
    def expected(self, x):
        """nearest representable target value: exact if representable, half-even for non-integers,
        saturated to [min, max]; returns a term comparable with the result element"""
        i, o, preserve, wr = self.cfg
        di, do = np.dtype(i), np.dtype(o)
        if do.kind == "f":
            # nearest float32 (single correctly rounded conversion)
            if isinstance(x, core.SFP):
                return ("fp", x.t if x.t.sort() == core.F32 else z3.fpFPToFP(core.RNE, x.t, core.F32))
            f = z3.fpSignedToFP if di.kind == "i" else z3.fpUnsignedToFP
            return ("fp", f(core.RNE, x.t, core.F32))
        w = do.itemsize * 8
        mx = (1 << w) - 1
        if isinstance(x, core.SFP):
            srt = x.t.sort()
            r = z3.fpRoundToIntegral(core.RNE, x.t)
            top = core.fp_const(1 << w, srt)           # 2^w is exactly representable
            conv = z3.fpToUBV(core.RTZ, r, z3.BitVecSort(w))
            return ("bv", z3.If(z3.fpLEQ(r, core.fp_const(0, srt)), z3.BitVecVal(0, w),
                                z3.If(z3.fpGEQ(r, top), z3.BitVecVal(mx, w),
                                      z3.If(z3.fpGEQ(r, core.fp_const(mx, srt)) if w <= 32 else z3.BoolVal(False),
                                            z3.BitVecVal(mx, w), conv))))
        if isinstance(x, (SBV, SU64)):
            wi = di.itemsize * 8
            big = max(wi, w) + 1
            xe = z3.SignExt(big - wi, x.t) if di.kind == "i" else z3.ZeroExt(big - wi, x.t)
            cl = z3.If(xe < 0, z3.BitVecVal(0, big), z3.If(xe > mx, z3.BitVecVal(mx, big), xe))
            return ("bv", z3.Extract(w - 1, 0, cl))
        return ("int", core.smin(core.smax(x, 0), mx))

    def ensures(self, c, result):
        i, o, preserve, wr = self.cfg
        di, do = np.dtype(i), np.dtype(o)
        a = self.chunk
        if not isinstance(result, SArr):
            yield ("returns-array", False)
            return
        yield ("result-dtype-is-output-dtype", result.dtype == do)
        yield ("result-shape-is-input-shape", result.ndim == 1 and result.shape[0] == a.shape[0])
        idx, inb = a.forall(None)
        c.assume(inb)
        if preserve:
            yield ("input-not-modified-when-asked-to-preserve", self._same(a.elem(*idx), self.before.elem(*idx)))
        x = self.before.elem(*idx)
        # expose the element value in counterexamples
        if isinstance(x, core.SFP):
            c.inputs["x_ieee_bits"] = z3.fpToIEEEBV(x.t)
        elif isinstance(x, (SBV, SU64)):
            c.inputs["x_bits"] = x.t
        else:
            c.inputs["x"] = core._i(x)
        kind, exp = self.expected(x)
        r = result.elem(*idx)
        w = do.itemsize * 8
        K = self.carve_out(c, x)
        if kind == "fp":
            yield ("nearest-float32", SBool(r.t == exp) if isinstance(r, core.SFP) else False)
        elif kind == "bv":
            yield ("nearest-integer-ties-to-even-saturated", implies(Not(K), SBool(_bv_of(r, w) == exp)))
        else:
            yield ("exact-when-representable-else-saturated", r == exp)

    def carve_out(self, c, x):
        """known findings (documented / test-pinned limitations of conversions to uint64)"""
        i, o, preserve, wr = self.cfg
        known = getattr(c, "known", {}) or {}
        if o != "uint64":
            return False
        if i in ("float32", "float64") and known.get("C11-float-to-uint64-saturation"):
            return SBool(z3.fpGEQ(x.t, core.fp_const(1 << 64, x.t.sort())))
        if i == "int64" and known.get("C11-int64-to-uint64-via-float64"):
            return SBool(x.t > z3.BitVecVal(1 << 53, 64))       # signed compare
        return False

    def witness(self, finding):
        from neuroglancer_scripts.data_types import get_chunk_dtype_transformer
        w = finding["witness"]
        import warnings
        with warnings.catch_warnings():
            warnings.simplefilter("ignore")
            arr = np.array([eval(w["value"])], dtype=w["in"])
            got = int(get_chunk_dtype_transformer(w["in"], w["out"], warn=False)(arr)[0])
        exp = eval(w["expected"])
        return got != exp, f"{w['in']}->{w['out']} of {w['value']}: got {got}, nearest representable is {exp}"

    def _same(self, a, b):
        if isinstance(a, core.SFP):
            return SBool(a.t == b.t)
        return a == b

    def replay(self, model, cfg, ob_name):
        import struct
        import warnings
        from fractions import Fraction
        from neuroglancer_scripts.data_types import get_chunk_dtype_transformer
        i, o, preserve, wr = cfg
        di, do = np.dtype(i), np.dtype(o)
        if "x_ieee_bits" in model:
            bits = model["x_ieee_bits"]
            v = struct.unpack("<f" if di.itemsize == 4 else "<d", bits.to_bytes(di.itemsize, "little"))[0]
        elif "x_bits" in model:
            v = model["x_bits"]
            if di.kind == "i" and v >= 1 << (8 * di.itemsize - 1):
                v -= 1 << (8 * di.itemsize)
        else:
            v = model.get("x", 0)
        arr = np.array([v], dtype=di)
        arr.flags.writeable = (wr == "writeable")
        try:
            with warnings.catch_warnings():
                warnings.simplefilter("ignore")
                got = get_chunk_dtype_transformer(di, do, warn=False)(arr, preserve_input=preserve)
        except Exception as e:
            return {"reproduced": True, "detail": f"{i}->{o} preserve_input={preserve} value {v!r}: raised {e!r}"}
        if do.kind == "f":
            exp = np.array([v], dtype=di).astype(do)[0]
            bad = not (got[0] == exp)
            return {"reproduced": bool(bad), "detail": f"{i}->{o} value {v!r}: got {got[0]!r}, nearest float32 {exp!r}"}
        fv = Fraction(v)
        fl = fv.numerator // fv.denominator
        fr = fv - fl
        r = fl if fr < Fraction(1, 2) else fl + 1 if fr > Fraction(1, 2) else (fl if fl % 2 == 0 else fl + 1)
        exp = min(max(r, 0), int(np.iinfo(do).max))
        return {"reproduced": int(got[0]) != exp, "detail": f"{i}->{o} preserve_input={preserve} value {v!r}: got {int(got[0])}, nearest representable is {exp}"}

    # ---- known findings (documented / test-pinned limitations): carve-outs
    def check_return(self, c, result, b, cfg):
        super().check_return(c, result, b, cfg)


def native_sweep(i, o):
    """native oracle used for replay and witnesses: exact expected values with Fractions"""
    from fractions import Fraction
    from neuroglancer_scripts.data_types import get_chunk_dtype_transformer
    di, do = np.dtype(i), np.dtype(o)
    if di.kind == "f":
        fi = np.finfo(di)
        vals = [0.0, 0.5, 1.5, 2.5, -0.5, -1.5, 254.5, 255.5, 65535.5, 4294967295.5, 2.0 ** 32, 2.0 ** 53, 2.0 ** 63,
                2.0 ** 64 - 2048, 2.0 ** 64, 1e30, -1e30, float(fi.max)]
        vals = [v for v in vals if abs(v) <= float(fi.max)]
    else:
        ii = np.iinfo(di)
        vals = sorted({int(ii.min), int(ii.min) + 1, -1, 0, 1, 255, 256, 65535, 65536, 2 ** 31 - 1, 2 ** 32 - 1, 2 ** 32,
                       2 ** 53 + 1, 2 ** 63 - 1, int(ii.max) - 1, int(ii.max)} & set(range(int(ii.min), int(ii.max) + 1)) if False else
                      [v for v in (int(ii.min), int(ii.min) + 1, -1, 0, 1, 255, 256, 65535, 65536, 2 ** 31 - 1, 2 ** 32 - 1,
                                   2 ** 32, 2 ** 53 + 1, 2 ** 63 - 1, int(ii.max) - 1, int(ii.max)) if int(ii.min) <= v <= int(ii.max)])
    arr = np.array(vals, dtype=di)
    bad = []
    try:
        import warnings
        with warnings.catch_warnings():
            warnings.simplefilter("ignore")
            got = get_chunk_dtype_transformer(di, do, warn=False)(arr, preserve_input=True)
    except Exception as e:
        return [("*", repr(e))]
    for v, g in zip(arr.tolist(), got.tolist()):
        if do.kind == "f":
            continue
        fv = Fraction(v)
        fl = fv.numerator // fv.denominator
        fr = fv - fl
        r = fl if fr < Fraction(1, 2) else fl + 1 if fr > Fraction(1, 2) else (fl if fl % 2 == 0 else fl + 1)
        exp = min(max(r, 0), int(np.iinfo(do).max))
        if int(g) != exp:
            bad.append((v, int(g), exp))
    return bad
