"""C18 -- I/O failures and interrupted writes never yield silently wrong data (partial; modulo the
fault model of pyvc/fsmodel.py: every file-system operation may raise OSError, possibly after a partial
effect on its one target path; gzip reads of incomplete streams raise BadGzipFile/EOFError/zlib.error;
HTTP outcomes as in C14)."""
import itertools

from pyvc import core, fsmodel
from pyvc.core import And, Not, Or, RaiseSig, SBool, SInt, SObj, ctx, implies
from pyvc.fsmodel import GzBytes, get_fs, str_eq
from pyvc.sbytes import SBytes
from pyvc.verify import Contract, Lemma, register

from . import c12_files as c12
from .c12_files import BASE, MIMES, documented_path, four_names, mk_acc, mk_cc

FA = "neuroglancer_scripts.file_accessor.FileAccessor."


def other_entries_untouched(c, target_paths):
    fs = get_fs()
    ok = True
    for e in fs.entries:
        is_target = any(c.interp.truth(str_eq(e.path, t)) for t in target_paths)
        if not is_target and not e.initial:
            ok = False
    return ok


@register
class StoreChunkFaults(c12.StoreChunk):
    """same function, every file-system operation may fail: a normal return still means the chunk was
    stored completely at the documented path; any failure surfaces as DataAccessError; nothing but the
    target path is touched (so chunks stored earlier stay readable and unchanged)."""
    name = "FileAccessor.store_chunk[faults]"
    props = ("C18",)
    configs = tuple(itertools.product((True, False), (True, False), ("application/octet-stream",), (True, False)))

    def setup(self, c, cfg):
        r = super().setup(c, cfg)
        get_fs().faults = True
        # an earlier chunk of the dataset
        self.other = fsmodel.FSEntry(BASE + "/key/earlier-chunk", True, SBytes.fresh(c, "earlier"))
        get_fs().entries.append(self.other)
        return r

    def ensures(self, c, result):
        yield from super().ensures(c, result)
        yield ("earlier-chunk-unchanged", self.other.initial)

    def check_raise(self, c, exc, b, cfg):
        from neuroglancer_scripts.accessor import DataAccessError
        c.prove(f"failure-surfaces-as-DataAccessError:{type(exc).__name__}", isinstance(exc, DataAccessError), kind="exc")
        path, compress = self._target()
        c.prove("only-the-target-path-may-have-changed", other_entries_untouched(c, [path]), kind="exc")
        c.prove("earlier-chunk-unchanged", self.other.initial, kind="exc")
        c.prove("a-failed-store-does-not-delete-the-earlier-version-it-never-overwrote",
                all(not (e.initial and getattr(e, "unlinked", False)) for e in get_fs().entries), kind="exc")


@register
class FetchChunkFaults(Contract):
    """any pre-existing state of the four documented names (arbitrary bytes, possibly a truncated or
    corrupt .gz left by an interrupted write), every operation may fail: returns bytes only through a
    successful read of an existing file, raises DataAccessError otherwise; never modifies anything."""
    target = FA + "fetch_chunk"
    name = "FileAccessor.fetch_chunk[faults,arbitrary-files]"
    props = ("C18",)
    use_at_call_sites = False
    configs = tuple(itertools.product((True, False), ("faults", "no-faults")))

    def setup(self, c, cfg):
        flat, faults = cfg
        self.cfg = cfg
        self.acc = mk_acc(flat, True)
        self.cc = mk_cc(c)
        fs = get_fs()
        fs.faults = (faults == "faults")
        return (self.acc, "key", self.cc), {}

    def bind(self, fn, args, kwargs):
        return {}

    def ensures(self, c, result):
        fs = get_fs()
        yield ("returns-bytes", isinstance(result, SBytes))
        yield ("nothing-modified", all(e.initial for e in fs.entries))

    def check_raise(self, c, exc, b, cfg):
        from neuroglancer_scripts.accessor import DataAccessError
        c.prove(f"failure-surfaces-as-DataAccessError(not EOFError/zlib.error/OSError):{type(exc).__name__}",
                isinstance(exc, DataAccessError), kind="exc")
        c.prove("nothing-modified", all(e.initial for e in get_fs().entries), kind="exc")


@register
class StoreFileFaults(c12.StoreFile):
    name = "FileAccessor.store_file[faults]"
    props = ("C18",)
    configs = tuple(itertools.product(("info", "mesh/12:0"), (True, False), ("application/octet-stream", "application/json"), (True, False)))

    def setup(self, c, cfg):
        r = super().setup(c, cfg)
        get_fs().faults = True
        return r

    def check_raise(self, c, exc, b, cfg):
        from neuroglancer_scripts.accessor import DataAccessError
        name, gz, mime, ow = cfg
        c.prove(f"failure-surfaces-as-DataAccessError:{type(exc).__name__}", isinstance(exc, DataAccessError), kind="exc")
        c.prove("only-the-target-path-may-have-changed",
                other_entries_untouched(c, [BASE + "/" + name, BASE + "/" + name + ".gz"]), kind="exc")
        # what was stored earlier under this name stays readable when the store fails before it got to write:
        # an entry that no write reached must not have been deleted either
        c.prove("a-failed-store-does-not-delete-the-earlier-version-it-never-overwrote",
                all(not (e.initial and getattr(e, "unlinked", False)) for e in get_fs().entries), kind="exc")


@register
class FetchFileFaults(Contract):
    target = FA + "fetch_file"
    name = "FileAccessor.fetch_file[faults,arbitrary-files]"
    props = ("C18",)
    use_at_call_sites = False
    configs = ("info", "mesh/12:0")

    def setup(self, c, cfg):
        get_fs().faults = True
        return (mk_acc(False, True), cfg), {}

    def bind(self, fn, args, kwargs):
        return {}

    def ensures(self, c, result):
        yield ("returns-bytes", isinstance(result, SBytes))
        yield ("nothing-modified", all(e.initial for e in get_fs().entries))

    def check_raise(self, c, exc, b, cfg):
        from neuroglancer_scripts.accessor import DataAccessError
        c.prove(f"failure-surfaces-as-DataAccessError:{type(exc).__name__}", isinstance(exc, DataAccessError), kind="exc")
        c.prove("nothing-modified", all(e.initial for e in get_fs().entries), kind="exc")


@register
class FileExistsFaults(Contract):
    target = FA + "file_exists"
    name = "FileAccessor.file_exists[faults]"
    props = ("C18",)
    use_at_call_sites = False

    def setup(self, c, cfg):
        get_fs().faults = True
        return (mk_acc(False, True), "info"), {}

    def bind(self, fn, args, kwargs):
        return {}

    def ensures(self, c, result):
        yield ("nothing-modified", all(e.initial for e in get_fs().entries))

    def check_raise(self, c, exc, b, cfg):
        from neuroglancer_scripts.accessor import DataAccessError
        c.prove(f"failure-surfaces-as-DataAccessError:{type(exc).__name__}", isinstance(exc, DataAccessError), kind="exc")


@register
class InterruptedPlainWrite(Lemma):
    """interruption of a chunk write: at every crash point the target holds a prefix of what was being
    written (model: a file's content is the bytes written so far; a gzip stream is complete only after
    close). A later reader then finds the chunk complete, absent, or detectably invalid:
      * gzip on: an incomplete stream of length >= 1 -> EOFError / BadGzipFile -> DataAccessError
        (FetchChunkFaults above); a .gz of length 0 (crash between open and the first write) is read by
        CPython's gzip as b"" without error -> falls under the next case with k == 0;
      * raw encoding: a strict prefix (incl. the empty one) has the wrong length -> InvalidFormatError
        (c03_io.RawDecode: only buffers of exactly C*Z*Y*X*itemsize bytes are accepted, and a chunk has
        at least one voxel); compressed_segmentation / jpeg: C10's decoder contracts (any byte string
        either decodes to the exact shape or raises InvalidFormatError) -- wrong values from a prefix that
        happens to be a valid file of the same shape are outside what a decoder can detect and are
        not claimed."""
    name = "lemma:interrupted-plain-chunk-write-is-detectable"
    props = ("C18",)

    def run(self, c, cfg):
        n = c.int("full_length", inp=True)
        k = c.int("bytes_written_before_the_crash", inp=True)
        c.assume(And(n >= 1, k >= 0, k < n))
        c.prove("a-strict-prefix-never-has-the-full-length(so the raw decoder rejects it)", k != n)
        c.prove("the-empty-prefix(read as b'' through gzip)-never-has-the-full-length", 0 != n)


@register
class FindingShardFetchAssert(Lemma):
    name = "finding:C18-shard-fetch-assert"
    props = ("C18",)

    def run(self, c, cfg):
        c.prove("finding-carrier(Shard.fetch_cmc_chunk)", True)

    def witness(self, finding):
        import contextlib
        import copy
        import io
        import tempfile
        from neuroglancer_scripts.sharded_file_accessor import ShardedFileAccessor
        info = {"type": "image", "data_type": "uint8", "num_channels": 1, "scales": [{
            "key": "s0", "size": [2, 1, 1], "chunk_sizes": [[1, 1, 1]], "encoding": "raw", "resolution": [1, 1, 1], "voxel_offset": [0, 0, 0],
            "sharding": {"@type": "neuroglancer_uint64_sharded_v1", "minishard_bits": 1, "shard_bits": 0, "preshift_bits": 0,
                         "hash": "identity", "minishard_index_encoding": "raw", "data_encoding": "raw"}}]}
        with tempfile.TemporaryDirectory() as td, contextlib.redirect_stdout(io.StringIO()):
            acc = ShardedFileAccessor(td, strategy="in memory")
            acc.info = copy.deepcopy(info)
            acc.store_chunk(b"x", "s0", (0, 1, 0, 1, 0, 1))
            acc.close()
            rd = ShardedFileAccessor(td)
            rd.info = copy.deepcopy(info)
            try:
                got = rd.fetch_chunk("s0", (1, 2, 0, 1, 0, 1))
                return False, f"returned {got!r}"
            except AssertionError:
                return True, "fetch of the never-stored chunk 1 (empty minishard 1): AssertionError"
            except IOError as e:
                return False, f"I/O error {e!r}"


# ---- native replay adapters (scenario sweeps on the real code, contracts/_native.py)

from . import _native  # noqa: E402


def _use(fn):
    return lambda self, model, cfg, ob_name: fn()


for _cls in (StoreChunkFaults, FetchChunkFaults, StoreFileFaults, FetchFileFaults, FileExistsFaults):
    _cls.replay = _use(_native.faults_sweep)


# --------------------------------------------------------------------------- bounded: faults on the writer's buffer files

from pyvc.verify import BoundedUnit  # noqa: E402


@register
class ShardedCloseLostBuffersBounded(BoundedUnit):
    """The on-disk buffer classes of the sharded writer (OnDiskByteArray / OnDiskBytesDict: generators over real
    temporary files) are outside the executor's reach. Bounded stand-in for the fault clause of C18 on them: when
    buffer files cannot be opened at close(), close() fails with an OSError / DataAccessError, or else everything
    it was given reads back; what was stored and closed earlier stays readable and unchanged; no wrong bytes."""
    name = "bounded:sharded-close-with-lost-or-unreadable-buffer-files"
    props = ("C18",)
    bound = ("one 2x2x2-chunk dataset, sharding (1,1,1), raw; the z=0 half stored and closed, then the z=1 half stored "
             "(strategy on disk) and, before close(), the writer's new temporary files: all deleted / the first deleted / "
             "the last deleted / one replaced by a directory / untouched")

    def cases(self, cfg, tier):
        import atexit
        import copy
        import pathlib
        import tempfile
        from neuroglancer_scripts.accessor import DataAccessError
        from neuroglancer_scripts.sharded_file_accessor import ShardedFileAccessor
        info = {"type": "image", "data_type": "uint8", "num_channels": 1, "scales": [{
            "key": "s0", "size": [2, 2, 2], "chunk_sizes": [[1, 1, 1]], "encoding": "raw", "resolution": [1, 1, 1],
            "voxel_offset": [0, 0, 0],
            "sharding": {"@type": "neuroglancer_uint64_sharded_v1", "minishard_bits": 1, "shard_bits": 1, "preshift_bits": 1,
                         "hash": "identity", "minishard_index_encoding": "raw", "data_encoding": "raw"}}]}
        cells = list(itertools.product(range(2), range(2), range(2)))
        coords = lambda c_: (c_[0], c_[0] + 1, c_[1], c_[1] + 1, c_[2], c_[2] + 1)
        payload = {c_: bytes([17 + i]) * (3 + i) for i, c_ in enumerate(cells)}
        lower = [c_ for c_ in cells if c_[2] == 0]
        upper = [c_ for c_ in cells if c_[2] == 1]

        def read_back(d, which):
            rd = ShardedFileAccessor(d)
            rd.info = copy.deepcopy(info)
            ok = wrong = 0
            errs = []
            for c_ in which:
                try:
                    got = rd.fetch_chunk("s0", coords(c_))
                except Exception as e:           # absent / unreadable: not data
                    errs.append(type(e).__name__)
                    continue
                if got == payload[c_]:
                    ok += 1
                else:
                    wrong += 1
            return ok, wrong, errs

        def scenario(fault):
            def thunk():
                import contextlib
                import io
                with contextlib.redirect_stdout(io.StringIO()):
                    return inner()

            def inner():
                saved = tempfile.tempdir
                with tempfile.TemporaryDirectory() as top:
                    d = str(pathlib.Path(top, "dataset"))
                    private = pathlib.Path(top, "tmp")
                    private.mkdir()
                    tempfile.tempdir = str(private)
                    try:
                        a1 = ShardedFileAccessor(d, strategy="on disk")
                        a1.info = copy.deepcopy(info)
                        for c_ in lower:
                            a1.store_chunk(payload[c_], "s0", coords(c_))
                        a1.close()
                        atexit.unregister(a1.close)
                        if read_back(d, lower)[0] != len(lower):
                            return "set-up: the first half does not read back"
                        before = {f for f in private.rglob("*") if f.is_file()}
                        a2 = ShardedFileAccessor(d, strategy="on disk")
                        a2.info = copy.deepcopy(info)
                        for c_ in upper:
                            a2.store_chunk(payload[c_], "s0", coords(c_))
                        new = sorted({f for f in private.rglob("*") if f.is_file()} - before)
                        victims = {"all": new, "first": new[:1], "last": new[-1:], "dir": new[:1], "none": []}[fault]
                        for f in victims:
                            f.unlink()
                            if fault == "dir":
                                f.mkdir()
                        failed = None
                        try:
                            a2.close()
                        except (OSError, DataAccessError) as e:
                            failed = e
                        except Exception as e:
                            return f"close() raised {type(e).__name__} (not an I/O or data-access error): {e}"
                        finally:
                            atexit.unregister(a2.close)
                        ok, wrong, errs = read_back(d, upper)
                        if wrong:
                            return f"{wrong} chunk(s) read back with wrong bytes after the failed close"
                        if failed is None and ok != len(upper):
                            return (f"close() returned normally although {len(victims)} buffer file(s) could not be opened, "
                                    f"but only {ok}/{len(upper)} chunks read back ({errs})")
                        ok, wrong, errs = read_back(d, lower)
                        if ok != len(lower):
                            return f"chunks stored and closed earlier no longer read back ({ok} ok, {wrong} wrong, {errs})"
                        return None
                    finally:
                        tempfile.tempdir = saved
            return thunk
        for fault in ("all", "first", "last", "dir", "none"):
            yield f"fault={fault}", scenario(fault)
