"""C02, encoder side -- _encode_channel: the block loop under an invariant (arbitrary iteration).

Invariant of `for z, y, x in np.ndindex((gz, gy, gx))` (G = gx*gy*gz blocks, buffer `buf`):
  I1  len(buf) is a multiple of 4 and >= 8*G                      (header table first, data appended after it)
  I2  every processed block b is DECODABLE from buf per the format description, where decodable(b) only
      depends on b's own 8-byte header slot and on bytes in [8*G, len(buf))
  I3  every entry (table bytes -> offset) of stored_lut_offsets points at those bytes: 8*G <= 4*offset,
      4*offset + len <= len(buf), buf[4*offset + i] == bytes[i]
What is PROVED here, for an arbitrary iteration (arbitrary block, arbitrary buffer satisfying I1 and I3):
  frame      no byte below len(buf) changes except the block's own header slot; the buffer only grows, by
             multiples of 4                                              (=> I2 of all other blocks and I3 survive)
  header     word0 == table offset | bits << 24, word1 == values offset, both in 32-bit units, inside buf
  table      the bytes at the table offset are tobytes() of the sorted distinct values of the (padded) block,
             in the chunk's data type (freshly appended, or an identical table stored earlier: I3)
  values     the bytes at the values offset are _pack_encoded_values(inverse, bits)  (layout: C02 lemma
             unpack(pack(v))==v-and-layout for widths 4..32, bounded unit for widths 1 and 2)
  bits       number_of_encoding_bits(number of distinct values)          (own contract)
  meaning    table[inverse[k]] == chunk value at the voxel whose position in the block is k
             (k = dx + bx*(dy + by*dz)), for every voxel of the block that lies inside the chunk
  I3'        a newly stored table entry satisfies I3
Together with the frame this is the inductive step of I1-I3; the base case is the zeroed header table and
the empty map; at exit all blocks are processed.  np.ndindex enumerates each block once (assumed).
Block sizes are concrete per configuration (cubic and non-cubic), chunk extents symbolic; stated bound: the
channel's encoding stays below 64 MiB (2^24 words, the encoder's own table-offset limit; beyond it the
encoder refuses with AssertionError -- not analysed).
"""
import numpy as np
import z3

from pyvc import core
from pyvc.arrays import SArr
from pyvc.core import And, Not, Or, PathInfeasible, RaiseSig, SBool, SInt, Unsupported, ctx, implies, ite
from pyvc.interp import LoopSpec
from pyvc.sbytes import SBytes, as_sbytes, read_uint
from pyvc.verify import Contract, register

CS = "neuroglancer_scripts._compressed_segmentation."


class PackAbs(Contract):
    """_pack_encoded_values at the call site: some byte string of the documented length that remembers what
    it packs (its layout is the subject of lemma:unpack(pack(v))==v-and-layout / the bounded widths 1, 2)"""
    target = CS + "_pack_encoded_values"
    name = "_pack_encoded_values[call-site]"
    props = ()
    has_body = False

    def setup(self, c, cfg):
        raise NotImplementedError

    def apply(self, interp, fn, args, kwargs):
        c = ctx()
        vals, bits = args
        n = vals.shape[0]
        c.prove("pre[_pack_encoded_values]:values-1-D", vals.ndim == 1, kind="pre")
        k = c.int("k_pack")
        c.assume(And(k >= 0, k < n))
        c.prove("pre[_pack_encoded_values]:every-value-below-2^bits", vals.elem(k) < (1 << bits), kind="pre")
        if bits == 0:
            out = SBytes.from_concrete(b"")
        else:
            per = 32 // bits
            q, r = c.divmod(n, per)
            out = SBytes.fresh(c, c.fresh_name("packed"), length=4 * ite(r == 0, q, q + 1), inp=False)
        out.packed_from = (vals, bits)
        c.calls_log.append((self.target, {"values": vals, "bits": bits}, out))
        return out


class SLutMap:
    """stored_lut_offsets at an arbitrary iteration: an arbitrary map satisfying I3"""
    _pyvc_symbolic = True

    def __init__(self, unit):
        self.unit = unit
        self.hit = None
        self.stored = []

    def contains(self, key):
        c = ctx()
        self.key = key
        self.hit = c.bool("table_stored_earlier")
        return self.hit

    def getitem(self, key):
        c = ctx()
        u = self.unit
        off = c.int("earlier_table_offset")
        # I3 for this entry (bounds now, bytes on demand through lut_byte_fact)
        c.assume(And(8 * u.G <= 4 * off, 4 * off + key.len <= u.L))
        self.hit_off = off
        return off

    def setitem(self, key, value):
        self.stored.append((key, value))

    def truth(self):
        return True


class BlockLoop(LoopSpec):
    def __init__(self, unit):
        super().__init__("_encode_channel", "in np.ndindex((gz, gy, gx))")
        self.unit = unit

    def run_for(self, interp, s, fr, it):
        c = ctx()
        u = self.unit
        gx, gy, gz = fr.contract_lookup("gx"), fr.contract_lookup("gy"), fr.contract_lookup("gz")
        G = gx * gy * gz
        u.G = G
        buf0 = fr.contract_lookup("buf")
        c.prove("base:header-table-allocated(len(buf)==8*G)", buf0.len == 8 * G, kind="invariant")
        c.prove("base:lut-map-empty", fr.contract_lookup("stored_lut_offsets") == {}, kind="invariant")
        # ---- arbitrary iteration
        z, y, x = c.int("z", inp=True), c.int("y", inp=True), c.int("x", inp=True)
        c.assume(And(z >= 0, z < gz, y >= 0, y < gy, x >= 0, x < gx))
        fr.locals["z"], fr.locals["y"], fr.locals["x"] = z, y, x
        c.trust("encoder block loop: verified for an ARBITRARY iteration (arbitrary block, arbitrary buffer of length 4*k >= 8*G and arbitrary "
                "table map satisfying the invariant); the induction from this step and the frame to 'every block decodable at exit' is argued in "
                "contracts/c02_encoder.py, not mechanised; np.ndindex enumerates each block once; stated bound: buffer below 2^26 bytes")
        L4 = c.int("len_buf_div_4", inp=True)
        L = 4 * L4
        c.assume(L >= 8 * G)
        c.assume(L < (1 << 26))        # stated bound: below the encoder's own 24-bit table-offset limit (beyond it: AssertionError)
        u.L = L
        b1 = SBytes.fresh(c, "buf_at_iteration", length=L)
        b1.mutable = True
        u.buf1 = SBytes(L, b1.fn)                 # snapshot (immutable view of the same bytes)
        fr.locals["buf"] = b1
        lut = SLutMap(u)
        fr.locals["stored_lut_offsets"] = lut
        u.lut = lut
        u.block_index = (z, y, x)
        interp.exec_block(s.body, fr)
        u.check_step(c, fr, interp)
        c.cover("arbitrary-iteration:block-loop")
        raise PathInfeasible()


@register
class EncodeChannelStep(Contract):
    target = CS + "_encode_channel"
    name = "_encode_channel[block loop: arbitrary iteration]"
    props = ("C02",)
    use_at_call_sites = False
    configs = tuple((bs, dt) for bs in ((8, 8, 8), (2, 3, 1), (1, 2, 4)) for dt in ("<u4", "<u8"))
    timeout_ms = 60000
    path_budget = 400

    def configs_for(self, tier):
        extra = tuple((bs, dt) for bs in ((4, 4, 4), (3, 5, 2), (16, 1, 1), (1, 1, 1)) for dt in ("<u4", "<u8")) if tier == "thorough" else ()
        return list(self.configs) + list(extra)

    def local_contracts_for(self, cfg):
        return {PackAbs.target: PackAbs()}

    def loop_specs_for(self, cfg):
        return [BlockLoop(self)]

    def setup(self, c, cfg):
        bs, dt = cfg
        self.cfg = cfg
        self.dims = tuple(c.int(n, inp=True) for n in ("Z", "Y", "X"))
        for d in self.dims:
            c.assume(And(d >= 1, d < (1 << 20)))
        self.chunk = SArr.fresh(c, "chunk", dt, self.dims)
        return (self.chunk, list(bs)), {}

    def bind(self, fn, args, kwargs):
        return {}

    def ensures(self, c, result):
        # only reached if the loop is skipped entirely -- impossible (every extent >= 1)
        yield ("loop-entered", False)

    def check_raise(self, c, exc, b, cfg):
        c.prove(f"no-exception-below-the-24-bit-offset-limit:{type(exc).__name__}", False, kind="exc")

    # ---- the step obligations
    def check_step(self, c, fr, interp):
        (bx, by, bz), dt = self.cfg
        isz = np.dtype(dt).itemsize
        z, y, x = self.block_index
        gx, gy = fr.contract_lookup("gx"), fr.contract_lookup("gy")
        G, L = self.G, self.L
        buf1, buf2 = self.buf1, fr.contract_lookup("buf")
        lin = x + gx * (y + gy * z)
        h = 8 * lin
        ok = isinstance(buf2, SBytes)
        c.prove("buffer-is-still-a-byte-buffer", ok, kind="invariant")
        if not ok:
            return
        # frame
        i = c.int("i_frame", inp=True)
        c.prove("frame:bytes-below-the-old-length-unchanged-except-the-block's-header-slot",
                implies(And(i >= 0, i < L, Not(And(i >= h, i < h + 8))), buf2.fn(i) == buf1.fn(i)), kind="invariant")
        c.prove("I1:buffer-only-grows", buf2.len >= L, kind="invariant")
        q4, r4 = c.divmod(buf2.len, 4)
        c.prove("I1:length-stays-a-multiple-of-4", r4 == 0, kind="invariant")
        # what was computed for this block
        lookup = fr.contract_lookup("lookup_table")
        inverse = fr.contract_lookup("encoded_values")
        bits = fr.contract_lookup("bits")
        block = fr.contract_lookup("block")
        lut_bytes = fr.contract_lookup("lut_bytes")
        U = lookup.shape[0]
        pk = [x_ for x_ in c.calls_log if x_[0] == PackAbs.target]
        c.prove("values-packed-exactly-once-from-the-inverse-indices", len(pk) == 1 and pk[0][1]["values"] is inverse and pk[0][1]["bits"] == bits, kind="invariant")
        if len(pk) != 1:
            return
        P = pk[0][2]
        # bits: least allowed width with 2^bits >= U (number_of_encoding_bits' own contract, re-stated)
        allowed = (0, 1, 2, 4, 8, 16, 32)
        c.prove("bits==least-allowed-width-holding-the-table", bits in allowed and SBool(core._i(U) <= (1 << bits))
                and (bits == 0 or SBool(core._i(U) > (1 << allowed[allowed.index(bits) - 1]))), kind="invariant")
        # header words
        w0 = read_uint(buf2, h, 4)
        w1 = read_uint(buf2, h + 4, 4)
        toff = fr.contract_lookup("lookup_table_offset")
        voff = fr.contract_lookup("encoded_values_offset")
        c.prove("header:word0==table-offset|bits<<24", w0 == toff + bits * (1 << 24), kind="invariant")
        c.prove("header:table-offset-fits-24-bits", And(toff >= 0, toff < (1 << 24)), kind="invariant")
        c.prove("header:word1==values-offset", w1 == voff, kind="invariant")
        c.prove("offsets-point-behind-the-header-table-and-inside-the-buffer",
                And(4 * toff >= 8 * G, 4 * toff + isz * U <= buf2.len, 4 * voff >= 8 * G, 4 * voff + P.len <= buf2.len), kind="invariant")
        # table bytes
        t = c.int("t_table", inp=True)
        inb = And(t >= 0, t < isz * U)
        if self.lut.hit is not None and interp.truth(self.lut.hit):
            # an identical table stored earlier: I3 for that entry, instantiated at t
            c.assume(implies(inb, buf1.fn(4 * self.lut.hit_off + t) == lut_bytes.fn(t)))
        c.prove("table:bytes-at-the-table-offset==tobytes(sorted distinct values)", implies(inb, buf2.fn(4 * toff + t) == lut_bytes.fn(t)), kind="invariant")
        c.prove("table:tobytes-of-the-lookup-table-in-the-chunk's-data-type",
                lut_bytes.len == isz * U and lut_bytes.packed is not None and lut_bytes.packed[0].dtype == np.dtype(dt), kind="invariant")
        e = c.int("e_entry", inp=True)
        if lut_bytes.packed is not None:
            c.prove("table:entry-e-is-lookup_table[e]", implies(And(e >= 0, e < U), lut_bytes.packed[0].elem(e) == lookup.elem(e)), kind="invariant")
        # values bytes
        v = c.int("v_values", inp=True)
        c.prove("values:bytes-at-the-values-offset==pack(inverse, bits)", implies(And(v >= 0, v < P.len), buf2.fn(4 * voff + v) == P.fn(v)), kind="invariant")
        # meaning
        dz, dy, dx = (c.int(n, inp=True) for n in ("dz", "dy", "dx"))
        Z, Y, X = self.dims
        inside = And(dz >= 0, dz < bz, dy >= 0, dy < by, dx >= 0, dx < bx,
                     z * bz + dz < Z, y * by + dy < Y, x * bx + dx < X)
        k = dx + bx * (dy + by * dz)
        c.prove("block-has-the-full-block-shape(padded at the chunk border)", tuple(block.shape) == (bz, by, bx), kind="invariant")
        c.prove("inverse-has-one-index-per-block-position", inverse.ndim == 1 and inverse.shape[0] == bx * by * bz, kind="invariant")
        if tuple(block.shape) == (bz, by, bx) and inverse.ndim == 1:
            idx = inverse.elem(k)
            c.prove("meaning:index-in-table-range", implies(inside, And(idx >= 0, idx < U)), kind="invariant")
            c.prove("meaning:table[inverse[k]]==chunk-value-at-the-voxel-with-block-position-k",
                    implies(inside, lookup.elem(idx) == self.chunk.elem(z * bz + dz, y * by + dy, x * bx + dx)), kind="invariant")
        # I3 for a newly stored entry
        for key, off in self.lut.stored:
            c.prove("I3':new-map-entry-points-at-its-bytes",
                    And(4 * off >= 8 * G, 4 * off + key.len <= buf2.len, implies(And(t >= 0, t < key.len), buf2.fn(4 * off + t) == key.fn(t))), kind="invariant")
        c.prove("map-gains-an-entry-exactly-when-the-table-was-not-stored-before",
                (len(self.lut.stored) == 0) if interp.truth(self.lut.hit) else (len(self.lut.stored) == 1 and self.lut.stored[0][0] is lut_bytes), kind="invariant")


# --------------------------------------------------------------------------- encode_chunk (channels)

class EncodeChannelAbs(Contract):
    target = CS + "_encode_channel"
    name = "_encode_channel[call-site]"
    props = ()
    has_body = False

    def setup(self, c, cfg):
        raise NotImplementedError

    def apply(self, interp, fn, args, kwargs):
        c = ctx()
        if len(args) != 2 or kwargs:
            # the channel encoder is a function of (channel data, block size) only: anything else handed in
            # (shared tables, offsets) would make one channel's bytes depend on another's
            c.prove("pre[_encode_channel]:called-with-(channel data, block size)-only", False, kind="pre")
        n4 = c.int(c.fresh_name("channel_words"))
        c.assume(And(n4 >= 2, n4 < (1 << 24)))
        out = SBytes.fresh(c, c.fresh_name("channel_bytes"), length=4 * n4, inp=False)
        out.mutable = True
        c.calls_log.append((self.target, {"chunk_channel": args[0], "block_size": args[1]}, out))
        return out


@register
class EncodeChunk(Contract):
    """encode_chunk: <one uint32le per channel: offset of the channel's data in 32-bit units from the start
    of the file> followed by the channels' encodings in order, each produced from that channel alone"""
    target = CS + "encode_chunk"
    props = ("C02",)
    use_at_call_sites = False
    configs = tuple((n, dt) for n in (1, 2, 3) for dt in ("<u4", "<u8"))

    def local_contracts_for(self, cfg):
        return {EncodeChannelAbs.target: EncodeChannelAbs()}

    def setup(self, c, cfg):
        n, dt = cfg
        self.cfg = cfg
        dims = tuple(c.int(k, inp=True) for k in ("Z", "Y", "X"))
        for d in dims:
            c.assume(d >= 1)
        self.chunk = SArr.fresh(c, "chunk", dt, (n,) + dims)
        self.bs = [8, 8, 8]
        return (self.chunk, self.bs), {}

    def bind(self, fn, args, kwargs):
        return {}

    def ensures(self, c, result):
        n, dt = self.cfg
        calls = [x for x in c.calls_log if x[0] == EncodeChannelAbs.target]
        yield ("one-channel-encoding-per-channel", len(calls) == n)
        yield ("returns-a-byte-buffer", isinstance(result, SBytes))
        if len(calls) != n or not isinstance(result, SBytes):
            return
        start = 4 * n
        z, y, x = (c.int(k, inp=True) for k in ("z", "y", "x"))
        j = c.int("j", inp=True)
        for ch, call in enumerate(calls):
            data = call[2]
            src = call[1]["chunk_channel"]
            yield (f"channel{ch}:encoded-from-that-channel's-data-and-the-block-size-only",
                   isinstance(src, SArr) and src.ndim == 3 and call[1]["block_size"] is self.bs)
            if isinstance(src, SArr) and src.ndim == 3:
                inb = And(z >= 0, z < src.shape[0], y >= 0, y < src.shape[1], x >= 0, x < src.shape[2])
                yield (f"channel{ch}:the-data-is-chunk[{ch}]", implies(inb, src.elem(z, y, x) == self.chunk.elem(ch, z, y, x)))
            yield (f"channel{ch}:header-word==offset-of-its-data-in-32-bit-units", read_uint(result, 4 * ch, 4) * 4 == start)
            yield (f"channel{ch}:its-encoding-stored-at-that-offset", implies(And(j >= 0, j < data.len), result.fn(start + j) == data.fn(j)))
            start = start + data.len
        yield ("nothing-after-the-last-channel", result.len == start)


def native_encoder_check():
    """whole chunks through the real encoder and a decoder written from the format description: blocks that share
    a label set (table reuse), non-cubic blocks, border blocks, one and two channels"""
    from neuroglancer_scripts import _compressed_segmentation as cs
    from .c02_cseg import spec_decode
    rng = np.random.default_rng(7)
    for shape, bs in (((1, 4, 4, 8), (2, 2, 2)), ((2, 5, 9, 7), (8, 8, 8)), ((1, 3, 5, 11), (2, 3, 1)), ((2, 9, 4, 6), (1, 2, 4))):
        for dt in ("<u4", "<u8"):
            for labels in ((3, 9), (1, 2, 3, 4, 5), tuple(range(40))):
                a = np.array(labels, dtype=dt)[rng.integers(0, len(labels), size=shape)]
                # make two blocks hold the same label set in a different arrangement (table reuse)
                a[:, :bs[2], :bs[1], :bs[0]] = a[:, :bs[2], :bs[1], :bs[0]][..., ::-1]
                try:
                    buf = bytes(cs.encode_chunk(a, list(bs)))
                    got = spec_decode(buf, shape, bs, dt)
                except Exception as e:
                    return {"reproduced": True, "detail": f"chunk {shape} block {bs} {dt} labels {len(labels)}: {type(e).__name__} {e}"}
                if not np.array_equal(got, a):
                    bad = int((got != a).sum())
                    return {"reproduced": True, "detail": f"chunk {shape} block {bs} {dt} with {len(labels)} labels: a decoder written from the format recovers {bad} wrong voxels"}
    return {"reproduced": False, "detail": "format-derived decoder recovers every chunk of the sweep"}


EncodeChannelStep.replay = lambda self, model, cfg, ob_name: native_encoder_check()
EncodeChunk.replay = lambda self, model, cfg, ob_name: native_encoder_check()
