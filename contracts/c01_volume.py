"""C01 -- volume conversion preserves every voxel (volume_reader.py)."""
import numpy as np
import z3

from pyvc import core
from pyvc.arrays import SArr
from pyvc.core import And, Not, Or, SBool, SInt, SObj, ctx, implies, ite
from pyvc.verify import Contract, Lemma, register

from .c03_io import mk_info
from .shared_abs import mk_io
from .shared_grid import grid_coverage

VR = "neuroglancer_scripts.volume_reader."


class SymTransformer:
    """Element-wise transformer satisfying the C11 contract: result[i] == T(chunk[i]), result dtype
    == output dtype, same shape; with preserve_input=False the input buffer may be clobbered."""
    _pyvc_callable = True
    _pyvc_symbolic = True

    def __init__(self, c, in_dtype, out_dtype, name="T"):
        self.T = z3.Function(name, z3.IntSort(), z3.IntSort())
        self.in_dtype, self.out_dtype = np.dtype(in_dtype), np.dtype(out_dtype)
        self.calls = 0

    def apply_T(self, v):
        return SInt(self.T(core._i(v)))

    def __call__(self, chunk, preserve_input=True):
        c = ctx()
        self.calls += 1
        c.prove("pre[chunk_transformer]:chunk-dtype-equivalent-to-input-dtype",
                bool(np.can_cast(chunk.dtype, self.in_dtype, "equiv")), kind="pre")
        # snapshot the element function now (the input region may be clobbered afterwards)
        frozen = snapshot(chunk)
        T = self
        out = SArr.from_fn(lambda *i: T.apply_T(frozen.elem(*i)), chunk.shape, self.out_dtype)
        if not preserve_input and chunk.writeable:
            # in-place work on the caller's buffer: exactly the elements of this view may change
            junk = SArr.fresh(c, c.fresh_name("clobbered"), chunk.dtype, chunk.shape, kind="opaque", inp=False)
            chunk._assign(junk)
        return out


def snapshot(arr):
    """functional copy of an array's current contents (pre-state `old(arr)`)"""
    from pyvc.arrays import SBuf
    return SArr(SBuf(arr.buf.fn, arr.buf.shape), arr.shape, arr.axes, arr.dtype, writeable=False)


@register
class VolumeToPrecomputed(Contract):
    target = VR + "volume_to_precomputed"
    props = ("C01", "C20")
    use_at_call_sites = False
    configs = (("rank3", "T"), ("rank4", "T"), ("rank3", None), ("rank4", None))

    def setup(self, c, cfg):
        rank, tr = cfg
        self.info = mk_info(c, n_chunk_sizes=1, data_type="uint16")
        self.io = mk_io(c, self.info)
        si = self.info["scales"][0]
        nch = self.info["num_channels"]
        if rank == "rank3":
            c.assume(nch == 1)
            shape = tuple(si["size"])
        else:
            shape = tuple(si["size"]) + (nch,)
        self.vol = SArr.fresh(c, "V", "uint16", shape, kind="opaque")
        self.vol0 = snapshot(self.vol)       # old(volume)
        self.tr = SymTransformer(c, "uint16", "uint16") if tr else None
        self.cfg = cfg
        return (self.io, self.vol), {"chunk_transformer": self.tr}

    def bind(self, fn, args, kwargs):
        return {}

    def ensures(self, c, result):
        w = self.io.ghost["written"]
        out = [("one-write-per-iteration", len(w) == 1)]
        if len(w) != 1:
            return out
        key, cc, chunk, lvs, lrs = w[0]
        si = self.info["scales"][0]
        out.append(("written-to-scale-0", key == si["key"]))
        out.append(("every-grid-cell-written-exactly-once", grid_coverage(c, w[0], si["size"], si["chunk_sizes"][0])))
        idx, inb = chunk.forall(None)
        ch, z, y, x = idx
        src = (cc[0] + x, cc[2] + y, cc[4] + z) + ((ch,) if self.cfg[0] == "rank4" else ())
        v = self.vol0.elem(*src)
        exp = self.tr.apply_T(v) if self.tr is not None else v
        out.append(("chunk[c,z,y,x]==T(volume[xmin+x,ymin+y,zmin+z,c])", implies(inb, chunk.elem(*idx) == exp)))
        out.append(("chunk-dtype-is-info-data-type", chunk.dtype == np.dtype("<u2")))
        return out

    def replay(self, model, cfg, ob_name):
        return native_volume_check(model, cfg)


def native_volume_check(model, cfg, mutate=None):
    """run the real volume_to_precomputed on a small random volume with the model's sizes and
    compare what is read back with the statement's mapping"""
    from neuroglancer_scripts import precomputed_io, volume_reader
    from .c03_io import native_io
    small = {k: (min(v, 7) if isinstance(v, int) and not isinstance(v, bool) else v) for k, v in model.items()}
    io, info = native_io(small)
    size = info["scales"][0]["size"]
    nch = info["num_channels"] if cfg[0] == "rank4" else 1
    info["num_channels"] = nch
    io = precomputed_io.PrecomputedIO(info, io.accessor)
    rng = np.random.default_rng(1)
    shape = tuple(size) + ((nch,) if cfg[0] == "rank4" else ())
    vol = rng.integers(0, 60000, size=shape).astype("uint16")
    tr = (lambda ch, preserve_input=True: (ch // 2).astype("uint16")) if cfg[1] else None
    try:
        volume_reader.volume_to_precomputed(io, vol, chunk_transformer=tr)
    except Exception as e:
        return {"reproduced": True, "detail": f"size={size} chunk={info['scales'][0]['chunk_sizes']} channels={nch}: raised {e!r}"}
    cs = info["scales"][0]["chunk_sizes"][0]
    full = np.zeros((nch,) + tuple(reversed(size)), "uint16")
    seen = np.zeros_like(full, dtype=bool)
    for x0 in range(0, size[0], cs[0]):
        for y0 in range(0, size[1], cs[1]):
            for z0 in range(0, size[2], cs[2]):
                cc = (x0, min(x0 + cs[0], size[0]), y0, min(y0 + cs[1], size[1]), z0, min(z0 + cs[2], size[2]))
                try:
                    ch = io.read_chunk("k0", cc)
                except Exception as e:
                    return {"reproduced": True, "detail": f"size={size} chunk={cs}: chunk {cc} unreadable: {e!r}"}
                full[:, cc[4]:cc[5], cc[2]:cc[3], cc[0]:cc[1]] = ch
    exp = vol if cfg[0] == "rank4" else vol[..., np.newaxis]
    exp = np.moveaxis(exp, (0, 1, 2, 3), (3, 2, 1, 0))
    if cfg[1]:
        exp = exp // 2
    bad = not np.array_equal(full, exp)
    return {"reproduced": bad, "detail": f"size={size} chunk={cs} channels={nch}: read-back {'differs from' if bad else 'equals'} the input mapping"}
