"""C04 -- sharded output is readable by any reader that follows the sharded format
(sharded_file_accessor.Shard.close, MiniShard.append/offset; naming and routing are under C09).

Spec predicate, from neuroglancer/src/datasource/precomputed/sharded.md:
  * the shard file starts with the shard index: 2^minishard_bits pairs of uint64le (start, end), byte
    offsets relative to the END of the shard index, delimiting the (encoded) minishard index of
    minishard NUMBER m in pair m (start == end if the minishard is empty);
  * a minishard index is an array [3, n] of uint64le in C order: [0,i] id deltas, [1,i] start offset
    deltas (first one relative to the end of the shard index, later ones relative to the end of the
    previous chunk), [2,i] sizes;
  * chunk data ranges lie inside the file, after the shard index.
"""
import itertools
import pathlib

import numpy as np
import z3

from pyvc import core, fsmodel
from pyvc.arrays import SArr
from pyvc.core import And, Not, Or, RaiseSig, SBool, SInt, SObj, SU64, ctx, implies, ite
from pyvc.fsmodel import get_fs
from pyvc.sbytes import SBytes, le_compose, read_uint
from pyvc.verify import Contract, Lemma, register

SF = "neuroglancer_scripts.sharded_file_accessor."
FILE = "/data/dataset/key/0a.shard"


class SByteArrayModel:
    """MiniShard.databytearray after close(): iterating yields its content (in one or more pieces),
    len() is the total length (abstract container contract shared by InMemByteArray/OnDiskByteArray)"""
    _pyvc_symbolic = True

    def __init__(self, data):
        self.data = data

    def iterate(self):
        return [self.data]

    def length(self):
        return self.data.len

    def truth(self):
        return True


@register
class MiniShardCloseAbs(Contract):
    """MiniShard.close at Shard.close's call site: the minishards handed to this harness are already
    in their final state (buffer flushed) -- the writer-side behaviour is covered by the bounded unit of
    C05 -- so close() changes nothing."""
    target = SF + "MiniShard.close"
    name = "MiniShard.close[call-site]"
    props = ()
    has_body = False

    def setup(self, c, cfg):
        raise NotImplementedError

    def apply(self, interp, fn, args, kwargs):
        ctx().calls_log.append((self.target, {"self": args[0]}, None))
        return None


def mk_minishard(c, k, spec):
    from neuroglancer_scripts.sharded_file_accessor import MiniShard
    n = c.int(f"n{k}", inp=True)
    c.assume(And(n >= 1, n < (1 << 40)))
    header = SArr.fresh(c, f"header{k}", np.uint64, (3 * n,), kind="bv")
    data = SBytes.fresh(c, f"data{k}")
    c.assume(data.len < (1 << 50))          # file offsets fit in uint64 (struct.pack('<Q') range)
    return SObj(MiniShard, {"shard_spec": spec, "header": header, "databytearray": SByteArrayModel(data),
                            "_offset": np.uint64(0)}), n, header, data


def _cfgs(tier="quick"):
    """(minishard_bits, set of non-empty minishards). At most two non-empty minishards: with three or four the
    byte-level obligations of the middle minishards did not discharge within the budget (z3 and cvc5 time out), so
    those configurations are NOT claimed; the per-minishard obligations do not depend on how many others there are
    beyond the running offsets, which two minishards already exercise. thorough: also 8 slots (minishard_bits 3)."""
    out = []
    for mb in ((0, 1, 2, 3) if tier == "thorough" else (0, 1, 2)):
        nslots = 1 << mb
        out.append((mb, ()))        # a dirty shard whose minishards are all empty: index padding alone (cheap queries)
        for r in (1, 2):
            if r > nslots:
                continue
            for keys in itertools.combinations(range(nslots), r):
                if mb == 3 and r == 2 and keys not in ((0, 1), (0, 7), (3, 4), (6, 7), (2, 5)):
                    continue
                out.append((mb, keys))
    out.append((4, (2, 10)))        # 16 slots, minishard numbers with one and two decimal digits (numeric order matters)
    return tuple(out)


@register
class ShardClose(Contract):
    """configs: (minishard_bits, the set of minishard numbers that hold chunks); every minishard has a
    symbolic number of chunks and symbolic data; index and data encoding raw."""
    target = SF + "Shard.close"
    props = ("C04",)
    use_at_call_sites = False
    configs = _cfgs()
    timeout_ms = 120000

    def configs_for(self, tier):
        return list(_cfgs(tier))

    def setup(self, c, cfg):
        from neuroglancer_scripts.sharded_base import ShardSpec
        from neuroglancer_scripts.sharded_file_accessor import Shard
        mb, keys = cfg
        self.cfg = cfg
        spec = ShardSpec(mb, 1)                      # concrete spec object (its methods run natively)
        self.minis = {}
        md = {}
        for k in keys:
            obj, n, header, data = mk_minishard(c, k, spec)
            self.minis[k] = (obj, n, header, data)
            md[np.uint64(k)] = obj
        self.pre_headers = {k: v[2].frozen() for k, v in self.minis.items()}
        shard = SObj(Shard, {"dirty": True, "file_path": pathlib.Path(FILE), "shard_spec": spec, "minishard_dict": md})
        self._shard = shard
        return (shard,), {}

    def bind(self, fn, args, kwargs):
        return {}

    def ensures(self, c, result):
        mb, keys = self.cfg
        nslots = 1 << mb
        H = 16 * nslots
        fs = get_fs()
        ents = [e for e in fs.entries if not e.initial]
        yield ("exactly-one-file-written:<shard>.shard", len(ents) == 1 and ents[0].path == FILE)
        if len(ents) != 1 or not isinstance(ents[0].content, SBytes):
            return
        F = ents[0].content
        # minishards are laid out in increasing NUMBER order: the data blocks are written in that order right after the
        # placeholder (stated first: it is decided by the identity of the written byte strings, a cheap query)
        wr0 = getattr(ents[0], "writes", [])
        order_ok = len(wr0) >= 1 + len(keys) and all(wr0[1 + i][1] is self.minis[k][3] for i, k in enumerate(sorted(keys)))
        yield ("minishard-data-written-in-increasing-minishard-number-order", order_ok)
        total_data = 0
        data_start = {}
        for k in sorted(keys):
            data_start[k] = total_data
            total_data = total_data + self.minis[k][3].len
        total_idx = 0
        idx_start = {}
        for k in sorted(keys):
            idx_start[k] = total_data + total_idx
            total_idx = total_idx + 24 * self.minis[k][1]
        yield ("file-length==index+data+minishard-indices", F.len == H + total_data + total_idx)
        known = getattr(c, "known", {}) or {}
        compact = sorted(keys) == list(range(len(keys)))       # keys are exactly 0..r-1
        for m in range(nslots):
            start = read_uint(F, 16 * m, 8)
            end = read_uint(F, 16 * m + 8, 8)
            if m in keys:
                want = And(start == idx_start[m], end == idx_start[m] + 24 * self.minis[m][1])
            else:
                want = (start == end)
            if known.get("C04-minishard-index-slot-is-compacted") and not compact:
                continue                                   # carved out: see known_findings.json
            yield (f"shard-index-slot[{m}]-delimits-the-index-of-minishard-number-{m}", want)
            yield (f"slot[{m}]-inside-the-file", And(start <= end, H + end <= F.len))
        for k in sorted(keys):
            obj, n, header, data = self.minis[k]
            pre = self.pre_headers[k]
            # minishard index bytes at H + idx_start[k]: 3 rows of n uint64le: ids, offsets, sizes
            t = c.int(f"t{k}")
            c.assume(And(t >= 0, t < n))
            for r, nm in enumerate(("id-deltas", "offset-deltas", "sizes")):
                got = read_uint(F, H + idx_start[k] + 8 * (r * n + t), 8)
                exp = header.elem(3 * t + r)
                yield (f"minishard{k}:row-{nm}-in-C-order", got == exp)
                if r != 1:
                    yield (f"minishard{k}:{nm}-as-appended", exp == pre.elem(3 * t + r))
            yield (f"minishard{k}:first-offset-delta==start-of-its-data-relative-to-the-end-of-the-shard-index",
                   header.elem(1) == data_start[k])
            yield (f"minishard{k}:later-offset-deltas-as-appended", implies(t >= 1, header.elem(3 * t + 1) == pre.elem(3 * t + 1)))
            j = c.int(f"j{k}")
            c.assume(And(j >= 0, j < data.len))
            yield (f"minishard{k}:chunk-data-stored-at-its-offset", F.fn(H + data_start[k] + j) == data.fn(j))
        # write order (C18): the zeroed placeholder index is written first, the real index last, so a file
        # left by an interruption before the last write lists no chunk at all
        log = [op for (op, p) in fs.log if p == FILE]
        yield ("write-order:placeholder-first,seek(0)-and-real-index-last", len(log) >= 4 and log[0].startswith("open:wb")
               and log[1] == "write" and log[-2] == "seek" and log[-1] == "write")
        # the shard index occupies exactly 16 * 2^minishard_bits bytes: the placeholder written first and the
        # real index written last (at position 0) both have that length, so neither spills into the chunk data
        wr = getattr(ents[0], "writes", [])
        yield ("index-writes:placeholder-and-final-index-are-exactly-16*2^minishard_bits-bytes",
               len(wr) >= 2 and And(wr[0][1].len == H, wr[-1][1].len == H) and wr[-1][0] == 0 and wr[0][0] is None)
        yield ("closed:dirty-flag-cleared", self._shard_attr("dirty") is False)

    def _shard_attr(self, name):
        return None if not hasattr(self, "_shard") else self._shard.attrs.get(name)

    def check_return(self, c, result, b, cfg):
        super().check_return(c, result, b, cfg)

    def replay(self, model, cfg, ob_name):
        return native_shard_check(cfg)


@register
class ShardCloseWriteOrder(ShardClose):
    """C18's share of Shard.close: only the write-order / completeness obligations (the index-slot
    obligations belong to C04 and its recorded finding)"""
    name = "Shard.close[write-order]"
    props = ("C18",)

    def ensures(self, c, result):
        for nm, cond in super().ensures(c, result):
            if nm.startswith(("write-order", "closed:", "exactly-one-file", "file-length")) or "chunk-data-stored" in nm:
                yield nm, cond


def native_shard_check(cfg, shard_bits=0, index_encoding="raw"):
    """store one chunk in each listed minishard, close, parse the shard file with a reader written from
    sharded.md"""
    import contextlib
    import copy
    import io
    import struct
    import tempfile
    from neuroglancer_scripts.sharded_file_accessor import ShardedFileAccessor
    mb, keys = cfg
    if not keys:
        # the all-empty configurations are about the index padding: show it on partially filled shards
        for mb2, sb2 in ((1, 2), (2, 3), (1, 0)):
            r = native_shard_check((mb2, (0,)), shard_bits=sb2)
            if r["reproduced"]:
                return r
        return r
    grid = 1 << mb
    info = {"type": "image", "data_type": "uint8", "num_channels": 1, "scales": [{
        "key": "s0", "size": [grid << shard_bits, 1, 1], "chunk_sizes": [[1, 1, 1]], "encoding": "raw", "resolution": [1, 1, 1], "voxel_offset": [0, 0, 0],
        "sharding": {"@type": "neuroglancer_uint64_sharded_v1", "minishard_bits": mb, "shard_bits": shard_bits, "preshift_bits": 0,
                     "hash": "identity", "minishard_index_encoding": index_encoding, "data_encoding": "raw"}}]}
    with tempfile.TemporaryDirectory() as td, contextlib.redirect_stdout(io.StringIO()):
        acc = ShardedFileAccessor(td, strategy="in memory")
        acc.info = copy.deepcopy(info)
        for k in keys:
            acc.store_chunk(bytes([65 + k]) * (k + 1), "s0", (k, k + 1, 0, 1, 0, 1))
        acc.close()
        import pathlib as pl
        F = sorted((pl.Path(td) / "s0").glob("*.shard"))[0].read_bytes()
    H = 16 << mb
    for m in range(1 << mb):
        s, e = struct.unpack_from("<QQ", F, 16 * m)
        if m in keys:
            raw = F[H + s:H + e]
            if index_encoding == "gzip" and e > s:
                import zlib
                try:
                    raw = zlib.decompress(raw, 47)             # zlib or gzip container (the container is a recorded finding)
                except Exception as ex:
                    return {"reproduced": True, "detail": f"minishard_bits={mb} stored minishards {keys}, gzip index: slot {m} [{s},{e}) does not delimit a compressed stream ({ex})"}
            idx = np.frombuffer(raw, "<u8").reshape(3, -1) if e > s and len(raw) % 24 == 0 else None
            if idx is None or idx.shape[1] != 1 or int(idx[0, 0]) != m:
                return {"reproduced": True, "detail": f"minishard_bits={mb} stored minishards {keys}: slot {m} of the shard index holds {None if idx is None else idx.tolist()} instead of the index of minishard {m}"}
            off, size = int(idx[1, 0]), int(idx[2, 0])
            if F[H + off:H + off + size] != bytes([65 + m]) * (m + 1):
                return {"reproduced": True, "detail": f"minishard {m}: data range wrong"}
        elif s != e:
            return {"reproduced": True, "detail": f"minishard_bits={mb} stored minishards {keys}: slot {m} (an empty minishard) is not empty"}
    return {"reproduced": False, "detail": "a reader written from sharded.md finds every chunk"}


@register
class FindingSlots(Lemma):
    name = "finding:C04-index-slots"
    props = ("C04",)

    def run(self, c, cfg):
        c.prove("finding-carrier(Shard.close index slots)", True)

    def witness(self, finding):
        w = finding["witness"]
        r = native_shard_check((w["minishard_bits"], tuple(w["stored_minishards"])))
        return r["reproduced"], r["detail"]


@register
class FindingGzip(Lemma):
    name = "finding:C04-gzip-container"
    props = ("C04",)

    def run(self, c, cfg):
        c.prove("finding-carrier(ShardSpec 'gzip' encoders)", True)

    def witness(self, finding):
        from neuroglancer_scripts.sharded_base import ShardSpec
        s = ShardSpec(1, 1, minishard_index_encoding="gzip", data_encoding="gzip")
        out = s.data_encoder(b"hello"), s.index_encoder(b"hello")
        bad = not all(o[:2] == b"\x1f\x8b" for o in out)
        return bad, f"'gzip' data/index encoders produce {out[0][:2].hex()}.. (zlib container, RFC 1950) instead of a gzip member 1f8b.. (RFC 1952)"


# --------------------------------------------------------------------------- encoded (gzip) minishard indices

class IndexEncoderAbs(Contract):
    """ShardSpec.index_encoder for minishard_index_encoding 'gzip': some byte string (the compressed form) that
    remembers what it encodes; its container format is the recorded finding C04-gzip-is-zlib-container"""
    target = "neuroglancer_scripts.sharded_base.ShardSpec.index_encoder"
    name = "ShardSpec.index_encoder[call-site]"
    props = ()
    has_body = False

    def setup(self, c, cfg):
        raise NotImplementedError

    def apply(self, interp, fn, args, kwargs):
        c = ctx()
        src = args[1]
        out = SBytes.fresh(c, c.fresh_name("encoded_index"), inp=False)
        c.assume(out.len < (1 << 40))
        out.encoded_from = src
        c.calls_log.append((self.target, {"b": src}, out))
        return out


@register
class ShardCloseEncodedIndex(ShardClose):
    """Shard.close with an ENCODED minishard index: every slot delimits exactly the encoded bytes that were
    written for that minishard (offsets advance by the encoded length, not the raw one), and what is encoded
    is the [3, n] uint64le array in C order"""
    name = "Shard.close[encoded minishard index]"
    props = ("C04",)
    configs = ((0, (0,)), (1, (0,)), (1, (0, 1)))

    def configs_for(self, tier):
        return list(self.configs)

    def local_contracts_for(self, cfg):
        d = dict(super().local_contracts_for(cfg))
        d[IndexEncoderAbs.target] = IndexEncoderAbs()
        return d

    def ensures(self, c, result):
        mb, keys = self.cfg
        H = 16 << mb
        fs = get_fs()
        ents = [e for e in fs.entries if not e.initial]
        yield ("exactly-one-file-written:<shard>.shard", len(ents) == 1 and ents[0].path == FILE)
        if len(ents) != 1 or not isinstance(ents[0].content, SBytes):
            return
        F = ents[0].content
        encs = [x for x in c.calls_log if x[0] == IndexEncoderAbs.target]
        yield ("one-encoded-index-per-non-empty-minishard", len(encs) == len(keys))
        if len(encs) != len(keys):
            return
        total_data = 0
        for k in sorted(keys):
            total_data = total_data + self.minis[k][3].len
        pos = total_data
        j = c.int("j_enc", inp=True)
        known = getattr(c, "known", {}) or {}
        compact = sorted(keys) == list(range(len(keys)))
        for n_, k in enumerate(sorted(keys)):
            enc = encs[n_][2]
            src = encs[n_][1]["b"]
            obj, n, header, data = self.minis[k]
            ok = isinstance(src, SBytes) and src.packed is not None
            yield (f"minishard{k}:what-is-encoded-is-an-array-written-out-with-tobytes", ok)
            if ok:
                arr, order = src.packed
                yield (f"minishard{k}:encoded-array-is-[3,n]-uint64-in-C-order", arr.ndim == 2 and order == "C" and arr.dtype == np.dtype(np.uint64)
                       and And(arr.shape[0] == 3, arr.shape[1] == n))
                t = c.int(f"t_enc{k}", inp=True)
                c.assume(And(t >= 0, t < n))
                for r, nm in enumerate(("id-deltas", "offset-deltas", "sizes")):
                    if arr.ndim == 2:
                        yield (f"minishard{k}:row-{nm}", arr.elem(r, t) == header.elem(3 * t + r))
            if not (known.get("C04-minishard-index-slot-is-compacted") and not compact):
                start = read_uint(F, 16 * k, 8)
                end = read_uint(F, 16 * k + 8, 8)
                yield (f"slot[{k}]:delimits-exactly-the-ENCODED-index-bytes-written", And(start == pos, end == pos + enc.len))
            yield (f"minishard{k}:encoded-index-bytes-stored-at-that-position", implies(And(j >= 0, j < enc.len), F.fn(H + pos + j) == enc.fn(j)))
            pos = pos + enc.len
        yield ("file-length==index+data+encoded-minishard-indices", F.len == H + pos)

    def replay(self, model, cfg, ob_name):
        return native_shard_check(cfg, index_encoding="gzip")
