"""C05 / C04, writer side -- the MiniShard representation invariant, carried through flush_buffer and
close, and the determinism lemma that gives independence of store order and buffering strategy.

Ghost state, fixed for one minishard (its id class = the ids sharing its shard/minishard bit field):
  ID(i)          the i-th id of the class in increasing order   (ID(BV2Int(t)) == next-id(t), the bit-vector
                 function proved to enumerate the class in c05_sharded.NextIdLemmas)
  P(k)           id k has been stored                            (a set of ids)
  S_len(k), S_byte(k, j)   the ENCODED bytes stored for id k     (b"" for an id that was not stored)
  PS(i)          sum of S_len(ID(i')) for i' < i                 (prefix sums)

INV(state) for a MiniShard with n appended entries, header h, data d, buffer B:
  H   for i < n:  h[3i] == ID(i) - ID(i-1)  (ID(-1) := 0),  h[3i+1] == (offset if i == 0 else 0),
                  h[3i+2] == S_len(ID(i));        len(h) == 3n, h is uint64
  D   len(d) == PS(n);  for i < n, j < S_len(ID(i)):  d[PS(i) + j] == S_byte(ID(i), j)
  L   _last_chunk_id == ID(n-1)  (0 if n == 0);  _appended == n
  B   for every key k of B:  k is in the class, k >= ID(n), P(k), and B[k] == S(k)
  A   every id of the class that is >= ID(n) and not a key of B has S_len == 0 and is not in P
  T   n > 0  =>  P(ID(n-1)) or B is not empty        (the last entry is a stored chunk once B is empty)

All quantified clauses are proved for fresh (arbitrary) i, j, k and used by instantiation at the terms a
proof needs.  Facts used as lemma instances (each proved once elsewhere or a standard induction):
  * next-id lemmas (c05_sharded.NextIdLemmas, proved in the bit-vector theory for symbolic bit counts);
  * BV2Int(x + 1) == BV2Int(x) + 1 below 2^40 (lemma:bv2int-successor below, cvc5 --solve-bv-as-int);
  * PS(i+1) == PS(i) + S_len(ID(i)), PS(0) == 0 (definition) and PS non-decreasing (induction, ASSUMED).
"""
import numpy as np
import z3

from pyvc import core
from pyvc.arrays import SArr
from pyvc.core import And, Not, Or, PathInfeasible, RaiseSig, SBool, SInt, SObj, SU64, Unsupported, ctx, implies, ite
from pyvc.interp import LoopSpec
from pyvc.sbytes import SBytes
from pyvc.symmap import SBytesMap
from pyvc.verify import Contract, Lemma, register

from ._common import BV64, mk_shard_spec
from .c05_sharded import nxt_spec
from .c05_writer import ByteArrayModel, class_field

SF = "neuroglancer_scripts.sharded_file_accessor."
LIM = 1 << 40
BV = z3.BitVecSort(64)


@register
class Bv2IntSuccessor(Lemma):
    name = "lemma:bv2int-successor(below 2^40)"
    props = ("C05",)
    timeout_ms = 8000

    def run(self, c, cfg):
        x = z3.BitVec("x", 64)
        c.inputs["x"] = x
        c.assume(SBool(z3.ULT(x, BV64(LIM))))
        c.prove("BV2Int(x+1)==BV2Int(x)+1", SBool(z3.BV2Int(x + 1, False) == z3.BV2Int(x, False) + 1))
        c.prove("x!=0=>BV2Int(x-1)==BV2Int(x)-1", SBool(z3.Implies(x != 0, z3.BV2Int(x - 1, False) == z3.BV2Int(x, False) - 1)))


class Ghost:
    def __init__(self, c, spec, masked, tag=""):
        a = spec.attrs
        self.p, self.s, self.m = (a[k].t for k in ("preshift_bits", "shard_bits", "minishard_bits"))
        self.masked = masked.t
        self.field = class_field(spec)
        self.ID = z3.Function("ID", z3.IntSort(), BV)
        self.PSf = z3.Function("PS" + tag, z3.IntSort(), z3.IntSort())
        sl = z3.Function("S_len" + tag, BV, z3.IntSort())
        sb = z3.Function("S_byte" + tag, BV, z3.IntSort(), z3.IntSort())
        pp = z3.Function("P_stored" + tag, BV, z3.BoolSort())
        def s_len(k):
            t = SInt(sl(k))
            ctx().assume(And(t >= 0, t < (1 << 50)))      # stated bound: an encoded chunk is shorter than 2^50 bytes
            return t
        self.S_len = s_len
        self.S_byte = lambda k, j: SInt(sb(k, core._i(j)))
        self.P = lambda k: SBool(pp(k))
        self.pairs = []        # (Int term, BV term) with Int == BV2Int(BV)

    # ---- the id class
    def in_class(self, k):
        return SBool((k & self.field) == self.masked)

    def nxt(self, t):
        return nxt_spec(t, self.p, self.s, self.m, self.masked)

    def room(self, t):
        r = BV64(64) - self.s - self.m
        return SBool(z3.Or(r == BV64(64), z3.ULT(t, z3.If(z3.UGE(r, BV64(64)), BV64(0), BV64(1) << r))))

    def PS(self, i):
        return SInt(self.PSf(core._i(i)))

    def id_at(self, i):
        return self.ID(core._i(i))

    # ---- pairing of integer entry numbers with their bit-vector values
    def pair(self, c, x, guard=None, as_int=None):
        """Int partner of the bit-vector x (< 2^40); defines ID at that point. `guard`: the facts are only
        asserted under this condition (used for x - 1, meaningful when x != 0)"""
        for (i, y) in self.pairs:
            if z3.eq(y, x):
                return i
        c.trust("INV proofs: an entry number i stands for BV2Int(x) of the np.uint64 counter x; only order-isomorphism consequences, "
                "zero, range (< 2^40) and the successor fact (lemma:bv2int-successor, cvc5) are asserted -- the term BV2Int(x) is kept out of the queries")
        c.trust("INV proofs: instances of the next-id lemmas (c05_sharded.NextIdLemmas / NextIdSuccessor: class bits kept, strictly increasing, successor) "
                "are assumed at the instantiated points; ID(i) := next-id(i) by definition")
        g = (lambda f: f) if guard is None else (lambda f: z3.Implies(guard, f))
        i = c.int("idx") if as_int is None else as_int
        # i stands for BV2Int(x). The term BV2Int(x) itself is kept out of the queries (z3's mixed
        # Int/BV reasoning gives up on it); only consequences of i == BV2Int(x) are asserted: range, zero,
        # order isomorphism between pairs, successor (lemma:bv2int-successor)
        c.assume(SBool(g(z3.And(i.t >= 0, i.t < LIM))))
        c.assume(SBool(g(z3.ULT(x, BV64(LIM)))))
        c.assume(SBool(g((i.t == 0) == (x == BV64(0)))))                # BV2Int(x) == 0  <=>  x == 0
        c.assume(SBool(g(self.ID(i.t) == self.nxt(x))))                 # definition of ID
        c.assume(SBool(g((self.nxt(x) & self.field) == self.masked)))   # [NextIdLemmas] next-id keeps the class bits
        for (i2, y2) in self.pairs:                                     # [NextIdLemmas] strictly increasing
            c.assume(SBool(g(z3.Implies(z3.ULT(x, y2), z3.ULT(self.nxt(x), self.nxt(y2))))))
            c.assume(SBool(g(z3.Implies(z3.ULT(y2, x), z3.ULT(self.nxt(y2), self.nxt(x))))))
            c.assume(SBool(g((i.t < i2.t) == z3.ULT(x, y2))))           # BV2Int is monotone
            c.assume(SBool(g((i.t == i2.t) == (x == y2))))
        self.pairs.append((i, x))
        return i

    def succ(self, c, x):
        """partner of x + 1, with [lemma:bv2int-successor]"""
        i = self.pair(c, x)
        c.assume(SBool(z3.ULT(x + 1, BV64(LIM))))
        i1 = self.pair(c, x + 1)
        c.assume(i1 == i + 1)
        return i1

    def pred(self, c, x):
        """partner of x - 1 (facts guarded by x != 0), with [lemma:bv2int-successor]"""
        i = self.pair(c, x)
        i0 = self.pair(c, x - 1, guard=(x != 0))
        c.assume(implies(SBool(x != 0), i0 == i - 1))
        return i0

    def partner_of_int(self, c, i):
        """a bit-vector whose value is the integer i (0 <= i < 2^40): exists, so naming it is conservative"""
        x = c.u64("idx_bv").t
        self.pair(c, x, as_int=i)
        return x

    def successor_fact(self, c, k, x):
        """[NextIdLemmas] an id of the class above next-id(x) is at least next-id(x+1)"""
        c.assume(SBool(z3.Implies(z3.And((k & self.field) == self.masked, z3.UGT(k, self.nxt(x)), self.room(x + 1).t, x + 1 != 0),
                                  z3.UGE(k, self.nxt(x + 1)))))

    def ps_facts(self, c, i):
        """definition of the prefix sums at i, and monotonicity against the other instantiated points"""
        c.trust("INV proofs: ghost prefix sums PS of the stored sizes: definition instances PS(i+1) == PS(i) + S_len(ID(i)), PS(0) == 0; "
                "monotonicity PS(a) <= PS(b) for a <= b is ASSUMED (induction on b - a, sizes are non-negative)")
        c.trust("stated bounds of the INV proofs: fewer than 2^40 entries, encoded chunks shorter than 2^50 bytes, the class has more than n+1 ids")
        c.assume(self.PS(0) == 0)
        c.assume(self.S_len(self.id_at(i)) >= 0)
        c.assume(implies(i >= 0, self.PS(i + 1) == self.PS(i) + self.S_len(self.id_at(i))))
        c.assume(implies(i >= 0, self.PS(i) >= 0))
        seen = c.ghost.setdefault("ps_points" + str(id(self)), [])
        for j in seen:
            for a_, b_ in ((i, j), (i + 1, j), (i, j + 1), (i + 1, j + 1)):
                c.assume(implies(And(a_ >= 0, a_ <= b_), self.PS(a_) <= self.PS(b_)))      # ASSUMED: induction
                c.assume(implies(And(b_ >= 0, b_ <= a_), self.PS(b_) <= self.PS(a_)))
        seen.append(i)


class WState:
    """immutable snapshot of a MiniShard's fields"""

    def __init__(self, obj):
        a = obj.attrs
        self.nbv = a["_appended"]
        self.header = a["header"].frozen() if isinstance(a["header"], SArr) else a["header"]
        self.data = a["databytearray"].data if isinstance(a["databytearray"], ByteArrayModel) else None
        self.last = a["_last_chunk_id"]
        self.offset = a["_offset"]
        self.buffer = a["_chunk_buffer"].snapshot() if isinstance(a["_chunk_buffer"], SBytesMap) else None
        self.masked = a["masked_bits"]


def fresh_state(c, G, obj, tag):
    """replace the object's mutable fields by an arbitrary state (same spec, offset, masked_bits)"""
    a = obj.attrs
    nbv = c.u64("n" + tag)
    c.assume(SBool(z3.ULT(nbv.t, BV64(LIM - 8))))
    n = G.pair(c, nbv.t)
    a["_appended"] = nbv
    a["header"] = SArr.fresh(c, "header" + tag, np.uint64, (3 * n,), kind="bv", inp=False)
    d = SBytes.fresh(c, "data" + tag, inp=False)
    a["databytearray"] = ByteArrayModel(d)
    a["_last_chunk_id"] = c.u64("last" + tag)
    a["_chunk_buffer"] = SBytesMap.fresh(c, "buffer" + tag)
    return WState(obj)


def inv_instances(c, G, st, i, k, j):
    """INV(st) instantiated at entry number i (Int), key k (BV term) and byte position j (Int)"""
    n = G.pair(c, st.nbv.t)
    h, d, B = st.header, st.data, st.buffer
    out = []
    wf = isinstance(h, SArr) and h.dtype == np.dtype(np.uint64) and h.ndim == 1 and d is not None and B is not None
    out.append(("header-is-a-uint64-array,containers-kept", wf))
    if not wf:
        return out
    out.append(("H:len(header)==3n", h.shape[0] == 3 * n))
    idi = G.id_at(i)
    prev = z3.If(core._i(i) == 0, BV64(0), G.id_at(i - 1))
    inr = And(i >= 0, i < n)
    out.append(("H:id-delta", implies(inr, h.elem(3 * i) == SU64(idi - prev))))
    out.append(("H:offset-word", implies(inr, h.elem(3 * i + 1) == ite(i == 0, st.offset, SU64(BV64(0))))))
    out.append(("H:size-word", implies(inr, h.elem(3 * i + 2) == SU64(z3.Int2BV(G.S_len(idi).t, 64)))))
    out.append(("D:len(data)==PS(n)", d.len == G.PS(n)))
    out.append(("D:entry-bytes", implies(And(inr, j >= 0, j < G.S_len(idi)), d.fn(G.PS(i) + j) == G.S_byte(idi, j))))
    out.append(("L:last-id", st.last == SU64(z3.If(n.t == 0, BV64(0), G.id_at(n - 1)))))
    hk = B.has(SU64(k))
    bk = B.get(SU64(k))
    idn = G.id_at(n)
    out.append(("B:keys-in-class-at-or-after-ID(n),stored", implies(hk, And(G.in_class(k), SBool(z3.UGE(k, idn)), G.P(k)))))
    out.append(("B:buffered-bytes==S", implies(hk, And(bk.len == G.S_len(k), implies(And(j >= 0, j < G.S_len(k)), bk.fn(j) == G.S_byte(k, j))))))
    out.append(("A:absent-ids-are-empty-and-not-stored",
                implies(And(G.in_class(k), SBool(z3.UGE(k, idn)), Not(hk)), And(G.S_len(k) == 0, Not(G.P(k))))))
    out.append(("T:last-entry-stored-or-buffer-not-empty", implies(n > 0, Or(G.P(G.id_at(n - 1)), B.card > 0))))
    out.append(("card>=0", B.card >= 0))
    return out


def standard_points(c, G, st, sk):
    """facts at the points every proof step needs: n-1, n, n+1, the skolem entry and its predecessor"""
    n = G.pair(c, st.nbv.t)
    G.succ(c, st.nbv.t)
    G.pred(c, st.nbv.t)
    i, k, j = sk
    xi = G.partner_of_int(c, i)
    G.pred(c, xi)
    for q in (i, n, n - 1):
        G.ps_facts(c, q)
    return n


def assume_inv(c, G, st, sk, extra_keys=(), extra_entries=()):
    i, k, j = sk
    n = G.pair(c, st.nbv.t)
    for (ii, kk) in [(i, k)] + [(i, kx) for kx in extra_keys] + [(ix, k) for ix in extra_entries]:
        for _, cond in inv_instances(c, G, st, ii, kk, j):
            c.assume(cond if not isinstance(cond, bool) else SBool(z3.BoolVal(cond)))
    return n


def prove_inv(c, G, st, sk, label, pivot=None):
    """pivot: the entry count of the state before the step -- the entry clauses are proved separately for
    entries before, at and after it (smaller queries), then as stated"""
    i, k, j = sk
    for name, cond in inv_instances(c, G, st, i, k, j):
        if pivot is not None and name.startswith(("H:id", "H:off", "H:size", "D:entry")):
            c.prove(f"{label}:{name}[older entries]", implies(i < pivot, cond), kind="invariant")
            c.prove(f"{label}:{name}[the new entry]", implies(i == pivot, cond), kind="invariant")
            c.prove(f"{label}:{name}[beyond]", implies(i > pivot, cond), kind="invariant")
        c.prove(f"{label}:{name}", cond, kind="invariant")


def mk_skolems(c, tag):
    i = c.int("i" + tag, inp=True)
    k = c.u64("k" + tag, inp=True).t
    j = c.int("j" + tag, inp=True)
    c.assume(And(i >= 0, i < LIM - 8))
    return (i, k, j)


def mk_inv_minishard(c):
    from neuroglancer_scripts.sharded_file_accessor import MiniShard
    spec = mk_shard_spec(c, bits_bound=65)
    a = spec.attrs
    c.assume(SBool(z3.ULE(a["preshift_bits"].t + a["shard_bits"].t + a["minishard_bits"].t, BV64(64))))
    masked = c.u64("masked_bits", inp=True)
    c.assume(SBool(masked.t != BV64(0)))        # `if not self.masked_bits` re-derives it otherwise (same value): store contract
    offset = c.u64("_offset", inp=True)
    obj = SObj(MiniShard, {"shard_spec": spec, "_offset": offset, "masked_bits": masked})
    G = Ghost(c, spec, masked)
    st = fresh_state(c, G, obj, "0")
    c.assume(SBool((G.field & masked.t) == masked.t))
    return obj, st, G


class FlushLoop(LoopSpec):
    """`while self.next_cmc in self._chunk_buffer:` under the representation invariant"""

    def __init__(self, fn_substr, unit):
        super().__init__(fn_substr, "while self.next_cmc in self._chunk_buffer")
        self.unit = unit

    def run_while(self, interp, s, fr):
        c = ctx()
        u = self.unit
        G = u.G
        obj = fr.contract_lookup("self")
        # entry: INV holds of the state that reaches the loop
        sk0 = mk_skolems(c, "_e")
        u.known_instances(c, sk0)
        st_e = WState(obj)
        standard_points(c, G, st_e, sk0)
        prove_inv(c, G, st_e, sk0, "inv-entry")
        n_e = G.pair(c, st_e.nbv.t)
        # an arbitrary iteration: arbitrary state satisfying INV, reached from the entry state (n only grows)
        st1 = fresh_state(c, G, obj, "_it")
        sk = mk_skolems(c, "_p")
        n1 = standard_points(c, G, st1, sk)
        c.assume(n1 >= n_e)
        idn = G.id_at(n1)
        assume_inv(c, G, st1, sk, extra_keys=(idn,), extra_entries=(n1 - 1,))
        G.successor_fact(c, sk[1], st1.nbv.t)
        c.assume(G.room(st1.nbv.t + 1))           # stated bound: the class has more than n+1 ids
        u.loop_head_states.append(st1)
        test = interp.eval(s.test, fr)
        if interp.truth(test):
            card0 = st1.buffer.card
            interp.exec_block(s.body, fr)
            st2 = WState(obj)
            standard_points(c, G, st2, sk)
            G.ps_facts(c, n1 + 1)
            prove_inv(c, G, st2, sk, "inv-preserved", pivot=n1)
            c.prove("n-grows", G.pair(c, st2.nbv.t) >= n_e, kind="invariant")
            c.prove("decreases:buffer-size", And(card0 >= 0, st2.buffer.card < card0), kind="termination")
            c.cover("arbitrary-iteration:flush_buffer-loop")
            raise PathInfeasible()
        # exit: invariant and negated guard hold


class NextCmcAtCallSite(Contract):
    """MiniShard.next_cmc where the writer proofs read it: the value given by its own contract
    (c05_sharded.MiniShardNextCmc: next_cmc == next-id(_appended), proved from the body)"""
    target = SF + "MiniShard.next_cmc"
    name = "MiniShard.next_cmc[call-site]"
    props = ()
    has_body = False

    def setup(self, c, cfg):
        raise NotImplementedError

    def apply(self, interp, fn, args, kwargs):
        from neuroglancer_scripts.sharded_base import ShardedIOError
        obj = args[0]
        a = obj.attrs
        if a.get("masked_bits") is None:
            raise RaiseSig(ShardedIOError("masked_bits not yet defined"))
        sp = a["shard_spec"].attrs
        return SU64(nxt_spec(a["_appended"].t, sp["preshift_bits"].t, sp["shard_bits"].t, sp["minishard_bits"].t, a["masked_bits"].t))


class _InvUnit(Contract):
    use_at_call_sites = False
    props = ("C05", "C04")
    timeout_ms = 120000

    def local_contracts_for(self, cfg):
        return {NextCmcAtCallSite.target: NextCmcAtCallSite()}

    def setup_common(self, c):
        self.obj, self.st0, self.G = mk_inv_minishard(c)
        self.loop_head_states = []
        self.known = [self.st0]
        self.pivot = None

    def known_instances(self, c, sk):
        """the precondition (and every state already known to satisfy INV) instantiated at these points"""
        for st in self.known:
            n = standard_points(c, self.G, st, sk)
            assume_inv(c, self.G, st, sk, extra_keys=(self.G.id_at(n),), extra_entries=(n - 1,))

    def bind(self, fn, args, kwargs):
        return {}


@register
class FlushBuffer(_InvUnit):
    """flush_buffer: INV is preserved (so nothing stored is lost or altered), afterwards the next id is not
    in the buffer, and under INV the 'key below the next id' error is unreachable"""
    target = SF + "MiniShard.flush_buffer"

    def loop_specs_for(self, cfg):
        return [FlushLoop("flush_buffer", self)]

    def setup(self, c, cfg):
        self.setup_common(c)
        return (self.obj,), {}

    def ensures(self, c, result):
        G = self.G
        sk = mk_skolems(c, "_q")
        st = WState(self.obj)
        # the state after the loop is the loop-head state of the exit path: INV is known of it
        for s1 in self.loop_head_states:
            n1 = standard_points(c, G, s1, sk)
            assume_inv(c, G, s1, sk, extra_keys=(G.id_at(n1),), extra_entries=(n1 - 1,))
        n = standard_points(c, G, st, sk)
        for name, cond in inv_instances(c, G, st, *sk):
            yield ("post:" + name, cond)
        yield ("post:next-id-not-buffered", Not(st.buffer.has(SU64(G.id_at(n)))))
        yield ("post:n-grows", n >= G.pair(c, self.st0.nbv.t))

    def check_raise(self, c, exc, b, cfg):
        # the only raise is the ShardedIOError for a key below the next id: unreachable under INV (clause B)
        G = self.G
        qs = c.ghost.get("quantified", [])
        for q in qs:
            w = q.witness.t
            for s1 in self.loop_head_states:
                sk = (c.int("i_w"), w, c.int("j_w"))
                c.assume(And(sk[0] >= 0, sk[0] < LIM - 8))
                standard_points(c, G, s1, sk)
                assume_inv(c, G, s1, sk)
        c.prove(f"never-raises-under-INV:{type(exc).__name__}", False, kind="exc")


# --------------------------------------------------------------------------- close()

class FlushAtCallSite(Contract):
    """flush_buffer where close() calls it: its contract (FlushBuffer above) -- requires INV, gives back an
    arbitrary state satisfying INV with n not smaller and the next id not buffered"""
    target = SF + "MiniShard.flush_buffer"
    name = "MiniShard.flush_buffer[call-site:contract]"
    props = ()
    has_body = False

    def __init__(self, unit=None):
        self.unit = unit

    def setup(self, c, cfg):
        raise NotImplementedError

    def apply(self, interp, fn, args, kwargs):
        c = ctx()
        u = self.unit
        G = u.G
        obj = args[0]
        u.ncalls += 1
        tag = f"_f{u.ncalls}"
        sk = mk_skolems(c, tag + "pre")
        u.known_instances(c, sk)
        st = WState(obj)
        n = standard_points(c, G, st, sk)
        prove_inv(c, G, st, sk, f"pre[flush_buffer#{u.ncalls}]", pivot=u.pivot)
        st2 = fresh_state(c, G, obj, tag)
        n2 = G.pair(c, st2.nbv.t)
        c.assume(n2 >= n)
        c.assume(Not(st2.buffer.has(SU64(G.id_at(n2)))))
        c.assume(G.room(st2.nbv.t + 1))
        u.known.append(st2)
        u.next_not_buffered.append(st2)
        return None


class CloseLoop(LoopSpec):
    """`while len(self._chunk_buffer) > 0:` in close(): INV and 'the next id is not buffered'"""

    def __init__(self, unit):
        super().__init__("close", "while len(self._chunk_buffer) > 0")
        self.unit = unit

    def run_while(self, interp, s, fr):
        c = ctx()
        u = self.unit
        G = u.G
        obj = fr.contract_lookup("self")
        sk0 = mk_skolems(c, "_ce")
        u.known_instances(c, sk0)
        st_e = WState(obj)
        n_e = standard_points(c, G, st_e, sk0)
        prove_inv(c, G, st_e, sk0, "inv-entry")
        c.prove("inv-entry:next-id-not-buffered", Not(st_e.buffer.has(SU64(G.id_at(n_e)))), kind="invariant")
        # arbitrary iteration
        st1 = fresh_state(c, G, obj, "_cit")
        n1 = G.pair(c, st1.nbv.t)
        c.assume(n1 >= n_e)
        c.assume(Not(st1.buffer.has(SU64(G.id_at(n1)))))
        c.assume(G.room(st1.nbv.t + 1))
        u.known[:] = [st1]                      # only the loop-head state is known inside / after the loop
        u.next_not_buffered[:] = [st1]
        u.pivot = n1
        test = interp.eval(s.test, fr)
        if interp.truth(test):
            interp.exec_block(s.body, fr)
            sk = mk_skolems(c, "_cp")
            u.known_instances(c, sk)
            st2 = WState(obj)
            n2 = standard_points(c, G, st2, sk)
            prove_inv(c, G, st2, sk, "inv-preserved")
            c.prove("inv-preserved:next-id-not-buffered", Not(st2.buffer.has(SU64(G.id_at(n2)))), kind="invariant")
            c.prove("n-grows", n2 >= n_e, kind="invariant")
            c.cover("arbitrary-iteration:close-loop")
            raise PathInfeasible()


@register
class MiniShardClose(_InvUnit):
    """close(): INV is preserved and the buffer ends empty -- every buffered chunk has been appended under its
    id, every gap before it filled with an empty entry (termination of the outer loop is NOT proved)"""
    target = SF + "MiniShard.close"
    name = SF + "MiniShard.close"

    def local_contracts_for(self, cfg):
        d = super().local_contracts_for(cfg)
        d[FlushAtCallSite.target] = FlushAtCallSite(self)
        return d

    def loop_specs_for(self, cfg):
        return [CloseLoop(self)]

    def setup(self, c, cfg):
        self.setup_common(c)
        self.ncalls = 0
        self.pivot = None
        self.next_not_buffered = []
        return (self.obj,), {}

    def known_instances(self, c, sk):
        super().known_instances(c, sk)
        G = self.G
        for st in self.known:
            G.successor_fact(c, sk[1], st.nbv.t)

    def ensures(self, c, result):
        G = self.G
        sk = mk_skolems(c, "_q")
        self.known_instances(c, sk)
        st = WState(self.obj)
        n = standard_points(c, G, st, sk)
        for name, cond in inv_instances(c, G, st, *sk):
            yield ("post:" + name, cond)
        yield ("post:buffer-empty", st.buffer.card == 0)
        yield ("post:n-grows", n >= G.pair(c, self.st0.nbv.t))

    def check_raise(self, c, exc, b, cfg):
        c.prove(f"never-raises-under-INV:{type(exc).__name__}", False, kind="exc")


# --------------------------------------------------------------------------- consequences of INV (no code involved)

def _abstract_state(c, G, tag, masked, offset):
    """an arbitrary MiniShard state as a WState-like record (no object needed)"""
    from neuroglancer_scripts.sharded_file_accessor import MiniShard
    obj = SObj(MiniShard, {"_offset": offset, "masked_bits": masked})
    return obj, fresh_state(c, G, obj, tag)


def _empty_buffer_fact(c, st, k):
    c.assume(implies(st.buffer.has(SU64(k)), st.buffer.card >= 1))        # a key is a member: the map is not empty


@register
class ClosedStateIsDetermined(Lemma):
    """Two closed minishards (INV, empty buffer) that hold the same stored map (same ghost P, S) have the
    same number of entries, the same header words and the same data bytes: the bytes a MiniShard hands to
    Shard.close are a function of WHAT was stored, not of the order of the stores nor of the container
    classes used for buffering.  (Each state satisfies INV by the contracts of store_cmc_chunk /
    flush_buffer / close above; this lemma is pure logic over INV.)"""
    name = "lemma:closed-minishard-is-a-function-of-the-stored-map(order-and-strategy-independence)"
    props = ("C05",)
    timeout_ms = 120000

    def run(self, c, cfg):
        spec = mk_shard_spec(c, bits_bound=65)
        a = spec.attrs
        c.assume(SBool(z3.ULE(a["preshift_bits"].t + a["shard_bits"].t + a["minishard_bits"].t, BV64(64))))
        masked = c.u64("masked_bits", inp=True)
        offset = c.u64("_offset", inp=True)
        G = Ghost(c, spec, masked)
        c.assume(SBool((G.field & masked.t) == masked.t))
        _, A = _abstract_state(c, G, "_A", masked, offset)
        _, B = _abstract_state(c, G, "_B", masked, offset)
        nA, nB = G.pair(c, A.nbv.t), G.pair(c, B.nbv.t)
        c.assume(And(A.buffer.card == 0, B.buffer.card == 0))
        i, k, j = mk_skolems(c, "")
        sk = (i, k, j)
        for st, n in ((A, nA), (B, nB)):
            standard_points(c, G, st, sk)
        # INV of both states at the skolems and at each other's last entry
        for st, other_n in ((A, nB), (B, nA)):
            n = G.pair(c, st.nbv.t)
            kk = G.id_at(other_n - 1)
            assume_inv(c, G, st, sk, extra_keys=(kk, G.id_at(n)), extra_entries=(n - 1, other_n - 1))
            _empty_buffer_fact(c, st, kk)
            _empty_buffer_fact(c, st, k)
        c.prove("same-number-of-entries", nA == nB)
        c.prove("same-header-length", A.header.shape[0] == B.header.shape[0])
        w = c.int("w", inp=True)
        for r_, nm in ((0, "id-delta"), (1, "offset"), (2, "size")):
            c.prove(f"same-header-word:{nm}", implies(And(i >= 0, i < nA), A.header.elem(3 * i + r_) == B.header.elem(3 * i + r_)))
        c.prove("same-data-length", A.data.len == B.data.len)
        c.prove("same-data-bytes(entry i, byte j)",
                implies(And(i >= 0, i < nA, j >= 0, j < G.S_len(G.id_at(i))), A.data.fn(G.PS(i) + j) == B.data.fn(G.PS(i) + j)))
        c.prove("entry-ids-strictly-increasing(delta != 0 after the first)",
                implies(And(i >= 1, i < nA), Not(A.header.elem(3 * i) == SU64(BV64(0)))))


# --------------------------------------------------------------------------- a store keeps INV (for the updated stored map)

def with_store(c, G, cmc, enc, n):
    """ghost after storing `enc` under id cmc (an id of the class at or after ID(n)): S' = S[cmc := enc],
    P' = P + {cmc}; PS' are the prefix sums of S' -- equal to PS up to entry n because the entries before
    ID(n) are untouched (prefix-sum frame lemma, induction on the entry number: ASSUMED)"""
    import copy
    G2 = copy.copy(G)
    G2.PSf = z3.Function("PS_after_store", z3.IntSort(), z3.IntSort())
    old_len, old_byte, old_P = G.S_len, G.S_byte, G.P
    G2.S_len = lambda k: ite(SBool(k == cmc), enc.len, old_len(k))
    G2.S_byte = lambda k, j: ite(SBool(k == cmc), enc.fn(j), old_byte(k, j))
    G2.P = lambda k: Or(SBool(k == cmc), old_P(k))

    def frame(q):
        c.trust("INV proofs: prefix-sum frame lemma (PS' == PS up to entry n when the stored sizes before ID(n) are unchanged): ASSUMED (induction)")
        c.assume(implies(And(q >= 0, q <= n), G2.PS(q) == G.PS(q)))
    G2.frame = frame
    return G2


@register
class StoreBufferedKeepsInv(Lemma):
    """the 'kept in the buffer' outcome of store_cmc_chunk (its effect is given by the MiniShardStore contract:
    buffer' == buffer[cmc := encoded chunk], nothing else changes) keeps INV for S' = S[cmc := encoded]"""
    name = "lemma:store(buffered)-keeps-INV-for-the-updated-stored-map"
    props = ("C05",)
    timeout_ms = 120000

    def run(self, c, cfg):
        obj, st, G = mk_inv_minishard(c)
        n = G.pair(c, st.nbv.t)
        cmc = c.u64("cmc", inp=True).t
        enc = SBytes.fresh(c, "encoded")
        c.assume(enc.len < (1 << 50))
        c.assume(And(G.in_class(cmc), SBool(z3.UGT(cmc, G.id_at(n)))))
        G2 = with_store(c, G, cmc, enc, n)
        sk = mk_skolems(c, "")
        i, k, j = sk
        standard_points(c, G, st, sk)
        assume_inv(c, G, st, sk, extra_keys=(cmc, G.id_at(n)), extra_entries=(n - 1,))
        # the new state: only the buffer changed
        obj.attrs["_chunk_buffer"].setitem(SU64(cmc), enc)
        st2 = WState(obj)
        for q in (i, i + 1, n, n - 1, n + 1):
            G2.frame(q)
        standard_points(c, G2, st2, sk)
        # ids below ID(n) are below cmc: strictly increasing enumeration (pairs carry the order facts)
        prove_inv(c, G2, st2, sk, "INV'")


@register
class AppendNextKeepsInv(_InvUnit):
    """MiniShard.append(encoded, cmc) for cmc == ID(n), not buffered: the real append body takes a state
    satisfying INV(S) to a state satisfying INV(S[cmc := encoded]) -- the 'appended' outcome of
    store_cmc_chunk before its flush_buffer call"""
    target = SF + "MiniShard.append"
    name = "MiniShard.append[next id, under INV]"

    def setup(self, c, cfg):
        self.setup_common(c)
        G, st = self.G, self.st0
        n = G.pair(c, st.nbv.t)
        G.succ(c, st.nbv.t)
        self.cmc = SU64(G.nxt(st.nbv.t))
        self.enc = SBytes.fresh(c, "encoded")
        c.assume(self.enc.len < (1 << 50))
        c.assume(Not(st.buffer.has(self.cmc)))
        c.assume(G.room(st.nbv.t + 1))
        return (self.obj, self.enc, self.cmc), {}

    def ensures(self, c, result):
        G, st = self.G, self.st0
        n = G.pair(c, st.nbv.t)
        G2 = with_store(c, G, self.cmc.t, self.enc, n)
        sk = mk_skolems(c, "_q")
        i, k, j = sk
        standard_points(c, G, st, sk)
        assume_inv(c, G, st, sk, extra_keys=(self.cmc.t, G.id_at(n)), extra_entries=(n - 1,))
        G.successor_fact(c, k, st.nbv.t)
        st2 = WState(self.obj)
        for q in (i, i + 1, n, n - 1):
            G2.frame(q)
        standard_points(c, G2, st2, sk)
        G2.ps_facts(c, n)
        for name, cond in inv_instances(c, G2, st2, *sk):
            if name.startswith(("H:id", "H:off", "H:size", "D:entry")):
                yield (f"INV':{name}[older entries]", implies(i < n, cond))
                yield (f"INV':{name}[the new entry]", implies(i == n, cond))
            yield ("INV':" + name, cond)

    def check_raise(self, c, exc, b, cfg):
        c.prove(f"never-raises:{type(exc).__name__}", False, kind="exc")
