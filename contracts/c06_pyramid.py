"""C06 -- each pyramid level equals the whole previous level downscaled once (dyadic_pyramid.py).

The downscaler enters through an abstract *block-local* contract (factors in {1,2} per axis, as
compute_dyadic_downscaling uses them): output voxel (c,z,y,x) is a fixed function DSF of the up to
2x2x2 input voxels (c, fz*z+a, fy*y+b, fx*x+e) that exist in the input array and of which of them
exist. The three concrete downscalers are shown to have this form under C07 (their element
formulas only read the block, and border padding replicates a voxel of the block or a constant).
"""
import itertools

import numpy as np
import z3

from pyvc import core
from pyvc.arrays import SArr
from pyvc.core import And, Not, Or, RaiseSig, SBool, SInt, SObj, Unsupported, ctx, implies, ite
from pyvc.verify import Contract, Lemma, register

from .c03_io import mk_info
from .shared_abs import level_fn, mk_io
from .shared_grid import ceil_div_term, grid_coverage

DP = "neuroglancer_scripts.dyadic_pyramid."
DS = "neuroglancer_scripts.downscaling."

_DSF = z3.Function("DSF", *([z3.IntSort()] * 8 + [z3.BoolSort()] * 8), z3.IntSort())


def block_stat(get, present):
    """DSF over the 8 slots; get(a,b,e) -> value term, present(a,b,e) -> bool term"""
    vals, flags = [], []
    for a, b, e in itertools.product((0, 1), repeat=3):
        p = present(a, b, e)
        pt = core._b(p)
        v = core._i(get(a, b, e))
        vals.append(z3.If(pt, v, z3.IntVal(0)))
        flags.append(pt)
    return SInt(_DSF(*vals, *flags))


@register
class DownscaleAbs(Contract):
    """assumed here, proved per method under C07 (block-locality of the element formulas)"""
    target = DS + "Downscaler.downscale"
    props = ()
    has_body = False

    def setup(self, c, cfg):
        raise NotImplementedError

    def apply(self, interp, fn, args, kwargs):
        c = ctx()
        b = self.bind(fn, args, kwargs)
        chunk, f = b["chunk"], list(b["downscaling_factors"])
        if not all(isinstance(x, int) and x in (1, 2) for x in f) or len(f) != 3:
            raise RaiseSig(NotImplementedError())
        fx, fy, fz = f
        C, Z, Y, X = chunk.shape
        shape = (C, ceil_div_term(c, Z, fz), ceil_div_term(c, Y, fy), ceil_div_term(c, X, fx))
        src = chunk

        def fn_(ch, z, y, x):
            def pos(a, b_, e):
                return (fz * z + a, fy * y + b_, fx * x + e)

            def present(a, b_, e):
                if a >= fz or b_ >= fy or e >= fx:
                    return False
                pz, py, px = pos(a, b_, e)
                return And(pz < Z, py < Y, px < X)

            def get(a, b_, e):
                if a >= fz or b_ >= fy or e >= fx:
                    return 0
                pz, py, px = pos(a, b_, e)
                return src.elem(ch, pz, py, px)
            return block_stat(get, present)
        c.trust("abstract block-local downscaler (factors in {1,2}); concrete methods under C07")
        return SArr.from_fn(fn_, shape, chunk.dtype)


RELS = ("mult", "div", "odd")


def _configs():
    out = []
    for f in itertools.product((1, 2), repeat=3):
        out.append((f, ("mult", "mult", "mult")))
        for ax in range(3):
            rel = ["mult"] * 3
            rel[ax] = "div"
            out.append((f, tuple(rel)))
            if f[ax] == 2:
                rel = ["mult"] * 3
                rel[ax] = "odd"
                out.append((f, tuple(rel)))
    return tuple(out)


@register
class ComputeDyadicDownscaling(Contract):
    """Precondition = what is proved of generated infos (C08): sizes >= 1, new size == ceil(old/f),
    chunk sizes powers of two. Powers of two are generalised to: per axis either
      mult: old chunk == f*h, new chunk == h*m   (h, m >= 1)        [new chunk a multiple of the half chunk]
      div : old chunk == f*h, h == new chunk * m (m >= 2)           [new chunk a proper divisor]
      odd : f == 2 and old chunk == 1                                [no half chunk]
    (every pair of powers of two falls in one of them). Configurations verified: all axes `mult`, and
    one axis `div` / `odd` with the others `mult`. NO chunk-compatibility assumption is made: for
    incompatible pairs the function must raise."""
    target = DP + "compute_dyadic_downscaling"
    props = ("C06",)
    use_at_call_sites = False
    path_budget = 3000
    timeout_ms = 60000
    configs = _configs()

    def setup(self, c, cfg):
        from neuroglancer_scripts.downscaling import Downscaler
        fac, rels = cfg
        nch = c.int("num_channels", inp=True)
        c.assume(nch >= 1)
        old_size = [c.int(f"old_size{i}", inp=True) for i in range(3)]
        for s in old_size:
            c.assume(s >= 1)
        new_size = []
        for i, (s, f) in enumerate(zip(old_size, fac)):
            if f == 1:
                new_size.append(s)
            else:
                ns = c.int(f"new_size{i}", inp=True)
                c.assume(s + 1 == 2 * ns if False else Or(s == 2 * ns, s + 1 == 2 * ns))   # ns == ceil(s/2)
                c.assume(ns != s)      # (size 1 halves to 1: then the code takes factor 1 -- covered by f == 1)
                new_size.append(ns)
        old_cs, new_cs = [], []
        for i, (f, rel) in enumerate(zip(fac, rels)):
            h = c.int(f"h{i}", inp=True)
            m = c.int(f"m{i}", inp=True)
            if rel == "mult":
                c.assume(And(h >= 1, m >= 1))
                old_cs.append(f * h if f != 1 else h)
                new_cs.append(h * m)
            elif rel == "div":
                n = c.int(f"ncs{i}", inp=True)
                c.assume(And(n >= 1, m >= 2))
                new_cs.append(n)
                old_cs.append(f * (n * m) if f != 1 else n * m)
            else:
                n = c.int(f"ncs{i}", inp=True)
                c.assume(n >= 1)
                old_cs.append(1)
                new_cs.append(n)
        self.info = {"type": "image", "data_type": "uint16", "num_channels": nch, "scales": [
            {"key": "old", "size": old_size, "chunk_sizes": [old_cs], "voxel_offset": [0, 0, 0], "encoding": "raw"},
            {"key": "new", "size": new_size, "chunk_sizes": [new_cs], "voxel_offset": [0, 0, 0], "encoding": "raw"}]}
        self.io = mk_io(c, self.info)
        self.cfg = cfg
        ds = SObj(Downscaler)
        return (self.info, 0, ds, self.io, self.io), {}

    def bind(self, fn, args, kwargs):
        return {}

    def ensures(self, c, result):
        w = self.io.ghost["written"]
        out = [("one-write-per-iteration", len(w) == 1)]
        if len(w) != 1:
            return out
        key, cc, chunk, lvs, lrs = w[0]
        old, new = self.info["scales"]
        out.append(("written-to-the-new-scale", key == "new"))
        out.append(("every-new-grid-cell-written-exactly-once", grid_coverage(c, w[0], new["size"], new["chunk_sizes"][0])))
        D = level_fn(self.io, "old")
        fx, fy, fz = self.cfg[0]
        OX, OY, OZ = old["size"]
        idx, inb = chunk.forall(None)
        ch, z, y, x = idx
        Zn, Yn, Xn = cc[4] + z, cc[2] + y, cc[0] + x

        def present(a, b_, e):
            if a >= fz or b_ >= fy or e >= fx:
                return False
            return And(fz * Zn + a < OZ, fy * Yn + b_ < OY, fx * Xn + e < OX)

        def get(a, b_, e):
            if a >= fz or b_ >= fy or e >= fx:
                return 0
            return SInt(D(core._i(ch), core._i(fz * Zn + a), core._i(fy * Yn + b_), core._i(fx * Xn + e)))
        exp = block_stat(get, present)
        out.append(("new[c,z,y,x]==downscale(whole old level)[c,z,y,x]", implies(inb, chunk.elem(*idx) == exp)))
        return out

    def raises_when(self, c):
        # "If a pair of scales cannot be processed, the tool fails with an error"
        return [(ValueError, True), (ZeroDivisionError, True), (NotImplementedError, True)]

    def replay(self, model, cfg, ob_name):
        return native_pyramid_check(model, cfg)


def native_pyramid_check(model, cfg, max_size=9):
    """real compute_dyadic_downscaling on a small random level; compare with downscaling the whole
    level at once (striding downscaler: exact, any dtype)."""
    from neuroglancer_scripts import downscaling, dyadic_pyramid, precomputed_io
    from .c03_io import native_io
    fac, rels = cfg
    g = lambda n, lo=1, hi=4: min(max(lo, model.get(n, lo)), hi) if isinstance(model.get(n, lo), int) else lo
    old_cs, new_cs = [], []
    for i, (f, rel) in enumerate(zip(fac, rels)):
        if rel == "mult":
            h, m = g(f"h{i}"), g(f"m{i}")
            old_cs.append(f * h)
            new_cs.append(h * m)
        elif rel == "div":
            n, m = g(f"ncs{i}"), g(f"m{i}", 2)
            new_cs.append(n)
            old_cs.append(f * n * m)
        else:
            old_cs.append(1)
            new_cs.append(g(f"ncs{i}"))
    old_size = [min(max(1, model.get(f"old_size{i}", 1)), max_size) for i in range(3)]
    old_size = [max(s, 2) if f == 2 else s for s, f in zip(old_size, fac)]
    new_size = [s if f == 1 else -(-s // 2) for s, f in zip(old_size, fac)]
    nch = 1
    info = {"type": "image", "data_type": "uint16", "num_channels": nch, "scales": [
        {"key": "old", "size": old_size, "chunk_sizes": [old_cs], "voxel_offset": [0, 0, 0], "encoding": "raw", "resolution": [1, 1, 1]},
        {"key": "new", "size": new_size, "chunk_sizes": [new_cs], "voxel_offset": [0, 0, 0], "encoding": "raw", "resolution": [2, 2, 2]}]}
    io0, _ = native_io({})
    io = precomputed_io.PrecomputedIO(info, type(io0.accessor)())
    rng = np.random.default_rng(3)
    lvl = rng.integers(1, 60000, size=(nch,) + tuple(reversed(old_size))).astype("uint16")

    def cells(size, cs):
        for x0 in range(0, size[0], cs[0]):
            for y0 in range(0, size[1], cs[1]):
                for z0 in range(0, size[2], cs[2]):
                    yield (x0, min(x0 + cs[0], size[0]), y0, min(y0 + cs[1], size[1]), z0, min(z0 + cs[2], size[2]))
    for cc in cells(old_size, old_cs):
        io.write_chunk(lvl[:, cc[4]:cc[5], cc[2]:cc[3], cc[0]:cc[1]], "old", cc)
    ds = downscaling.StridingDownscaler()
    desc = f"old size {old_size} chunk {old_cs} -> new size {new_size} chunk {new_cs}"
    import io as _io
    import contextlib
    try:
        with contextlib.redirect_stderr(_io.StringIO()):
            dyadic_pyramid.compute_dyadic_downscaling(info, 0, ds, io, io)
    except Exception as ex:
        return {"reproduced": False, "detail": f"{desc}: raised {type(ex).__name__} (an error is acceptable)"}
    factors = [1 if o == n else 2 for o, n in zip(old_size, new_size)]
    exp = ds.downscale(lvl, factors)
    for cc in cells(new_size, new_cs):
        try:
            got = io.read_chunk("new", cc)
        except Exception as ex:
            return {"reproduced": True, "detail": f"{desc}: new chunk {cc} unreadable ({ex!r})"}
        if not np.array_equal(got, exp[:, cc[4]:cc[5], cc[2]:cc[3], cc[0]:cc[1]]):
            return {"reproduced": True, "detail": f"{desc}: new chunk {cc} differs from downscaling the whole level (silent wrong data)"}
    return {"reproduced": False, "detail": f"{desc}: pyramid level equals whole-level downscaling"}


@register
class ComputeDyadicDownscalingAbs(Contract):
    """call-site contract (body verified above): records the call"""
    target = DP + "compute_dyadic_downscaling"
    name = "compute_dyadic_downscaling[call-site]"
    props = ()

    def setup(self, c, cfg):
        raise NotImplementedError

    def apply(self, interp, fn, args, kwargs):
        b = self.bind(fn, args, kwargs)
        interp.heap_write()
        ctx().calls_log.append((self.target, b, None))
        return None


@register
class ShardedAccessorCloseAbs(Contract):
    target = "neuroglancer_scripts.sharded_file_accessor.ShardedFileAccessor.close"
    name = "ShardedFileAccessor.close[call-site]"
    props = ()
    has_body = False

    def setup(self, c, cfg):
        raise NotImplementedError

    def apply(self, interp, fn, args, kwargs):
        interp.heap_write()
        ctx().calls_log.append((self.target, {"self": args[0]}, None))
        return None


@register
class ComputeDyadicScales(Contract):
    """level-by-level driver: every transition i -> i+1 is computed once, in increasing order, reading
    and writing through the same handle; a sharded file accessor is closed (flushed) after each level
    so that the next level can read it (C05: data is readable only after close)."""
    target = DP + "compute_dyadic_scales"
    props = ("C06",)
    use_at_call_sites = False
    configs = ((1, "plain"), (2, "plain"), (4, "plain"), (4, "sharded"), (2, "sharded"))

    def setup(self, c, cfg):
        n, kind = cfg
        info = mk_info(c, nscales=n)
        self.io = mk_io(c, info)
        if kind == "sharded":
            from neuroglancer_scripts.sharded_file_accessor import ShardedFileAccessor
            self.io.attrs["accessor"] = SObj(ShardedFileAccessor)
        self.ds = SObj(__import__("neuroglancer_scripts.downscaling", fromlist=["Downscaler"]).Downscaler)
        self.cfg = cfg
        return (self.io, self.ds), {}

    def bind(self, fn, args, kwargs):
        return {}

    def ensures(self, c, result):
        n, kind = self.cfg
        calls = [(t, b) for (t, b, r) in c.calls_log]
        comp = [b for (t, b) in calls if t.endswith("compute_dyadic_downscaling")]
        out = [("one-call-per-transition", len(comp) == n - 1)]
        out.append(("transitions-in-increasing-order", [b["source_scale_index"] for b in comp] == list(range(n - 1))))
        out.append(("reads-and-writes-through-the-same-dataset",
                    all(b["chunk_reader"] is self.io and b["chunk_writer"] is self.io and b["downscaler"] is self.ds
                        and b["info"] is self.io.attrs["_info"] for b in comp)))
        if kind == "sharded":
            seq = ["D" if t.endswith("compute_dyadic_downscaling") else "C" for (t, b) in calls]
            out.append(("sharded-accessor-closed-after-every-level", seq == ["D", "C"] * (n - 1)))
        return out


@register
class ComputeDyadicDownscalingUnsupportedFactor(Contract):
    """a pair of scales whose size ratio is neither 1 nor 2 (rounded up) along ONE axis -- whatever the other
    axes look like -- is refused with ValueError before anything is read or written"""
    target = DP + "compute_dyadic_downscaling"
    name = "compute_dyadic_downscaling[unsupported factor on one axis]"
    props = ("C06",)
    use_at_call_sites = False
    configs = tuple((bad, other) for bad in range(3) for other in (1, 2))

    def setup(self, c, cfg):
        from neuroglancer_scripts.downscaling import Downscaler
        bad, other = cfg
        nch = c.int("num_channels", inp=True)
        c.assume(nch >= 1)
        old_size = [c.int(f"old_size{i}", inp=True) for i in range(3)]
        new_size = []
        for i, s in enumerate(old_size):
            c.assume(s >= 1)
            ns = c.int(f"new_size{i}", inp=True)
            c.assume(ns >= 1)
            if i == bad:
                c.assume(And(ns != s, 2 * ns != s, 2 * ns != s + 1))          # neither s nor ceil(s/2)
            elif other == 1:
                c.assume(ns == s)
            else:
                c.assume(And(Or(s == 2 * ns, s + 1 == 2 * ns), ns != s))
            new_size.append(ns)
        cs = [c.int(f"cs{i}", inp=True) for i in range(3)]
        for v in cs:
            c.assume(v >= 1)
        self.info = {"type": "image", "data_type": "uint16", "num_channels": nch, "scales": [
            {"key": "old", "size": old_size, "chunk_sizes": [[2 * v for v in cs]], "voxel_offset": [0, 0, 0], "encoding": "raw"},
            {"key": "new", "size": new_size, "chunk_sizes": [cs], "voxel_offset": [0, 0, 0], "encoding": "raw"}]}
        self.io = mk_io(c, self.info)
        return (self.info, 0, SObj(Downscaler), self.io, self.io), {}

    def bind(self, fn, args, kwargs):
        return {}

    def ensures(self, c, result):
        yield ("an-unsupported-factor-is-never-accepted", False)

    def check_raise(self, c, exc, b, cfg):
        c.prove(f"refused-with-ValueError:{type(exc).__name__}", isinstance(exc, ValueError), kind="exc")
        c.prove("nothing-written-before-the-refusal", len(self.io.ghost["written"]) == 0, kind="exc")
