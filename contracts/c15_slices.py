"""C15 -- slice stacks are assembled with the requested anatomical orientation
(scripts/slices_to_precomputed.py, utils.permute / invert_permutation)."""
import itertools

import numpy as np
import z3

from pyvc import core
from pyvc.arrays import SArr
from pyvc.core import And, Not, Or, RaiseSig, SBool, SInt, SObj, Unsupported, ctx, implies, ite
from pyvc.interp import model
from pyvc.symseq import SymSeq
from pyvc.verify import Contract, Lemma, register

from .c03_io import mk_info
from .shared_abs import mk_io
from .shared_grid import ceil_div_term, grid_coverage

S2P = "neuroglancer_scripts.scripts.slices_to_precomputed."

# The statement's reading of an orientation code (independent of the tables in the code):
# letter k says where input axis k (0 column, 1 row, 2 slice number) points to.
SPEC_AXIS = {"R": 0, "L": 0, "A": 1, "P": 1, "S": 2, "I": 2}       # RAS+ axis the letter lies on
SPEC_POSITIVE = {"R": True, "A": True, "S": True, "L": False, "P": False, "I": False}
CODES = ["".join(l) for t in itertools.product("LR", "AP", "IS") for l in itertools.permutations(t)]


class SymFile:
    """the k-th file of a slice directory"""
    _pyvc_symbolic = True
    _pyvc_strlike = True

    def __init__(self, stack, index):
        self.stack = stack
        self.index = index


import skimage.io as _skio  # noqa: E402


@model(_skio.imread)
def m_imread(interp, f, *a, **k):
    c = ctx()
    if not isinstance(f, SymFile):
        raise Unsupported("skimage.io.imread of a non-symbolic file")
    g = c.ghost["slices"]
    c.trust("skimage.io.imread: a (rows, columns[, channels]) array per slice file (all slices of a stack have the same shape)")
    P = g["pix"][f.stack]
    idx = f.index
    if g["img_channels"] is None:
        return SArr.from_fn(lambda r, q: SInt(P(core._i(idx), core._i(r), core._i(q), 0)), (g["rows"], g["cols"]), g["dtype"])
    return SArr.from_fn(lambda r, q, ch: SInt(P(core._i(idx), core._i(r), core._i(q), core._i(ch))),
                        (g["rows"], g["cols"], g["img_channels"]), g["dtype"])


@model(_skio.concatenate_images)
def m_concatenate_images(interp, ic):
    c = ctx()
    if not isinstance(ic, SymSeq):
        raise Unsupported("skimage.io.concatenate_images of a non-symbolic collection")
    n = ic.len
    if interp.truth(n == 0):
        raise RaiseSig(ValueError("need at least one array to concatenate"))
    c.trust("skimage.io.concatenate_images: stacks the images along a new first axis, in iteration order")
    probe = ic.item(c.int("probe_slice"))
    if not isinstance(probe, SArr):
        raise Unsupported("concatenate_images: items are not images")
    shape = (n,) + tuple(probe.shape)
    return SArr.from_fn(lambda s, *rest: ic.item(s).elem(*rest), shape, probe.dtype)


@register
class GetAccessorForUrlAbs(Contract):
    target = "neuroglancer_scripts.accessor.get_accessor_for_url"
    name = "get_accessor_for_url[call-site]"
    props = ()

    def setup(self, c, cfg):
        raise NotImplementedError

    def apply(self, interp, fn, args, kwargs):
        c = ctx()
        b = self.bind(fn, args, kwargs)
        c.calls_log.append((self.target, b, None))
        acc = c.ghost.get("accessor_for_url")
        if acc is None:
            from neuroglancer_scripts.accessor import Accessor
            acc = SObj(Accessor)
        return acc(b) if callable(acc) else acc


@register
class GetIOExistingAbs(Contract):
    target = "neuroglancer_scripts.precomputed_io.get_IO_for_existing_dataset"
    name = "get_IO_for_existing_dataset[call-site]"
    props = ()

    def setup(self, c, cfg):
        raise NotImplementedError

    def apply(self, interp, fn, args, kwargs):
        c = ctx()
        b = self.bind(fn, args, kwargs)
        c.calls_log.append((self.target, b, None))
        io = c.ghost.get("io_for_accessor")
        if io is None:
            raise Unsupported("get_IO_for_existing_dataset: no dataset provided by the harness")
        return io(b) if callable(io) else io


def _cfgs():
    out = [(code, 1, None) for code in CODES]
    out += [("RAS", 2, None), ("LPI", 2, None), ("PIR", 1, 3), ("SLA", 1, 3)]
    return tuple(out)


@register
class SlicesToRawChunks(Contract):
    """configs: (orientation code, number of slice directories, channels per image or None for grey)"""
    target = S2P + "slices_to_raw_chunks"
    props = ("C15",)
    use_at_call_sites = False
    configs = _cfgs()
    timeout_ms = 40000

    def setup(self, c, cfg):
        code, ndirs, imgch = cfg
        self.cfg = cfg
        self.info = mk_info(c, n_chunk_sizes=1, data_type="uint8")
        nch_total = ndirs * (imgch or 1)
        c.assume(self.info["num_channels"] == nch_total)
        self.info["num_channels"] = nch_total
        self.io = mk_io(c, self.info)
        size = self.info["scales"][0]["size"]
        # input sizes (column, row, slice) from the statement's reading of the code
        in_size = [size[SPEC_AXIS[L]] for L in code]
        pix = [z3.Function(f"Pix{k}", *([z3.IntSort()] * 4), z3.IntSort()) for k in range(ndirs)]
        c.ghost["slices"] = {"rows": in_size[1], "cols": in_size[0], "img_channels": imgch, "dtype": np.dtype("uint8"), "pix": pix}
        c.ghost["io_for_accessor"] = self.io
        self.pix = pix
        self.in_size = in_size
        lists = [SymSeq(in_size[2], (lambda k: (lambda i: SymFile(k, i)))(k)) for k in range(ndirs)]
        return (lists, "dest", code), {"options": {}}

    def bind(self, fn, args, kwargs):
        return {}

    def ensures(self, c, result):
        code, ndirs, imgch = self.cfg
        w = self.io.ghost["written"]
        yield ("one-write-per-iteration", len(w) == 1)
        if len(w) != 1:
            return
        key, cc, chunk, lvs, lrs = w[0]
        si = self.info["scales"][0]
        yield ("written-to-scale-0", key == si["key"])
        yield ("every-grid-cell-written-exactly-once(whatever the number of slices)",
               grid_coverage(c, w[0], si["size"], si["chunk_sizes"][0]))
        idx, inb = chunk.forall(None)
        c.assume(inb)
        ch, z, y, x = idx
        out_pos = (cc[0] + x, cc[2] + y, cc[4] + z)
        size = si["size"]
        inp = []
        for L in code:
            a = SPEC_AXIS[L]
            inp.append(out_pos[a] if SPEC_POSITIVE[L] else size[a] - 1 - out_pos[a])
        col, row, slc = inp
        per = imgch or 1
        # channels are kept in order: directory k contributes channels k*per .. k*per+per-1
        exp = None
        for k in range(ndirs - 1, -1, -1):
            v = SInt(self.pix[k](core._i(slc), core._i(row), core._i(col), core._i(ch - k * per)))
            exp = v if exp is None else ite(ch < (k + 1) * per, v, exp)
        yield ("voxel(x,y,z)==pixel-designated-by-the-orientation-code,channels-in-order", chunk.elem(*idx) == exp)
        yield ("chunk-dtype", chunk.dtype == np.dtype("uint8"))

    def raises_when(self, c):
        return []

    def replay(self, model, cfg, ob_name):
        return native_slices_check(model, cfg)

    bounded_bound = "sizes <= 4 per axis, chunk sizes in {1,2,3}, all 48 codes of this configuration"

    def bounded_models(self, cfg, tier):
        for size in itertools.product((1, 2, 3), repeat=3):
            for cs in ((1, 1, 1), (2, 2, 2), (2, 1, 3)):
                yield {f"size0_{i}": size[i] for i in range(3)} | {f"cs0_0_{i}": cs[i] for i in range(3)}


def native_slices_check(model, cfg):
    """run the real slices_to_raw_chunks on PNG slices in a temp dir and compare with the statement"""
    import contextlib
    import io as _io
    import pathlib
    import tempfile
    import json
    import skimage.io
    from neuroglancer_scripts.scripts import slices_to_precomputed
    from neuroglancer_scripts import accessor as accmod, precomputed_io
    code, ndirs, imgch = cfg
    g = lambda n, d=1: min(max(d, model.get(n, d)), 5) if isinstance(model.get(n, d), int) else d
    size = [g(f"size0_{i}") for i in range(3)]
    cs = [g(f"cs0_0_{i}") for i in range(3)]
    per = imgch or 1
    nch = ndirs * per
    in_size = [size[SPEC_AXIS[L]] for L in code]
    rng = np.random.default_rng(7)
    stacks = [rng.integers(0, 255, size=(in_size[2], in_size[1], in_size[0]) + ((imgch,) if imgch else ())).astype("uint8")
              for _ in range(ndirs)]
    desc = f"code {code} size {size} chunk {cs} dirs {ndirs} image-channels {imgch}"
    with tempfile.TemporaryDirectory() as td:
        td = pathlib.Path(td)
        lists = []
        for k, st in enumerate(stacks):
            d = td / f"in{k}"
            d.mkdir()
            names = []
            for s in range(in_size[2]):
                fn = d / f"s{s:04d}.png"
                skimage.io.imsave(str(fn), st[s], check_contrast=False)
                names.append(fn)
            lists.append(names)
        dest = td / "out"
        dest.mkdir()
        info = {"type": "image", "data_type": "uint8", "num_channels": nch, "scales": [
            {"key": "k0", "size": size, "chunk_sizes": [cs], "voxel_offset": [0, 0, 0], "encoding": "raw", "resolution": [1, 1, 1]}]}
        (dest / "info").write_text(json.dumps(info))
        try:
            with contextlib.redirect_stderr(_io.StringIO()), contextlib.redirect_stdout(_io.StringIO()):
                slices_to_precomputed.slices_to_raw_chunks(lists, str(dest), code, options={"gzip": False, "flat": True})
        except Exception as e:
            return {"reproduced": True, "detail": f"{desc}: raised {e!r}"}
        io = precomputed_io.get_IO_for_existing_dataset(accmod.get_accessor_for_url(str(dest)))
        for x0 in range(0, size[0], cs[0]):
            for y0 in range(0, size[1], cs[1]):
                for z0 in range(0, size[2], cs[2]):
                    cc = (x0, min(x0 + cs[0], size[0]), y0, min(y0 + cs[1], size[1]), z0, min(z0 + cs[2], size[2]))
                    try:
                        chunk = io.read_chunk("k0", cc)
                    except Exception as e:
                        return {"reproduced": True, "detail": f"{desc}: chunk {cc} missing/unreadable ({e!r})"}
                    for (c_, z, y, x), v in np.ndenumerate(chunk):
                        pos = (x0 + x, y0 + y, z0 + z)
                        inp = [pos[SPEC_AXIS[L]] if SPEC_POSITIVE[L] else size[SPEC_AXIS[L]] - 1 - pos[SPEC_AXIS[L]] for L in code]
                        st = stacks[c_ // per]
                        e = st[inp[2], inp[1], inp[0]] if not imgch else st[inp[2], inp[1], inp[0], c_ % per]
                        if v != e:
                            return {"reproduced": True, "detail": f"{desc}: voxel {pos} channel {c_} is {v}, the code designates input pixel (col,row,slice)={tuple(inp)} = {e}"}
    return {"reproduced": False, "detail": f"{desc}: ok"}


@register
class Permute(Contract):
    target = "neuroglancer_scripts.utils.permute"
    props = ("C15",)
    use_at_call_sites = False
    configs = tuple(itertools.permutations(range(3)))

    def setup(self, c, cfg):
        self.seq = [c.int(f"s{i}", inp=True) for i in range(3)]
        return (self.seq, cfg), {}

    def bind(self, fn, args, kwargs):
        return {}

    def ensures(self, c, result, cfg=None):
        ok = isinstance(result, tuple) and len(result) == 3
        return [("tuple-of-len(p)", ok)] + ([(f"r[{i}]==seq[p[{i}]]", result[i] is self.seq[self._p[i]]) for i in range(3)] if ok else [])

    def check_return(self, c, result, b, cfg):
        self._p = cfg
        super().check_return(c, result, b, cfg)


@register
class InvertPermutation(Lemma):
    """native (p concrete): s[p[i]] == i for every permutation of 0..2 and 0..3"""
    name = "utils.invert_permutation[all permutations of length 3 and 4]"
    props = ("C15",)

    def run(self, c, cfg):
        from neuroglancer_scripts.utils import invert_permutation
        for n in (3, 4):
            for p in itertools.permutations(range(n)):
                s = invert_permutation(p)
                c.prove(f"inverse{p}", all(int(s[p[i]]) == i for i in range(n)) and len(s) == n)
