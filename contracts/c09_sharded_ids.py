"""C09 -- chunk identifiers and shard routing (sharded_base.py).

Spec functions here are written from the Neuroglancer documents only:
  * precomputed/volume.md  "compressed Morton code"  (algorithm with `2**i < grid_size[dim]`)
  * precomputed/sharded.md  shard / minishard number from hash(id >> preshift_bits)
"""
import z3

from pyvc import core
from pyvc.core import SBool, SInt, SObj, SU64, And, Or, Not, implies, ite, ctx
from pyvc.interp import UnrollLoop, SymStr
from pyvc.models_py import SHexStr
from pyvc.verify import Contract, Lemma, register

from ._common import ALL1, BV64, low, lshr_sat, shl_sat, mk_shard_spec, spec_minishard_number, spec_shard_number

SB = "neuroglancer_scripts.sharded_base."


# ------------------------------------------------------------------ masks

class _MaskBase(Contract):
    props = ("C09", "C04", "C05")
    configs = ("fresh", "cached")
    field = None

    def setup(self, c, cfg):
        self.spec = mk_shard_spec(c, cached=(cfg == "cached"))
        return (self.spec,), {}

    def bind(self, fn, args, kwargs):
        return {"self_": args[0]}

    def expected(self, s):
        raise NotImplementedError

    def ensures(self, c, result, self_):
        out = [("mask-equals-spec", SBool(result.t == self.expected(self_)))] if isinstance(result, SU64) else \
              [("mask-is-uint64", False)]
        return out

    def fresh_result(self, c, self_):
        return c.u64("mask")

    def replay(self, model, cfg, ob_name):
        import numpy as np
        from neuroglancer_scripts.sharded_base import ShardSpec
        mb, sb, pb = (model.get(k, 0) for k in ("minishard_bits", "shard_bits", "preshift_bits"))
        s = ShardSpec(mb, sb, preshift_bits=pb)
        got = int(getattr(s, self.field))
        lowm = lambda n: (1 << min(n, 64)) - 1
        exp = {"minishard_mask": lowm(mb), "preshift_mask": lowm(pb),
               "shard_mask": lowm(mb + sb) & ~lowm(mb) & ((1 << 64) - 1)}[self.field]
        return {"reproduced": got != exp, "detail": f"{self.field} bits=({mb},{sb},{pb}) got {got:#x} expected {exp:#x}"}


@register
class MinishardMask(_MaskBase):
    target = SB + "ShardSpec.minishard_mask"
    field = "minishard_mask"

    def expected(self, s):
        return low(s.attrs["minishard_bits"].t)


@register
class PreshiftMask(_MaskBase):
    target = SB + "ShardSpec.preshift_mask"
    field = "preshift_mask"

    def expected(self, s):
        return low(s.attrs["preshift_bits"].t)


@register
class ShardMask(_MaskBase):
    target = SB + "ShardSpec.shard_mask"
    field = "shard_mask"

    def expected(self, s):
        mb, sb = s.attrs["minishard_bits"].t, s.attrs["shard_bits"].t
        return low(mb + sb) & ~low(mb)


# ------------------------------------------------------------------ ShardSpec.__init__

@register
class ShardSpecInit(Contract):
    target = SB + "ShardSpec.__init__"
    props = ("C09",)
    use_at_call_sites = False
    configs = (("identity", "raw", "raw"), ("identity", "gzip", "raw"), ("identity", "raw", "gzip"),
               ("murmurhash3_x86_128", "raw", "raw"), ("identity", "zlib", "raw"), ("identity", "raw", "bz2"))

    def setup(self, c, cfg):
        from neuroglancer_scripts.sharded_base import ShardSpec
        self.obj = SObj(ShardSpec)
        mb, sb, pb = (c.int(n, inp=True) for n in ("minishard_bits", "shard_bits", "preshift_bits"))
        for v in (mb, sb, pb):
            c.assume(v < (1 << 32))
        self.cfg = cfg
        return (self.obj, mb, sb), {"hash": cfg[0], "minishard_index_encoding": cfg[1], "data_encoding": cfg[2],
                                    "preshift_bits": pb}

    def bind(self, fn, args, kwargs):
        return {"mb": args[1], "sb": args[2], "pb": kwargs["preshift_bits"]}

    def _valid(self, mb, sb, pb):
        h, ie, de = self.cfg
        return And(mb >= 0, sb >= 0, pb >= 0, h == "identity", ie in ("gzip", "raw"), de in ("gzip", "raw"))

    def ensures(self, c, result, mb, sb, pb):
        a = self.obj.attrs
        ok = [("accepts-only-valid", self._valid(mb, sb, pb))]
        for name, v in (("minishard_bits", mb), ("shard_bits", sb), ("preshift_bits", pb)):
            f = a.get(name)
            ok.append((f"field-{name}", SBool(z3.BV2Int(f.t, False) == v.t) if isinstance(f, SU64) else False))
        ok.append(("masks-unset", all(a.get(k, 0) is None for k in ("_shard_mask", "_minishard_mask", "_preshift_mask"))))
        return ok

    def raises_when(self, c, mb, sb, pb):
        from neuroglancer_scripts.sharded_base import ShardedIOError
        return [(ShardedIOError, Not(self._valid(mb, sb, pb)))]


# ------------------------------------------------------------------ routing keys

class _KeyBase(Contract):
    props = ("C09", "C04", "C05")

    def setup(self, c, cfg):
        from neuroglancer_scripts.sharded_base import CMCReadWrite
        spec = mk_shard_spec(c)
        cmc = c.u64("cmc", inp=True)
        return (SObj(CMCReadWrite, {"shard_spec": spec}), cmc), {}

    def bind(self, fn, args, kwargs):
        return {"self_": args[0], "cmc": args[1]}

    def fresh_result(self, c, self_, cmc):
        return c.u64("key")

    def _mk(self, model):
        import numpy as np
        from neuroglancer_scripts.sharded_base import CMCReadWrite, ShardSpec
        mb, sb, pb = (model.get(k, 0) for k in ("minishard_bits", "shard_bits", "preshift_bits"))

        class K(CMCReadWrite):
            pass
        return K(ShardSpec(mb, sb, preshift_bits=pb)), np.uint64(model.get("cmc", 0)), (mb, sb, pb)


@register
class GetShardKey(_KeyBase):
    target = SB + "CMCReadWrite.get_shard_key"

    def ensures(self, c, result, self_, cmc):
        if not isinstance(cmc, SU64):
            cmc = SU64(core._u64(cmc))
        spec = self_.attrs["shard_spec"]
        return [("shard-number-equals-spec", SBool(result.t == spec_shard_number(spec, cmc))),
                ("shard-number-below-2^shard_bits",
                 SBool(z3.Or(z3.UGE(spec.attrs["shard_bits"].t, BV64(64)),
                             z3.ULT(result.t, BV64(1) << spec.attrs["shard_bits"].t))))]

    def replay(self, model, cfg, ob_name):
        o, cmc, (mb, sb, pb) = self._mk(model)
        got = int(o.get_shard_key(cmc))
        h = int(cmc) >> pb
        exp = (h >> mb) & ((1 << min(sb, 64)) - 1)
        return {"reproduced": got != exp, "detail": f"get_shard_key bits=({mb},{sb},{pb}) cmc={int(cmc)} got {got} expected {exp}"}


@register
class GetMinishardKey(_KeyBase):
    target = SB + "CMCReadWrite.get_minishard_key"

    def ensures(self, c, result, self_, cmc):
        if not isinstance(cmc, SU64):
            cmc = SU64(core._u64(cmc))
        spec = self_.attrs["shard_spec"]
        return [("minishard-number-equals-spec", SBool(result.t == spec_minishard_number(spec, cmc)))]

    def replay(self, model, cfg, ob_name):
        o, cmc, (mb, sb, pb) = self._mk(model)
        got = int(o.get_minishard_key(cmc))
        exp = (int(cmc) >> pb) & ((1 << min(mb, 64)) - 1)
        return {"reproduced": got != exp, "detail": f"get_minishard_key bits=({mb},{sb},{pb}) cmc={int(cmc)} got {got} expected {exp}"}


# ------------------------------------------------------------------ shard file name

@register
class ShardCMCFileExists(Contract):
    """abstract method: assumed to answer some boolean (the environment)"""
    target = SB + "ShardCMC.file_exists"
    props = ()
    has_body = False

    def bind(self, fn, args, kwargs):
        return {}

    def fresh_result(self, c):
        return c.bool("file_exists")


@register
class ShardCMCInit(Contract):
    target = SB + "ShardCMC.__init__"
    props = ("C09", "C04")
    use_at_call_sites = False

    def setup(self, c, cfg):
        from neuroglancer_scripts.sharded_base import ShardCMC
        self.spec = mk_shard_spec(c, bits_bound=1 << 32)
        self.key = c.u64("shard_key", inp=True)
        self.obj = SObj(ShardCMC)
        return (self.obj, self.key, self.spec), {}

    def bind(self, fn, args, kwargs):
        return {}

    def ensures(self, c, result):
        s = self.obj.attrs.get("shard_key_str")
        sb = SInt(z3.BV2Int(self.spec.attrs["shard_bits"].t, False))
        if not (isinstance(s, SHexStr) and s.stage == "padded" and s.v is self.key):
            return [("name-is-zero-padded-lowercase-hex-of-shard-number", False)]
        q, r = c.divmod(sb, 4)
        width = ite(r == 0, q, q + 1)
        out = [("name-is-zero-padded-lowercase-hex-of-shard-number", True),
               ("pad-width-is-ceil(shard_bits/4)", s.width == width)]
        a = self.obj.attrs
        rd = a.get("can_read_cmc")
        out.append(("readable-flag-boolean", isinstance(rd, (bool, SBool))))
        out.append(("dicts-empty", a.get("minishard_dict") == {} and a.get("ro_minishard_dict") == {}))
        return out

    bounded_bound = "shard_bits 0..64, shard keys {0, 1, 2^k-1, 2^(bits-1)}"

    def bounded_models(self, cfg, tier):
        for sb in range(0, 65):
            for key in {0, 1, (1 << sb) - 1 if sb else 0, 1 << max(sb - 1, 0), 5}:
                if key < (1 << 64) and (sb == 0 and key == 0 or key < (1 << max(sb, 1))):
                    yield {"minishard_bits": 2, "shard_bits": sb, "preshift_bits": 1, "shard_key": key}

    def replay(self, model, cfg, ob_name):
        import math
        import numpy as np
        from neuroglancer_scripts.sharded_base import ShardCMC, ShardSpec
        mb, sb, pb = (model.get(k, 0) for k in ("minishard_bits", "shard_bits", "preshift_bits"))
        key = model.get("shard_key", 0)

        class S(ShardCMC):
            def file_exists(self, p):
                return False
        o = S(np.uint64(key), ShardSpec(mb, sb, preshift_bits=pb))
        exp = format(key, "x").rjust(-(-sb // 4), "0")
        return {"reproduced": o.shard_key_str != exp, "detail": f"shard_bits={sb} key={key}: got {o.shard_key_str!r} expected {exp!r}"}


# ------------------------------------------------------------------ compressed Morton code

def cmc_spec_bv(G, X, NB):
    """compressed Morton code (volume.md algorithm) over BV64 grid sizes G[3], coordinates X[3];
    returns (code, j_total) as BV64 terms. Iterating i up to NB is the algorithm's 'number of
    bits needed' as long as every G[d] <= 2^NB (then `2**i < grid_size` is false for i >= NB)."""
    j = BV64(0)
    code = BV64(0)
    for i in range(NB):
        for d in range(3):
            cond = z3.ULT(BV64(1 << i), G[d])
            bit = shl_sat(z3.LShR(X[d], BV64(i)) & BV64(1), j)
            code = z3.If(cond, code | bit, code)
            j = z3.If(cond, j + BV64(1), j)
    return code, j


def cmc_decode_bv(G, code, NB):
    j = BV64(0)
    X = [BV64(0), BV64(0), BV64(0)]
    for i in range(NB):
        for d in range(3):
            cond = z3.ULT(BV64(1 << i), G[d])
            b = lshr_sat(code, j) & BV64(1)
            X[d] = z3.If(cond, X[d] | (b << BV64(i)), X[d])
            j = z3.If(cond, j + BV64(1), j)
    return X


def _nb_quick():
    return 16


def _nb_thorough():
    return 21


class _VolSpecMixin:
    def mk_volspec(self, c, NB, bv_coords=True):
        """ShardVolumeSpec object satisfying the class invariant established by __init__
        (grid_sizes >= 1, num_bits[d] == number of i with 2^i < grid_sizes[d], sum <= 64)."""
        from neuroglancer_scripts.sharded_base import ShardVolumeSpec
        G = [z3.BitVec(f"grid{d}", 64) for d in range(3)]
        for d in range(3):
            c.inputs[f"grid{d}"] = G[d]
            c.assume(z3.And(z3.UGE(G[d], BV64(1)), z3.ULE(G[d], BV64(1 << NB))))
        gs = [SInt(z3.BV2Int(G[d], False)) for d in range(3)]
        nbs = []
        for d in range(3):
            nb = z3.Sum([z3.If(z3.ULT(BV64(1 << i), G[d]), 1, 0) for i in range(NB)])
            nbs.append(SInt(nb))
        c.assume(nbs[0].t + nbs[1].t + nbs[2].t <= 64)
        cs = c.int("chunk_size", inp=True)
        c.assume(cs.t >= 1)
        obj = SObj(ShardVolumeSpec, {"grid_sizes": gs, "num_bits": nbs, "chunk_sizes": [cs, cs, cs]})
        self.G = G
        return obj


@register
class CompressedMortonCode(Contract, _VolSpecMixin):
    target = SB + "ShardVolumeSpec.compressed_morton_code"
    props = ("C09",)
    path_budget = 400
    timeout_ms = 240000

    def configs_for(self, tier):
        nb = _nb_thorough() if tier == "thorough" else _nb_quick()
        return [("code", nb), ("reject", nb), ("nonint", 4)]

    def loop_specs_for(self, cfg):
        return [UnrollLoop("compressed_morton_code", "in range(max(self.num_bits))", cfg[1])]

    def setup(self, c, cfg):
        mode, NB = cfg
        self._nb = NB
        self.mode = mode
        obj = self.mk_volspec(c, NB)
        if mode == "code":
            X = [z3.BitVec(f"coord{d}", 64) for d in range(3)]
            for d in range(3):
                c.inputs[f"coord{d}"] = X[d]
                # hint (valid fact: BV2Int is an order isomorphism)
                c.assume((z3.BV2Int(X[d], False) <= z3.BV2Int(self.G[d], False)) == z3.ULE(X[d], self.G[d]))
                c.assume((z3.BV2Int(X[d], False) < z3.BV2Int(self.G[d], False)) == z3.ULT(X[d], self.G[d]))
            c.trust("lemma: BV2Int is monotone (x <= g <=> ULE(X,G)) -- given to the solver as a hint")
            for d in range(3):
                for i in range(NB + 1):
                    # hint, proved separately by lemma:bv2int-link
                    c.assume((z3.IntVal(1 << i) < z3.BV2Int(self.G[d], False)) == z3.ULT(BV64(1 << i), self.G[d]))
            self.X = X
            coords = [SInt(z3.BV2Int(X[d], False)) for d in range(3)]
        elif mode == "reject":
            coords = [c.int(f"coord{d}", inp=True) for d in range(3)]
            self.X = None
        else:
            coords = [c.int("coord0", inp=True), 1.0, c.int("coord2", inp=True)]
            self.X = None
        self.coords = coords
        return (obj, coords), {}

    def bind(self, fn, args, kwargs):
        return {"self_": args[0], "grid_coords": args[1]}

    def in_grid(self, self_, grid_coords):
        if not all(isinstance(g, (SInt, int)) and not isinstance(g, bool) for g in grid_coords):
            return False
        return And(*[And(g >= 0, g < s) for g, s in zip(grid_coords, self_.attrs["grid_sizes"])])

    def ensures(self, c, result, self_, grid_coords):
        out = [("returns-only-for-positions-inside-the-grid", self.in_grid(self_, grid_coords))]
        if self.mode == "code" and isinstance(result, SU64):
            code, j = cmc_spec_bv(self.G, self.X, self._nb)
            out.append(("code-equals-compressed-morton-spec", SBool(result.t == code)))
        return out

    def raises_when(self, c, self_, grid_coords):
        from neuroglancer_scripts.sharded_base import ShardedIOError
        return [(ShardedIOError, Not(self.in_grid(self_, grid_coords)))]

    # call sites: abstract function CMC(grid, coords)
    def fresh_result(self, c, self_, grid_coords):
        return c.u64("cmc")

    def apply(self, interp, fn, args, kwargs):
        c = ctx()
        b = self.bind(fn, args, kwargs)
        from neuroglancer_scripts.sharded_base import ShardedIOError
        ing = self.in_grid(b["self_"], b["grid_coords"])
        if not interp.truth(ing):
            raise core.RaiseSig(ShardedIOError())
        F = z3.Function("CMC", *([z3.IntSort()] * 6), z3.BitVecSort(64))
        gs = b["self_"].attrs["grid_sizes"]
        r = SU64(F(*[core._i(v) for v in list(gs) + list(b["grid_coords"])]))
        c.calls_log.append((self.target, b, r))
        return r

    def replay(self, model, cfg, ob_name):
        from neuroglancer_scripts.sharded_base import ShardVolumeSpec, ShardedIOError
        g = [max(1, model.get(f"grid{d}", 1)) for d in range(3)]
        x = [model.get(f"coord{d}", 0) for d in range(3)]
        if self.mode == "nonint":
            x[1] = 1.0
        vs = ShardVolumeSpec([1, 1, 1], g)
        try:
            got = int(vs.compressed_morton_code(x))
        except ShardedIOError:
            got = "ShardedIOError"
        exp = spec_cmc_py(g, x)
        return {"reproduced": got != exp, "detail": f"grid={g} coords={x}: got {got} expected {exp}"}


def spec_cmc_py(grid, coords):
    """volume.md algorithm on python ints; 'ShardedIOError' for positions outside the grid"""
    if not all(isinstance(c, int) and not isinstance(c, bool) and 0 <= c < g for c, g in zip(coords, grid)):
        return "ShardedIOError"
    j = 0
    code = 0
    n = max((g - 1).bit_length() for g in grid)
    for i in range(n):
        for d in range(3):
            if 2 ** i < grid[d]:
                code |= ((coords[d] >> i) & 1) << j
                j += 1
    return code


@register
class CmcSpecBijective(Lemma):
    """Property lemma over the spec function: distinct positions get distinct identifiers
    (decode(code(x)) == x) below 2^(total bits)."""
    props = ("C09",)
    name = "lemma:cmc-spec-injective-and-bounded"
    timeout_ms = 600000

    def configs_for(self, tier):
        return [_nb_thorough() if tier == "thorough" else 9]

    def run(self, c, NB):
        G = [z3.BitVec(f"grid{d}", 64) for d in range(3)]
        X = [z3.BitVec(f"coord{d}", 64) for d in range(3)]
        for d in range(3):
            c.inputs[f"grid{d}"] = G[d]
            c.inputs[f"coord{d}"] = X[d]
            c.assume(z3.And(z3.UGE(G[d], BV64(1)), z3.ULE(G[d], BV64(1 << NB)), z3.ULT(X[d], G[d])))
        code, j = cmc_spec_bv(G, X, NB)
        c.assume(z3.ULE(j, BV64(64)))
        dec = cmc_decode_bv(G, code, NB)
        c.prove("decode(code(x))==x (injective)", SBool(z3.And(*[dec[d] == X[d] for d in range(3)])))
        c.prove("code<2^total_bits", SBool(z3.Or(j == BV64(64), z3.ULT(code, BV64(1) << j))))

    def replay(self, model, cfg, ob_name):
        g = [max(1, model.get(f"grid{d}", 1)) for d in range(3)]
        x = [model.get(f"coord{d}", 0) for d in range(3)]
        return {"reproduced": False, "detail": f"spec-level lemma refuted at grid={g} coords={x} (no code involved)"}


# ------------------------------------------------------------------ ShardVolumeSpec.__init__

@register
class ShardVolumeSpecInit(Contract):
    target = SB + "ShardVolumeSpec.__init__"
    props = ("C09",)
    use_at_call_sites = False
    configs = ("symbolic", "sizes-none", "sizes-len2", "sizes-float", "cs-float", "cs-len4", "cs-empty")

    def setup(self, c, cfg):
        from neuroglancer_scripts.sharded_base import ShardVolumeSpec
        self.obj = SObj(ShardVolumeSpec)
        self.cfg = cfg
        sizes = [c.int(f"size{d}", inp=True) for d in range(3)]
        cs = [c.int(f"cs{d}", inp=True) for d in range(3)]
        for v in sizes + cs:
            c.assume(v < (1 << 48))       # domain of the float models (ceil(a/b), ceil(log2))
        if cfg == "sizes-none":
            sizes = None
        elif cfg == "sizes-len2":
            sizes = sizes[:2]
        elif cfg == "sizes-float":
            sizes = [sizes[0], 2.5, sizes[2]]
        elif cfg == "cs-float":
            cs = [cs[0], 2.0, cs[2]]
        elif cfg == "cs-len4":
            cs = cs + [cs[0]]
        elif cfg == "cs-empty":
            cs = []
        return (self.obj, cs, sizes), {}

    def bind(self, fn, args, kwargs):
        return {"cs": args[1], "sizes": args[2]}

    def _wf(self, cs, sizes):
        if self.cfg != "symbolic":
            return False
        return And(*[s > 0 for s in sizes], *[v > 0 for v in cs], cs[0] == cs[1], cs[1] == cs[2])

    def _nbits(self, g):
        return z3.Sum([z3.If(g.t > (1 << i), 1, 0) for i in range(48)])

    def ensures(self, c, result, cs, sizes):
        out = [("accepts-only-well-formed", self._wf(cs, sizes))]
        if self.cfg == "symbolic":
            a = self.obj.attrs
            gs, nb = a.get("grid_sizes"), a.get("num_bits")
            for d in range(3):
                q, r = c.divmod(sizes[d], cs[d])
                out.append((f"grid{d}==ceil(size/chunk)", gs[d] == ite(r == 0, q, q + 1)))
                out.append((f"num_bits{d}==bit_length(grid-1)", SBool(core._i(nb[d]) == self._nbits(gs[d]))))
            out.append(("total-bits<=64", nb[0] + nb[1] + nb[2] <= 64))
        return out

    def raises_when(self, c, cs, sizes):
        from neuroglancer_scripts.sharded_base import ShardedIOError
        wf = self._wf(cs, sizes)
        if self.cfg != "symbolic":
            return [(ShardedIOError, True)]
        if c.interp.truth(Not(wf)):
            return [(ShardedIOError, True)]
        gs = []
        for d in range(3):
            q, r = c.divmod(sizes[d], cs[d])
            gs.append(ite(r == 0, q, q + 1))
        tot = z3.Sum([z3.Sum([z3.If(core._i(g) > (1 << i), 1, 0) for i in range(48)]) for g in gs])
        return [(ShardedIOError, Or(Not(wf), SBool(tot > 64)))]

    def replay(self, model, cfg, ob_name):
        from neuroglancer_scripts.sharded_base import ShardVolumeSpec, ShardedIOError
        s = [model.get(f"size{d}", 1) for d in range(3)]
        cs = [model.get(f"cs{d}", 1) for d in range(3)]
        try:
            v = ShardVolumeSpec(cs, s)
            got = (v.grid_sizes, v.num_bits)
        except ShardedIOError:
            got = "ShardedIOError"
        ok = all(x > 0 for x in s + cs) and len(set(cs)) == 1
        if ok:
            g = [-(-a // b) for a, b in zip(s, cs)]
            nb = [(x - 1).bit_length() for x in g]
            exp = (g, nb) if sum(nb) <= 64 else "ShardedIOError"
        else:
            exp = "ShardedIOError"
        return {"reproduced": got != exp, "detail": f"sizes={s} chunk_sizes={cs}: got {got} expected {exp}"}


def smax1(v):
    return core.smax(v, 1)


# ------------------------------------------------------------------ get_cmc

@register
class GetCmc(Contract, _VolSpecMixin):
    target = SB + "ShardVolumeSpec.get_cmc"
    props = ("C09",)

    def setup(self, c, cfg):
        obj = self.mk_volspec(c, 21)
        cc = tuple(c.int(n, inp=True) for n in ("xmin", "xmax", "ymin", "ymax", "zmin", "zmax"))
        return (obj, cc), {}

    def bind(self, fn, args, kwargs):
        return {"self_": args[0], "chunk_coords": args[1]}

    def _pos(self, c, self_, chunk_coords):
        cs = self_.attrs["chunk_sizes"]
        qs, rs = [], []
        for ax in range(3):
            q, r = c.divmod(chunk_coords[2 * ax], cs[ax])
            qs.append(q)
            rs.append(r)
        return qs, rs

    def accepted(self, c, self_, chunk_coords):
        qs, rs = self._pos(c, self_, chunk_coords)
        gs = self_.attrs["grid_sizes"]
        return And(*[r == 0 for r in rs], *[And(q >= 0, q < g) for q, g in zip(qs, gs)]), qs

    def ensures(self, c, result, self_, chunk_coords):
        acc, qs = self.accepted(c, self_, chunk_coords)
        F = z3.Function("CMC", *([z3.IntSort()] * 6), z3.BitVecSort(64))
        gs = self_.attrs["grid_sizes"]
        exp = F(*[core._i(v) for v in list(gs) + qs])
        return [("accepted-only-on-lattice-and-inside-grid", acc),
                ("result-is-code-of-(min/chunk_size)", SBool(result.t == exp) if isinstance(result, SU64) else False)]

    def raises_when(self, c, self_, chunk_coords):
        from neuroglancer_scripts.sharded_base import ShardedIOError
        acc, _ = self.accepted(c, self_, chunk_coords)
        return [(ShardedIOError, Not(acc))]

    def fresh_result(self, c, self_, chunk_coords):
        return c.u64("cmc")

    def replay(self, model, cfg, ob_name):
        from neuroglancer_scripts.sharded_base import ShardVolumeSpec, ShardedIOError
        g = [max(1, model.get(f"grid{d}", 1)) for d in range(3)]
        cs = max(1, model.get("chunk_size", 1))
        cc = [model.get(n, 0) for n in ("xmin", "xmax", "ymin", "ymax", "zmin", "zmax")]
        vs = ShardVolumeSpec([cs] * 3, [x * cs for x in g])
        try:
            got = int(vs.get_cmc(cc))
        except ShardedIOError:
            got = "ShardedIOError"
        mins = cc[0::2]
        exp = spec_cmc_py(g, [m // cs for m in mins]) if all(m % cs == 0 for m in mins) else "ShardedIOError"
        return {"reproduced": got != exp, "detail": f"grid={g} chunk_size={cs} coords={cc}: got {got} expected {exp}"}


@register
class Bv2IntLink(Lemma):
    """hints used by CompressedMortonCode('code'): 2^i < BV2Int(G) <=> ULT(2^i, G)"""
    props = ("C09",)
    name = "lemma:bv2int-link"

    def run(self, c, cfg):
        G = z3.BitVec("G", 64)
        c.inputs["G"] = G
        for i in range(0, 22):
            c.prove(f"link-{i}", SBool((z3.IntVal(1 << i) < z3.BV2Int(G, False)) == z3.ULT(BV64(1 << i), G)))


@register
class CompressedMortonCodeSmallGrids(CompressedMortonCode):
    """the same contract on grids of at most 2^5 chunks per axis: cheap enough to be part of the C04 / C05 checks
    too (both state their claims in terms of 'the chunk identifier'); the full widths stay under C09"""
    name = "ShardVolumeSpec.compressed_morton_code[grids to 2^5 per axis]"
    props = ("C04", "C05")
    timeout_ms = 120000

    def configs_for(self, tier):
        return [("code", 5), ("reject", 5)]
