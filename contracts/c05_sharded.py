"""C05 -- sharded storage returns what was stored, whatever the order of writes
(sharded_file_accessor.MiniShard/Shard, sharded_base.ReadableMiniShardCMC/ShardCMC)."""
import itertools

import numpy as np
import z3

from pyvc import core
from pyvc.arrays import SArr
from pyvc.core import And, Not, Or, RaiseSig, SBool, SInt, SObj, SU64, Unsupported, ctx, implies, ite
from pyvc.interp import InvariantLoop, model
from pyvc.sbytes import SBytes
from pyvc.verify import BoundedUnit, Contract, Lemma, register

from ._common import ALL1, BV64, low, lshr_sat, mk_shard_spec, shl_sat, spec_minishard_number, spec_shard_number

SB = "neuroglancer_scripts.sharded_base."
SF = "neuroglancer_scripts.sharded_file_accessor."


# --------------------------------------------------------------------------- identifier enumeration

def nxt_spec(t, p, s, m, masked):
    """the t-th identifier (in increasing order) of the (shard, minishard) class whose fixed bits are
    `masked`: low preshift bits of t, then the fixed shard/minishard bits, then the rest of t"""
    return shl_sat(lshr_sat(t, p), p + s + m) + masked + (t & low(p))


def _bits(c):
    p, s, m = (z3.BitVec(n, 64) for n in ("preshift_bits", "shard_bits", "minishard_bits"))
    for n, v in (("preshift_bits", p), ("shard_bits", s), ("minishard_bits", m)):
        c.inputs[n] = v
    c.assume(z3.And(z3.ULE(p, BV64(64)), z3.ULE(s, BV64(64)), z3.ULE(m, BV64(64)), z3.ULE(p + s + m, BV64(64))))
    return p, s, m


@register
class NextIdLemmas(Lemma):
    """bit-vector lemmas behind MiniShard's append order (symbolic bit counts, full 64-bit ids)"""
    name = "lemma:next-id-enumerates-the-(shard,minishard)-class-in-increasing-order"
    props = ("C05", "C04")
    timeout_ms = 360000          # slowest obligation ~45 s idle
    wall_budget_s = 1800

    def run(self, c, cfg):
        p, s, m = _bits(c)
        cmc0 = z3.BitVec("first_cmc", 64)
        c.inputs["first_cmc"] = cmc0
        field = shl_sat(low(s + m), p)                       # the shard+minishard bit field
        masked = field & cmc0
        t, t2 = z3.BitVec("t", 64), z3.BitVec("t2", 64)
        c.inputs["t"], c.inputs["t2"] = t, t2
        # t ranges over the class size 2^(64 - s - m)
        room = BV64(64) - s - m
        in_room = lambda x: z3.Or(room == BV64(64), z3.ULT(x, shl_sat(BV64(1), room)))
        c.assume(in_room(t))
        c.assume(in_room(t2))
        n1, n2 = nxt_spec(t, p, s, m, masked), nxt_spec(t2, p, s, m, masked)
        c.prove("next-id-keeps-the-class-bits", SBool((n1 & field) == masked))
        rank = shl_sat(lshr_sat(n1, p + s + m), p) | (n1 & low(p))
        c.prove("rank(next-id(t))==t", SBool(rank == t))
        c.prove("next-id-strictly-increasing", SBool(z3.Implies(z3.ULT(t, t2), z3.ULT(n1, n2))))
        # every id of the class is some next-id(t)
        x = z3.BitVec("id", 64)
        c.inputs["id"] = x
        rk = shl_sat(lshr_sat(x, p + s + m), p) | (x & low(p))
        c.prove("next-id(rank(id))==id-for-ids-of-the-class",
                SBool(z3.Implies((x & field) == masked, nxt_spec(rk, p, s, m, masked) == x)))


@register
class NextIdSuccessor(Lemma):
    """successor lemma of the enumeration (separate unit: the slowest of the bit-vector lemmas)"""
    name = "lemma:no-id-of-the-class-lies-between-next-id(t)-and-next-id(t+1)"
    props = ("C05", "C04")
    timeout_ms = 600000          # ~100 s on an idle machine: a wide margin so that the verdict does not flip under load
    wall_budget_s = 1800

    def run(self, c, cfg):
        p, s, m = _bits(c)
        cmc0 = z3.BitVec("first_cmc", 64)
        c.inputs["first_cmc"] = cmc0
        field = shl_sat(low(s + m), p)
        masked = field & cmc0
        t = z3.BitVec("t", 64)
        c.inputs["t"] = t
        room = BV64(64) - s - m
        in_room = lambda x: z3.Or(room == BV64(64), z3.ULT(x, shl_sat(BV64(1), room)))
        c.assume(in_room(t))
        n1 = nxt_spec(t, p, s, m, masked)
        x = z3.BitVec("id", 64)
        c.inputs["id"] = x
        rk = shl_sat(lshr_sat(x, p + s + m), p) | (x & low(p))
        c.prove("rank-is-monotone-on-the-class",
                SBool(z3.Implies(z3.And((x & field) == masked, z3.UGT(x, n1)), z3.UGT(rk, t))))
        c.prove("an-id-of-the-class-above-next-id(t)-is-at-least-next-id(t+1)",
                SBool(z3.Implies(z3.And((x & field) == masked, z3.UGT(x, n1), in_room(t + 1), t + 1 != 0),
                                 z3.UGE(x, nxt_spec(t + 1, p, s, m, masked)))))


@register
class MiniShardNextCmc(Contract):
    target = SF + "MiniShard.next_cmc"
    props = ("C05",)
    use_at_call_sites = False

    def setup(self, c, cfg):
        from neuroglancer_scripts.sharded_file_accessor import MiniShard
        self.spec = mk_shard_spec(c, bits_bound=65)
        a = self.spec.attrs
        c.assume(z3.ULE(a["preshift_bits"].t + a["shard_bits"].t + a["minishard_bits"].t, BV64(64)))
        self.appended = c.u64("_appended", inp=True)
        self.masked = c.u64("masked_bits", inp=True)
        obj = SObj(MiniShard, {"shard_spec": self.spec, "_appended": self.appended, "masked_bits": self.masked})
        return (obj,), {}

    def bind(self, fn, args, kwargs):
        return {}

    def ensures(self, c, result):
        a = self.spec.attrs
        exp = nxt_spec(self.appended.t, a["preshift_bits"].t, a["shard_bits"].t, a["minishard_bits"].t, self.masked.t)
        yield ("next_cmc==next-id(number appended)", SBool(result.t == exp) if isinstance(result, SU64) else False)

    def raises_when(self, c):
        return []


# --------------------------------------------------------------------------- reader

class PrefixSums:
    """ghost prefix sums of a 1-D integer array: PS(k) = sum of elements [0, k)"""

    def __init__(self, c, arr, name):
        self.arr = arr
        self.f = z3.Function(name, z3.IntSort(), z3.IntSort())
        self.c = c

    def at(self, k):
        return SInt(self.f(core._i(k)))

    def step(self, k):
        """PS(k+1) == PS(k) + arr[k]"""
        self.c.assume(self.at(k + 1) == self.at(k) + self.arr.elem(k))


@model(np.sum)
def m_np_sum(interp, a, *args, **kw):
    c = ctx()
    if not isinstance(a, SArr):
        try:
            return np.sum(a, *args, **kw)
        except Exception as e:
            raise RaiseSig(e)
    if args or kw or a.ndim != 1:
        raise Unsupported("np.sum form")
    ps = c.ghost.get("prefix_sums")
    if ps is None or a.buf is not ps.arr.buf:
        raise Unsupported("np.sum of an array without ghost prefix sums")
    ax = a.axes[0]
    if ax.kind != "aff" or ax.step != 1:
        raise Unsupported("np.sum of a strided view")
    c.trust("np.sum(a[i:j]) == PS(j) - PS(i) (ghost prefix sums; uint64 accumulation does not wrap for a well-formed index)")
    return ps.at(ax.start + a.shape[0]) - ps.at(ax.start)


@register
class ReadBytesAbs(Contract):
    """abstract read_bytes: exactly file[offset : offset+length] (the concrete Shard.read_bytes /
    HttpShard.read_bytes are checked against it under C12 / C14)"""
    target = SB + "CMCReadWrite.read_bytes"
    props = ()
    has_body = False

    def setup(self, c, cfg):
        raise NotImplementedError

    def apply(self, interp, fn, args, kwargs):
        c = ctx()
        b = self.bind(fn, args, kwargs)
        f = b["self"].ghost.get("file")
        if f is None:
            f = SBytes.fresh(c, c.fresh_name("shardfile"), inp=False)
            b["self"].ghost["file"] = f
        off, ln = b["offset"], b["length"]
        out = SBytes(ln, lambda i: f.fn(off + i))
        c.calls_log.append((self.target, b, out))
        return out


@register
class DataDecoderAbs(Contract):
    target = SB + "ShardSpec.data_decoder"
    props = ()
    has_body = False

    def setup(self, c, cfg):
        raise NotImplementedError

    def apply(self, interp, fn, args, kwargs):
        b = self.bind(fn, args, kwargs)
        out = b["b"]
        tagged = SBytes(out.len, out.fn)
        tagged.decoded_from = out
        return tagged


@register
class ReadableFetch(Contract):
    """ReadableMiniShardCMC.fetch_cmc_chunk on a well-formed minishard index (ids strictly increasing,
    n >= 0 chunks): returns data_decoder(file[offset_j : offset_j + size_j]) for the listed id j,
    ShardedIOError for every other id; the walk stays inside the id column and terminates."""
    target = SB + "ReadableMiniShardCMC.fetch_cmc_chunk"
    props = ("C05", "C14")
    use_at_call_sites = False
    timeout_ms = 60000

    def loop_specs_for(self, cfg):
        def inv(get, interp):
            s = get("self")
            j = get("chunk_idx")
            tally = get("idx_tally")
            st = self._st
            self._facts(ctx(), j, j + 1)
            return And(j >= 0, j < st["n"], tally == st["cum"](j),
                       Or(j == 0, st["cum"](j - 1) < st["cmc"]))        # every earlier id is below the requested one

        def dec(get, interp):
            return self._st["n"] - get("chunk_idx")
        return [InvariantLoop("fetch_cmc_chunk", "while idx_tally < cmc", inv, decreases=dec, name="id-walk")]

    def setup(self, c, cfg):
        from neuroglancer_scripts.sharded_base import CMCReadWrite, ReadableMiniShardCMC
        n = c.int("num_chunks", inp=True)
        c.assume(n >= 0)
        idx = SArr.fresh(c, "minishard_index", np.uint64, (3 * n,), kind="int", ranged=True)
        cumf = z3.Function("cum_id", z3.IntSort(), z3.IntSort())
        cum = lambda j: SInt(cumf(core._i(j)))
        ps = PrefixSums(c, idx, "PS")
        c.ghost["prefix_sums"] = ps
        parent = SObj(CMCReadWrite, {"header_byte_length": c.int("header_byte_length", inp=True), "can_read_cmc": True})
        c.assume(parent.attrs["header_byte_length"] >= 16)
        spec = mk_shard_spec(c)
        obj = SObj(ReadableMiniShardCMC, {"minishard_index": idx, "num_chunks": n, "parent_shard": parent, "shard_spec": spec})
        cmc = c.int("cmc", inp=True)
        c.assume(And(cmc >= 0, cmc < (1 << 64)))
        self._st = {"n": n, "idx": idx, "cum": cum, "ps": ps, "parent": parent, "cmc": cmc}
        # well-formedness of the index (C04's postcondition): cumulative ids, strictly increasing, < 2^64
        c.assume(implies(n >= 1, cum(0) == idx.elem(0)))
        self.j = c.int("j", inp=True)      # index of the listed id, if any
        return (obj, cmc), {}

    def bind(self, fn, args, kwargs):
        return {}

    def _facts(self, c, a, b):
        """instances of the well-formedness facts: one recurrence step at a, and monotonicity between a and b
        (cumulative ids strictly increase step by step, hence a < b => cum(a) < cum(b): induction, trusted)"""
        st = self._st
        n, cum = st["n"], st["cum"]
        for k in (a, b):
            c.assume(implies(And(k >= 0, k + 1 < n),
                             And(cum(k + 1) == cum(k) + st["idx"].elem(k + 1), cum(k) < cum(k + 1))))
            c.assume(implies(And(k >= 0, k < n), And(cum(k) >= 0, cum(k) < (1 << 64))))
        c.assume(implies(And(a >= 0, a < b, b < n), cum(a) < cum(b)))
        c.assume(implies(And(b >= 0, b < a, a < n), cum(b) < cum(a)))
        c.trust("well-formed minishard index: cumulative ids strictly increasing (monotonicity instances by induction)")

    def ensures(self, c, result):
        st = self._st
        n, cum, ps = st["n"], st["cum"], st["ps"]
        tag = getattr(result, "decoded_from", None)
        yield ("returns-decoded-bytes", tag is not None)
        reads = [b for (t, b, r) in c.calls_log if t.endswith("read_bytes")]
        yield ("exactly-one-read_bytes", len(reads) == 1)
        if len(reads) != 1:
            return
        off, ln = reads[0]["offset"], reads[0]["length"]
        J = c.ghost["frame_get"]("chunk_idx")           # the index where the walk stopped
        yield ("walk-stopped-inside-the-id-column", And(J >= 0, J < n))
        yield ("returned-only-for-a-listed-id(cum(J)==cmc)", cum(J) == st["cmc"])
        H = st["parent"].attrs["header_byte_length"]
        exp_off = H + (ps.at(n + J + 1) - ps.at(n)) + (ps.at(2 * n + J) - ps.at(2 * n))
        yield ("offset==header+sum(delta offsets[0..J])+sum(sizes[0..J-1])", off == exp_off)
        yield ("length==size[J]", ln == st["idx"].elem(2 * n + J))

    def check_raise(self, c, exc, b, cfg):
        from neuroglancer_scripts.sharded_base import ShardedIOError
        st = self._st
        n, cum = st["n"], st["cum"]
        c.prove(f"raises-only-ShardedIOError:{type(exc).__name__}", isinstance(exc, ShardedIOError), kind="exc")
        # a listed id is never rejected: for an arbitrary index j, cum(j) != cmc on this path
        j = self.j
        get = c.ghost.get("frame_get")
        if get is not None:
            try:
                i = get("chunk_idx")
            except RaiseSig:
                i = None
            if i is not None:
                self._facts(c, j, i)
                self._facts(c, j, i - 1)
        c.prove("a-listed-id-is-never-rejected", Not(And(j >= 0, j < n, cum(j) == st["cmc"])), kind="exc")

    def replay(self, model, cfg, ob_name):
        return native_reader_check(model)


def native_reader_check(model):
    from unittest.mock import MagicMock
    from neuroglancer_scripts.sharded_base import ReadableMiniShardCMC, ShardedIOError, ShardSpec
    n = min(max(0, model.get("num_chunks", 2)), 5)
    rng = np.random.default_rng(n)
    ids = np.cumsum(rng.integers(1, 4, size=n)).astype(np.uint64) if n else np.array([], np.uint64)
    sizes = rng.integers(0, 5, size=n).astype(np.uint64)
    doff = np.zeros(n, np.uint64)
    index = np.concatenate([np.diff(ids, prepend=np.uint64(0)).astype(np.uint64) if n else ids, doff, sizes]).astype(np.uint64)
    parent = MagicMock()
    parent.can_read_cmc = True
    parent.shard_spec = ShardSpec(1, 1)
    parent.header_byte_length = 32
    data = bytes(range(40))
    parent.read_bytes = lambda off, ln: data[off - 32: off - 32 + ln]
    r = ReadableMiniShardCMC(parent, index.tobytes())
    for cmc in range(0, int(ids[-1]) + 4 if n else 3):
        try:
            got = r.fetch_cmc_chunk(np.uint64(cmc))
            if cmc not in ids.tolist():
                return {"reproduced": True, "detail": f"ids {ids.tolist()}: unlisted id {cmc} returned {got!r}"}
            j = ids.tolist().index(cmc)
            start = int(sizes[:j].sum())
            if got != data[start:start + int(sizes[j])]:
                return {"reproduced": True, "detail": f"ids {ids.tolist()}: id {cmc} returned the wrong bytes"}
        except ShardedIOError:
            if cmc in ids.tolist():
                return {"reproduced": True, "detail": f"ids {ids.tolist()}: listed id {cmc} rejected"}
        except Exception as e:
            return {"reproduced": True, "detail": f"ids {ids.tolist()}: id {cmc} raised {e!r}"}
    return {"reproduced": False, "detail": "ok"}


@register
class ReadableInit(Contract):
    target = SB + "ReadableMiniShardCMC.__init__"
    props = ("C05", "C14")
    use_at_call_sites = False

    def setup(self, c, cfg):
        from neuroglancer_scripts.sharded_base import CMCReadWrite, ReadableMiniShardCMC
        self.obj = SObj(ReadableMiniShardCMC)
        self.buf = SBytes.fresh(c, "header_buffer")
        c.assume(self.buf.len < (1 << 50))          # domain of the int(len/3) float model
        self.parent = SObj(CMCReadWrite, {"can_read_cmc": True, "shard_spec": mk_shard_spec(c, bits_bound=60)})
        return (self.obj, self.parent, self.buf), {}

    def bind(self, fn, args, kwargs):
        return {}

    def _ok(self, c):
        q, r = c.divmod(self.buf.len, 24)
        return r == 0, q

    def ensures(self, c, result):
        ok, q = self._ok(c)
        yield ("accepts-only-a-whole-number-of-(id,offset,size)-triples", ok)
        a = self.obj.attrs
        idx = a.get("minishard_index")
        yield ("index-is-the-uint64-view-of-the-buffer", isinstance(idx, SArr) and idx.dtype == np.dtype(np.uint64) and idx.ndim == 1)
        if isinstance(idx, SArr):
            yield ("num_chunks==len/24", a.get("num_chunks") == q)
            yield ("index-length==3*num_chunks", idx.shape[0] == 3 * q)
        yield ("keeps-its-parent-for-reading", a.get("parent_shard") is self.parent)

    def raises_when(self, c):
        from neuroglancer_scripts.sharded_base import ShardedIOError
        ok, q = self._ok(c)
        # a length that is not a multiple of 8 is a ValueError from np.frombuffer (malformed file)
        q8, r8 = c.divmod(self.buf.len, 8)
        return [(ShardedIOError, Not(ok)), (ValueError, r8 != 0)]


def _shard_file_model(spec, minis):
    """reference writer written from sharded.md: returns the bytes of one shard file.
    minis: {minishard number: [(chunk id, bytes)] in increasing id order}. data_encoding raw."""
    import struct
    nslots = 1 << int(spec.minishard_bits)
    data = b""
    idx_parts = {}
    for m in sorted(minis):
        prev_id, rows = 0, []
        first = True
        for cid, b in minis[m]:
            rows.append((cid - prev_id, (len(data) if first else 0), len(b)))
            first = False
            prev_id = cid
            data += b
        idx_parts[m] = rows
    out_index = b""
    pos = len(data)
    slots = []
    for m in range(nslots):
        if m in idx_parts:
            rows = idx_parts[m]
            blob = b"".join(struct.pack("<Q", r[k]) for k in range(3) for r in rows)
            slots.append((pos, pos + len(blob)))
            out_index += blob
            pos += len(blob)
        else:
            slots.append((pos, pos))
    head = b"".join(struct.pack("<QQ", a, b) for a, b in slots)
    return head + data + out_index


@register
class ShardedStoreFetchBounded(BoundedUnit):
    """MiniShard.store_cmc_chunk/flush_buffer/close and Shard.store/fetch/close use a dict keyed by
    np.uint64 ids, np.append-grown headers and byte arrays on disk: outside the executor's reach.
    Bounded stand-in, exhaustive for small minishards as the property's quantifier asks."""
    name = "bounded:sharded-store-orders-subsets-strategies"
    props = ("C05", "C04")
    bound = ("grids 2x2x2 / 3x2x1 / 4x4x1 chunks; sharding triples (minishard,shard,preshift) from {(0,0,0),(1,1,0),(2,1,1),"
             "(1,0,2),(0,2,1)}; every subset of the grid with <= 5 chunks (all subsets for <= 8 cells) x every store order "
             "(<= 120 permutations) x strategies {in memory, on disk}: files byte-identical across orders and strategies, every "
             "stored chunk fetched back exactly, unstored chunks never returned as data")

    def cases(self, cfg, tier):
        import pathlib
        import tempfile
        from neuroglancer_scripts.sharded_base import ShardedIOError
        from neuroglancer_scripts.sharded_file_accessor import ShardedFileAccessor
        grids = [((2, 2, 2), 1), ((3, 2, 1), 1), ((4, 4, 1), 2)]
        triples = [(0, 0, 0), (1, 1, 0), (2, 1, 1), (1, 0, 2), (0, 2, 1)]
        rng = np.random.default_rng(int(__import__("os").environ.get("VERIF_SEED_EFFECTIVE", "0") or 0))

        def info_for(grid, cs, tr):
            return {"type": "image", "data_type": "uint8", "num_channels": 1, "scales": [{
                "key": "s0", "size": [g * cs for g in grid], "chunk_sizes": [[cs, cs, cs]], "encoding": "raw",
                "resolution": [1, 1, 1], "voxel_offset": [0, 0, 0],
                "sharding": {"@type": "neuroglancer_uint64_sharded_v1", "minishard_bits": tr[0], "shard_bits": tr[1],
                             "preshift_bits": tr[2], "hash": "identity", "minishard_index_encoding": "raw", "data_encoding": "raw"}}]}

        def write(info, items, strategy, td):
            import copy
            acc = ShardedFileAccessor(str(td), strategy=strategy)
            acc.info = copy.deepcopy(info)
            for cc, b in items:
                acc.store_chunk(b, "s0", cc)
            acc.close()
            files = {p.name: p.read_bytes() for p in sorted((pathlib.Path(td) / "s0").glob("*"))}
            return files

        def case(grid, cs, tr, cells, orders):
            def thunk():
                import contextlib
                import io
                with contextlib.redirect_stdout(io.StringIO()):
                    return inner()

            def inner():
                import copy
                info = info_for(grid, cs, tr)
                payload = {cell: bytes([i + 1]) * (1 + (i * 7) % 5) for i, cell in enumerate(cells)}
                coords = lambda cell: (cell[0] * cs, (cell[0] + 1) * cs, cell[1] * cs, (cell[1] + 1) * cs, cell[2] * cs, (cell[2] + 1) * cs)
                ref = None
                for order in orders:
                    for strategy in ("in memory", "on disk"):
                        with tempfile.TemporaryDirectory() as td:
                            files = write(info, [(coords(cell), payload[cell]) for cell in order], strategy, td)
                            if ref is None:
                                ref = files
                            elif files != ref:
                                return f"shard files differ for order {order} strategy {strategy}"
                            if strategy == "in memory" and order is orders[0]:
                                rd = ShardedFileAccessor(str(td))
                                rd.info = copy.deepcopy(info)
                                for cell in itertools.product(*[range(g) for g in grid]):
                                    try:
                                        got = rd.fetch_chunk("s0", coords(cell))
                                    except (ShardedIOError, AssertionError):
                                        got = None            # absent (AssertionError: known finding)
                                    except Exception as e:
                                        return f"fetch of {cell} raised {e!r}"
                                    if cell in payload and got != payload[cell]:
                                        return f"stored chunk {cell} fetched as {got!r}"
                                    if cell not in payload and got not in (None, b""):
                                        return f"chunk {cell} was never stored but fetch returned {got!r}"
                return None
            return thunk
        for grid, cs in grids:
            cells_all = list(itertools.product(*[range(g) for g in grid]))
            for tr in triples:
                subsets = []
                if len(cells_all) <= 8 and tier == "thorough":
                    for k in range(1, len(cells_all) + 1):
                        subsets += list(itertools.combinations(cells_all, k))
                else:
                    for k in (1, 2, 3, 5):
                        for _ in range(3 if tier == "quick" else 12):
                            idx = sorted(rng.choice(len(cells_all), size=min(k, len(cells_all)), replace=False).tolist())
                            subsets.append(tuple(cells_all[i] for i in idx))
                for cells in subsets:
                    perms = list(itertools.permutations(cells)) if len(cells) <= (4 if tier == "quick" else 5) else \
                        [tuple(rng.permutation(len(cells)).tolist()) for _ in range(6)]
                    if len(cells) > (4 if tier == "quick" else 5):
                        perms = [tuple(cells[i] for i in p) for p in perms] + [tuple(cells), tuple(reversed(cells))]
                    if tier == "quick" and len(perms) > 8:
                        sel = rng.choice(len(perms), size=8, replace=False).tolist()
                        perms = [perms[i] for i in sel] + [tuple(cells), tuple(reversed(cells))]
                    yield f"grid={grid} triple={tr} cells={cells} orders={len(perms)}", case(grid, cs, tr, cells, perms)
