"""C02 -- compressed_segmentation output conforms to the Neuroglancer format
(_compressed_segmentation.py). Spec: neuroglancer/src/sliceview/compressed_segmentation/README.md
  * header: one uint32le per channel = offset of the channel data, in 32-bit units from file start
  * per channel: grid of gx*gy*gz block headers (2 uint32le each), block (x,y,z) at index
    x + gx*(y + gy*z); word0 = lookup table offset (low 24 bits) | encoded bits (high 8 bits),
    word1 = encoded values offset; both in 32-bit units from the channel start
  * encoded values: position x + bx*(y + by*z) inside the block; value k is bits [n*k, n*k+n) of
    32-bit little-endian word k // (32/n) ... i.e. (word >> (n * (k % (32/n)))) & (2^n - 1)
  * lookup table entries: uint32le / uint64le
"""
import itertools

import numpy as np
import z3

from pyvc import core
from pyvc.arrays import SArr
from pyvc.core import And, Not, Or, RaiseSig, SBool, SInt, SObj, ctx, implies, ite
from pyvc.interp import harness
from pyvc.sbytes import SBytes, le_compose
from pyvc.verify import BoundedUnit, Contract, Lemma, register

CS = "neuroglancer_scripts._compressed_segmentation."
BITS = (0, 1, 2, 4, 8, 16, 32)


# --------------------------------------------------------------------------- executable spec decoder

def spec_decode(buf, shape, block_size, dtype):
    """decoder written only from the format description (python ints / bytes)"""
    C, Z, Y, X = shape
    bx, by, bz = block_size
    isz = np.dtype(dtype).itemsize
    out = np.empty(shape, dtype=np.dtype(dtype).newbyteorder("<"))
    u32 = lambda off: int.from_bytes(buf[off:off + 4], "little") if off + 4 <= len(buf) else (_ for _ in ()).throw(ValueError("short"))
    gx, gy, gz = -(-X // bx), -(-Y // by), -(-Z // bz)
    for c in range(C):
        base = 4 * u32(4 * c)
        for z in range(gz):
            for y in range(gy):
                for x in range(gx):
                    h = base + 8 * (x + gx * (y + gy * z))
                    w0, w1 = u32(h), u32(h + 4)
                    tab = base + 4 * (w0 & 0xFFFFFF)
                    n = w0 >> 24
                    if n not in BITS:
                        raise ValueError("bits")
                    val = base + 4 * w1
                    for dz in range(bz):
                        for dy in range(by):
                            for dx in range(bx):
                                Zp, Yp, Xp = z * bz + dz, y * by + dy, x * bx + dx
                                if Zp >= Z or Yp >= Y or Xp >= X:
                                    continue
                                k = dx + bx * (dy + by * dz)
                                if n == 0:
                                    idx = 0
                                else:
                                    per = 32 // n
                                    word = u32(val + 4 * (k // per))
                                    idx = (word >> (n * (k % per))) & ((1 << n) - 1)
                                e = tab + isz * idx
                                if e + isz > len(buf):
                                    raise ValueError("table")
                                out[c, Zp, Yp, Xp] = int.from_bytes(buf[e:e + isz], "little")
    return out


# --------------------------------------------------------------------------- small pure functions

@register
class NumberOfEncodingBits(Contract):
    target = CS + "number_of_encoding_bits"
    props = ("C02",)
    use_at_call_sites = False

    def setup(self, c, cfg):
        self.n = c.int("elements", inp=True)
        c.assume(self.n >= 1)
        return (self.n,), {}

    def bind(self, fn, args, kwargs):
        return {}

    def ensures(self, c, result):
        yield ("result-is-an-allowed-width", result in BITS)
        if result in BITS:
            yield ("2^bits>=elements", (1 << result) >= self.n)
            smaller = [b for b in BITS if b < result]
            if smaller:
                yield ("least-such-width", (1 << smaller[-1]) < self.n)

    def raises_when(self, c):
        return [(AssertionError, self.n > (1 << 32))]


@harness
def pack_unpack(values, bits, n):
    from neuroglancer_scripts._compressed_segmentation import _pack_encoded_values, _unpack_encoded_values
    packed = _pack_encoded_values(values, bits)
    words = np.frombuffer(packed, dtype="<I")
    return packed, _unpack_encoded_values(words, bits, n)


@register
class PackUnpackRoundTrip(Lemma):
    """unpack(pack(v)) == v for a symbolic number of values < 2^bits, and the packed length is
    4*ceil(n/(32/bits)); value k sits at bits [bits*(k % per), ...) of word k // per (format layout)"""
    name = "lemma:unpack(pack(v))==v-and-layout"
    props = ("C02",)
    configs = (4, 8, 16, 32)          # widths 1 and 2 (32 / 16 fields per word) exceed the quick budget: bounded below
    timeout_ms = 120000

    def configs_for(self, tier):
        # width 2 discharges (21 obligations, about 7 minutes on one core when the machine is otherwise idle): thorough tier only
        return [2, 4, 8, 16, 32] if tier == "thorough" else list(self.configs)

    def run(self, c, bits):
        n = c.int("n", inp=True)
        c.assume(And(n >= 1, n <= (1 << 24)))
        f = c.func("v", z3.IntSort(), z3.BitVecSort(64))

        def elem(i):
            t = f(core._i(i))
            ctx().assume(z3.ULT(t, z3.BitVecVal(1 << bits, 64)))      # indices into a table of <= 2^bits entries
            return core.SU64(t)
        v = SArr.from_fn(elem, (n,), np.int64)
        try:
            packed, back = c.interp.call(pack_unpack, (v, bits, n))
        except RaiseSig as e:
            c.prove(f"pack/unpack-raises-nothing:{type(e.exc).__name__}", False)
            return
        per = 32 // bits
        q, r = c.divmod(n, per)
        c.prove("packed-length==4*ceil(n/per)", packed.len == 4 * ite(r == 0, q, q + 1))
        c.prove("unpacked-length==n", back.shape[0] == n)
        k = c.int("k", inp=True)
        c.assume(And(k >= 0, k < n))
        # layout from the format, at word level (the words are then written little-endian by tobytes):
        # value k == (word[k // per] >> (bits * (k % per))) & mask
        wq, wr = c.divmod(k, per)
        words = packed.packed[0] if packed.packed is not None else None
        c.prove("packed-bytes-are-the-uint32-words-in-order", words is not None and words.dtype == np.dtype("<u4") and words.ndim == 1)
        if words is not None:
            word = words.elem(wq)
            sh = z3.Int2BV(core._i(bits * wr), 32)
            fld = z3.LShR(word.t, sh) & z3.BitVecVal((1 << bits) - 1, 32)
            c.prove("value-k-at-its-format-position", SBool(fld == z3.Extract(31, 0, v.elem(k).t)))
        bk = back.elem(k)
        bt = bk.t if isinstance(bk, (core.SBV, core.SU64)) else z3.Int2BV(core._i(bk), 32)
        goal = SBool(z3.ZeroExt(64 - bt.size(), bt) == v.elem(k).t) if bt.size() < 64 else SBool(bt == v.elem(k).t)
        # case split on the position of the value inside its word (one small query per position)
        for s_ in range(per):
            c.prove(f"unpack(pack(v))[k]==v[k]  [k % per == {s_}]", implies(wr == s_, goal))
        c.prove("unpack(pack(v))[k]==v[k]", goal)

    def replay(self, model, bits, ob_name):
        from neuroglancer_scripts._compressed_segmentation import _pack_encoded_values, _unpack_encoded_values
        n = min(max(1, model.get("n", 1)), 200)
        rng = np.random.default_rng(n)
        v = rng.integers(0, 2 ** bits, size=n, dtype=np.uint64).astype(np.int64)
        p = _pack_encoded_values(v, bits)
        b = _unpack_encoded_values(np.frombuffer(p, "<I"), bits, n)
        per = 32 // bits
        exp = bytearray(4 * (-(-n // per)))
        for k in range(n):
            w = int.from_bytes(exp[4 * (k // per):4 * (k // per) + 4], "little") | (int(v[k]) << (bits * (k % per)))
            exp[4 * (k // per):4 * (k // per) + 4] = w.to_bytes(4, "little")
        bad = not np.array_equal(b, v) or bytes(p) != bytes(exp)
        return {"reproduced": bad, "detail": f"bits={bits} n={n}: {'layout/round trip differs' if bad else 'ok'}"}


# --------------------------------------------------------------------------- bounded: encoder vs spec decoder

@register
class EncodeChunkBounded(BoundedUnit):
    """encode_chunk is outside the executor's reach (np.unique(return_inverse), a dict keyed by byte
    strings, a growing bytearray patched in place): bounded stand-in against the spec decoder."""
    name = "bounded:encode_chunk-vs-spec-decoder"
    props = ("C02", "C03")
    bound = ("chunk shapes from {1,2,3,5}^3 x channels {1,2}; block sizes {1,2,3,8}^3 (non-cubic included); uint32/uint64; "
             "label alphabets of 1,2,3,5,17,300 values incl. 2^32 and 2^53+1; decoded by a decoder written from the format "
             "description and by the package decoder")

    def cases(self, cfg, tier):
        from neuroglancer_scripts import _compressed_segmentation as cs
        shapes = list(itertools.product((1, 2), (1, 3, 5), (1, 2, 5), (1, 3, 5)))
        blocks = [(1, 1, 1), (2, 2, 2), (8, 8, 8), (2, 3, 1), (1, 2, 8), (3, 1, 2)]
        alph = {1: [7], 2: [0, 2 ** 32], 3: [1, 2, 3], 5: [0, 1, 2 ** 53 + 1, 2 ** 32, 9], 17: list(range(17)), 300: list(range(300))}
        step = 1 if tier == "thorough" else 5
        combos = list(itertools.product(shapes, blocks, ("<u4", "<u8"), sorted(alph)))
        for i, (shape, bs, dt, na) in enumerate(combos):
            if i % step:
                continue

            def thunk(shape=shape, bs=bs, dt=dt, na=na, i=i):
                rng = np.random.default_rng(i)
                vals = np.array([v % (2 ** 32) if dt == "<u4" else v for v in alph[na]], dtype=dt)
                a = vals[rng.integers(0, len(vals), size=shape)]
                buf = bytes(cs.encode_chunk(a, bs))
                try:
                    s = spec_decode(buf, shape, bs, dt)
                except Exception as e:
                    return f"spec decoder rejects the output: {e!r}"
                if not np.array_equal(s, a):
                    return "spec decoder recovers a different array"
                out = np.empty(shape, dt)
                cs.decode_chunk_into(out, buf, bs)
                if not np.array_equal(out, a):
                    return "package decoder recovers a different array"
                return None
            yield f"shape={shape} block={bs} dtype={dt} labels={na}", thunk


@register
class PackUnpackSmallWidthsBounded(BoundedUnit):
    """bit widths 1 and 2: the symbolic obligations (32 / 16 nested strided writes per word) did not
    discharge within budget on the unchanged tree, so these widths get a bounded stand-in"""
    name = "bounded:pack/unpack-bits-1-and-2"
    props = ("C02",)
    bound = "bits in {1,2}; n = 1..130 values (random, 3 seeds each); layout compared with an independent packer"

    def cases(self, cfg, tier):
        lem = PackUnpackRoundTrip()
        for bits in (1, 2):
            for n in range(1, 131):
                yield f"bits={bits} n={n}", (lambda bits=bits, n=n: (lambda r: r["detail"] if r["reproduced"] else None)(lem.replay({"n": n}, bits, "")))
