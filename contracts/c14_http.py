"""C14 -- reading over HTTP gives the same bytes as reading the files locally (http_accessor.py,
sharded_http_accessor.py, accessor.get_accessor_for_url), modulo the assumed `requests` contract
(pyvc/fsmodel.py HttpWorld): a GET/HEAD either raises a RequestException or returns a response with
a status code and a body; raise_for_status raises iff status >= 400."""
import itertools
import pathlib

import numpy as np
import z3

from pyvc import core, fsmodel
from pyvc.core import And, Not, Or, RaiseSig, SBool, SInt, SObj, ctx, implies, ite
from pyvc.fsmodel import fmt, get_fs, get_http, str_eq
from pyvc.sbytes import SBytes
from pyvc.verify import Contract, Lemma, register

from .c12_files import BASE, documented_path, mk_cc

HA = "neuroglancer_scripts.http_accessor.HttpAccessor."
URLS = (("http://host/ds", "http://host/ds/"), ("http://host/ds/", "http://host/ds/"),
        ("https://host:8080/a/b?token=1#frag", "https://host:8080/a/b/"), ("http://host", "http://host/"),
        ("http://host/", "http://host/"))


def mk_http_acc(base="http://host/ds/"):
    import requests
    from neuroglancer_scripts.http_accessor import HttpAccessor
    return SObj(HttpAccessor, {"base_url": base, "_session": requests.Session()})


def serve(c, url, status=None, body=None, fails=False):
    w = get_http()
    o = {"fails": fails, "status": status if status is not None else c.int("status", inp=True),
         "body": body if body is not None else SBytes.fresh(c, "served")}
    w.entries.append((url, o))
    return o


@register
class HttpAccessorInit(Contract):
    target = HA + "__init__"
    props = ("C14",)
    use_at_call_sites = False
    configs = URLS

    def setup(self, c, cfg):
        from neuroglancer_scripts.http_accessor import HttpAccessor
        self.obj = SObj(HttpAccessor)
        self.cfg = cfg
        return (self.obj, cfg[0]), {}

    def bind(self, fn, args, kwargs):
        return {}

    def ensures(self, c, result):
        yield ("base-url-normalised(trailing slash; query and fragment dropped)", self.obj.attrs.get("base_url") == self.cfg[1])


@register
class HttpFetchFile(Contract):
    """server behaviours for a plain GET: connection failure | 200 with the file | any status >= 400"""
    target = HA + "fetch_file"
    props = ("C14", "C18")
    use_at_call_sites = False
    configs = ("info", "key/0-64_0-64_0-64", "mesh/12:0")

    def setup(self, c, cfg):
        self.acc = mk_http_acc()
        self.o = serve(c, "http://host/ds/" + cfg)
        c.assume(Or(self.o["status"] == 200, self.o["status"] >= 400))
        self.o["fails"] = c.bool("connection_fails", inp=True)
        return (self.acc, cfg), {}

    def bind(self, fn, args, kwargs):
        return {}

    def ensures(self, c, result):
        yield ("returns-only-on-200-without-connection-failure", And(Not(self.o["fails"]), self.o["status"] == 200))
        l, b = result.eq_bytes(self.o["body"]) if isinstance(result, SBytes) else (False, False)
        yield ("returns-exactly-the-served-bytes:length", l)
        yield ("returns-exactly-the-served-bytes:content", b)
        log = get_http().log
        yield ("one-GET-of-base_url+name", len(log) == 1 and log[0][0] == "GET" and log[0][1] == "http://host/ds/" + self._name)

    def check_return(self, c, result, b, cfg):
        self._name = cfg
        super().check_return(c, result, b, cfg)

    def raises_when(self, c):
        from neuroglancer_scripts.accessor import DataAccessError
        return [(DataAccessError, Or(self.o["fails"], self.o["status"] >= 400))]


@register
class HttpFileExists(Contract):
    target = HA + "file_exists"
    props = ("C14", "C18")
    use_at_call_sites = False

    def setup(self, c, cfg):
        self.acc = mk_http_acc()
        self.o = serve(c, "http://host/ds/info")
        self.o["fails"] = c.bool("connection_fails", inp=True)
        return (self.acc, "info"), {}

    def bind(self, fn, args, kwargs):
        return {}

    def ensures(self, c, result):
        st = self.o["status"]
        yield ("answers-only-when-the-server-answered-without-error", And(Not(self.o["fails"]), Or(st < 400, st == 404)))
        yield ("False-iff-404", (result == (st != 404)) if isinstance(result, SBool) else ((st != 404) if result else (st == 404)))

    def raises_when(self, c):
        from neuroglancer_scripts.accessor import DataAccessError
        st = self.o["status"]
        return [(DataAccessError, Or(self.o["fails"], And(st >= 400, st != 404)))]


@register
class HttpFetchChunk(Contract):
    target = HA + "fetch_chunk"
    props = ("C14",)
    use_at_call_sites = False

    def setup(self, c, cfg):
        self.acc = mk_http_acc()
        self.cc = mk_cc(c)
        return (self.acc, "key", self.cc), {}

    def bind(self, fn, args, kwargs):
        return {}

    def _url_ok(self, c):
        log = get_http().log
        if len(log) != 1 or log[0][0] != "GET":
            return False
        # the local flat-layout name of the same chunk (C12's documented path), relative to the base
        local = documented_path("key", self.cc, True, False)
        rel = local[len(BASE) + 1:]
        return str_eq(log[0][1], "http://host/ds/" + rel)

    def ensures(self, c, result):
        yield ("requests-base_url+the-flat-chunk-name-used-by-the-local-accessor", self._url_ok(c))
        o = get_http().entries[0][1]
        l, b = result.eq_bytes(o["body"]) if isinstance(result, SBytes) else (False, False)
        yield ("returns-exactly-the-served-bytes:length", l)
        yield ("returns-exactly-the-served-bytes:content", b)

    def check_raise(self, c, exc, b, cfg):
        from neuroglancer_scripts.accessor import DataAccessError
        c.prove(f"raises-only-DataAccessError:{type(exc).__name__}", isinstance(exc, DataAccessError), kind="exc")
        c.prove("requests-base_url+the-flat-chunk-name-used-by-the-local-accessor", self._url_ok(c), kind="exc")


# --------------------------------------------------------------------------- sharded over HTTP

HS = "neuroglancer_scripts.sharded_http_accessor.HttpShard."


def mk_http_shard(c, legacy):
    import requests
    from neuroglancer_scripts.sharded_http_accessor import HttpShard
    from ._common import mk_shard_spec
    H = c.int("header_byte_length", inp=True)
    c.assume(H >= 16)
    return SObj(HttpShard, {"base_url": "http://host/ds/key/", "_session": requests.Session(), "shard_key_str": "0a",
                            "is_legacy": legacy, "can_read_cmc": True, "header_byte_length": H,
                            "shard_spec": mk_shard_spec(c)}), H


@register
class HttpShardReadBytes(Contract):
    """server behaviours for a Range GET: failure | status >= 400 | 2xx with a body of any length
    (honest range, short or over-long reply)"""
    target = HS + "read_bytes"
    props = ("C14", "C18")
    use_at_call_sites = False
    configs = ("modern", "legacy")

    def setup(self, c, cfg):
        self.cfg = cfg
        self.obj, self.H = mk_http_shard(c, cfg == "legacy")
        self.off = c.int("offset", inp=True)
        self.ln = c.int("length", inp=True)
        c.assume(And(self.off >= 0, self.ln >= 1))
        return (self.obj, self.off, self.ln), {}

    def bind(self, fn, args, kwargs):
        return {}

    def _req(self, c):
        log = get_http().log
        if len(log) != 1 or log[0][0] != "GET":
            return None
        return log[0]

    def ensures(self, c, result):
        req = self._req(c)
        yield ("one-ranged-GET", req is not None and "Range" in req[2])
        if req is None:
            return
        o = get_http().entries[0][1]
        yield ("returns-only-a-body-of-exactly-the-requested-length", And(Not(o["fails"]), o["status"] < 400, o["body"].len == self.ln))
        if self.cfg == "modern":
            yield ("reads-<shard>.shard", req[1] == "http://host/ds/key/0a.shard")
            exp_off = self.off
        else:
            in_index = self.off < self.H
            yield ("legacy:index-part-from-.index,data-part-from-.data",
                   ite(in_index, 1, 0) == (1 if req[1].endswith(".index") else 0) if req[1].endswith((".index", ".data")) else False)
            exp_off = ite(in_index, self.off, self.off - self.H)
        want = fmt("bytes={}-{}", exp_off, exp_off + self.ln - 1)
        yield ("Range-header-is-bytes=offset-(offset+length-1)", str_eq(req[2]["Range"], want))
        l, b = result.eq_bytes(o["body"]) if isinstance(result, SBytes) else (False, False)
        yield ("returns-the-served-range:length", l)
        yield ("returns-the-served-range:content", b)

    def check_raise(self, c, exc, b, cfg):
        import requests
        from neuroglancer_scripts.sharded_base import ShardedIOError
        c.prove(f"failure-is-an-I/O-or-HTTP-error:{type(exc).__name__}",
                isinstance(exc, (ShardedIOError, requests.exceptions.RequestException)), kind="exc")
        ent = get_http().entries
        if ent:
            o = ent[0][1]
            c.prove("fails-only-on-connection-failure,HTTP-error-or-a-reply-of-the-wrong-length",
                    Or(o["fails"], o["status"] >= 400, o["body"].len != self.ln), kind="exc")


@register
class HttpShardFileExists(Contract):
    target = HS + "file_exists"
    props = ("C14",)
    use_at_call_sites = False

    def setup(self, c, cfg):
        self.obj, _ = mk_http_shard(c, False)
        return (self.obj, "0a.shard"), {}

    def bind(self, fn, args, kwargs):
        return {}

    def ensures(self, c, result):
        o = get_http().entries[0][1]
        st = o["status"]
        yield ("probes-base_url+name-with-HEAD", get_http().log[0][:2] == ("HEAD", "http://host/ds/key/0a.shard"))
        yield ("True-iff-200", (result == (st == 200)) if isinstance(result, SBool) else ((st == 200) if result else (st != 200)))
        yield ("answers-False-only-for-404-or-non-error-statuses", Or(st == 200, st == 404, st < 400))

    def check_raise(self, c, exc, b, cfg):
        import requests
        c.prove(f"failure-is-an-HTTP-error:{type(exc).__name__}", isinstance(exc, requests.exceptions.RequestException), kind="exc")


# --------------------------------------------------------------------------- dispatch

SHARDED_INFO = b'{"type":"image","data_type":"uint8","num_channels":1,"scales":[{"key":"k","size":[4,4,4],"chunk_sizes":[[4,4,4]],"encoding":"raw","resolution":[1,1,1],"voxel_offset":[0,0,0],"sharding":{"@type":"neuroglancer_uint64_sharded_v1","minishard_bits":0,"shard_bits":0,"hash":"identity","minishard_index_encoding":"raw","data_encoding":"raw","preshift_bits":0}}]}'
PLAIN_INFO = b'{"type":"image","data_type":"uint8","num_channels":1,"scales":[{"key":"k","size":[4,4,4],"chunk_sizes":[[4,4,4]],"encoding":"raw","resolution":[1,1,1],"voxel_offset":[0,0,0]}]}'
MIXED_INFO = PLAIN_INFO[:-2] + b',{"key":"k2","size":[2,2,2],"chunk_sizes":[[2,2,2]],"encoding":"raw","resolution":[2,2,2],"voxel_offset":[0,0,0],"sharding":{"@type":"neuroglancer_uint64_sharded_v1"}}]}'


# file URLs: the path is percent-decoded and nothing else (RFC 8089 / RFC 3986: '+' is a literal plus sign)
FILE_URL_DECODING = {"file:///data/t1+t2": "/data/t1+t2", "file:///data/a%20b": "/data/a b", "file:///data/a%2Bb": "/data/a+b",
                     "precomputed://file:///data/x+y/z": "/data/x+y/z", "/data/plain+name": "/data/plain+name"}


@register
class GetAccessorForUrl(Contract):
    """sharded reader exactly when the dataset's info declares sharding (every scale); option plumbing"""
    target = "neuroglancer_scripts.accessor.get_accessor_for_url"
    name = "get_accessor_for_url[body]"
    props = ("C14", "C12")
    use_at_call_sites = False
    configs = tuple(itertools.product(("/data/dataset", "file:///data/dataset", "precomputed://file:///data/dataset",
                                       "http://host/ds", "precomputed://https://host/ds/"),
                                      ("sharded", "plain", "mixed", "missing", "garbage", "noscales", "emptyscales", "nullsharding"),
                                      ({}, {"flat": True, "gzip": False, "compresslevel": 3}))) + \
        (("ftp://host/x", "missing", {}), ("file://otherhost/data", "missing", {})) + \
        tuple((u, "missing", {}) for u in FILE_URL_DECODING)

    def setup(self, c, cfg):
        url, kind, opts = cfg
        self.cfg = cfg
        content = {"sharded": SHARDED_INFO, "plain": PLAIN_INFO, "mixed": MIXED_INFO, "garbage": b"{not json",
                   "noscales": b'{"@type": "neuroglancer_legacy_mesh"}',
                   # a scale that says explicitly that it is not sharded (JSON null): a plain dataset
                   "nullsharding": PLAIN_INFO[:-3] + b',"sharding":null}]}',
                   "emptyscales": b'{"type":"image","data_type":"uint8","num_channels":1,"scales":[]}'}.get(kind)
        if "http" in url:
            w = get_http()
            body = SBytes.from_concrete(content) if content is not None else SBytes.from_concrete(b"")
            for u in ("http://host/ds/info", "https://host/ds/info"):
                w.entries.append((u, {"fails": False, "status": 200 if content is not None else 404, "body": body}))
        else:
            fs = get_fs()
            fs.unseen_paths_absent = url in FILE_URL_DECODING        # an otherwise empty file system: no info anywhere
            e = fsmodel.FSEntry(BASE + "/info", content is not None, SBytes.from_concrete(content) if content is not None else None)
            fs.entries.append(e)
            fs.entries.append(fsmodel.FSEntry(BASE + "/info.gz", False, None))
        return (url, dict(opts)), {}

    def bind(self, fn, args, kwargs):
        return {}

    def ensures(self, c, result):
        from neuroglancer_scripts import file_accessor, http_accessor, sharded_file_accessor, sharded_http_accessor
        url, kind, opts = self.cfg
        yield ("supported-scheme", "ftp" not in url and "otherhost" not in url)
        http = "http" in url
        want = {(False, True): sharded_file_accessor.ShardedFileAccessor, (False, False): file_accessor.FileAccessor,
                (True, True): sharded_http_accessor.ShardedHttpAccessor, (True, False): http_accessor.HttpAccessor}[(http, kind == "sharded")]
        yield ("sharded-reader-exactly-when-every-scale-of-the-info-declares-sharding", isinstance(result, SObj) and result.cls is want)
        if isinstance(result, SObj) and result.cls is file_accessor.FileAccessor:
            a = result.attrs
            yield ("options-passed-on(flat,gzip,compresslevel)",
                   a.get("gzip") == opts.get("gzip", True) and a.get("compresslevel") == opts.get("compresslevel", 9)
                   and ("_" in a.get("chunk_pattern", "")) == bool(opts.get("flat", False)))
            yield ("base-path==the-percent-decoded-path-of-the-URL", str(a.get("base_path")) == FILE_URL_DECODING.get(url, BASE))

    def raises_when(self, c):
        from neuroglancer_scripts.accessor import URLError
        url = self.cfg[0]
        return [(URLError, "ftp" in url or "otherhost" in url)]


# --------------------------------------------------------------------------- known finding carrier

def _fake_session(root):
    """static file server over a directory, as a requests.Session look-alike (native witness only)"""
    import pathlib

    class Resp:
        def __init__(self, status, content=b""):
            self.status_code, self.content = status, content

        def raise_for_status(self):
            import requests
            if self.status_code >= 400:
                raise requests.exceptions.HTTPError(str(self.status_code))

    class Sess:
        def _path(self, url):
            return pathlib.Path(root) / url.split("http://host/", 1)[1]

        def head(self, url, **kw):
            return Resp(200 if self._path(url).is_file() else 404)

        def get(self, url, headers=None, **kw):
            p = self._path(url)
            if not p.is_file():
                return Resp(404)
            data = p.read_bytes()
            rng = (headers or {}).get("Range")
            if rng:
                a, b = rng.split("=")[1].split("-")
                return Resp(206, data[int(a):int(b) + 1])
            return Resp(200, data)
    return Sess()


@register
class FindingHttpShardFetch(Lemma):
    name = "finding:C14-httpshard-fetch"
    props = ("C14",)

    def run(self, c, cfg):
        c.prove("finding-carrier(HttpShard.fetch_cmc_chunk)", True)

    def witness(self, finding):
        import copy
        import json
        import tempfile
        import numpy as np
        from neuroglancer_scripts.sharded_base import ShardSpec
        from neuroglancer_scripts.sharded_file_accessor import ShardedFileAccessor
        from neuroglancer_scripts.sharded_http_accessor import HttpShard
        info = json.loads(SHARDED_INFO)
        with tempfile.TemporaryDirectory() as td:
            acc = ShardedFileAccessor(td, strategy="in memory")
            acc.info = copy.deepcopy(info)
            acc.store_chunk(b"payload", "k", (0, 4, 0, 4, 0, 4))
            acc.close()
            shard = HttpShard("http://host/k/", _fake_session(td), np.uint64(0), ShardSpec(0, 0))
            try:
                got = shard.fetch_cmc_chunk(np.uint64(0))
                return got != b"payload", f"HttpShard.fetch_cmc_chunk returned {got!r}"
            except AssertionError:
                return True, "HttpShard.fetch_cmc_chunk(0) on a served shard holding chunk 0: AssertionError (minishard_dict is never filled; populate_minishard_dict fills ro_minishard_dict)"


# ---- native replay adapters (scenario sweeps on the real code, contracts/_native.py)

from . import _native  # noqa: E402


def _use(fn):
    return lambda self, model, cfg, ob_name: fn()


for _cls in (HttpAccessorInit, HttpFetchFile, HttpFileExists, HttpFetchChunk):
    _cls.replay = _use(_native.http_sweep)
    # when the unit is undecided (e.g. the code starts using parts of `requests` the model does not have: streams, headers),
    # the native sweep -- fake sessions plus a loopback server emulating gzip_static -- runs as its BOUNDED fallback
    _cls.bounded_models = lambda self, cfg, tier: iter([{}])
    _cls.bounded_bound = "native sweep of contracts/_native.py: 5 RequestException kinds, statuses 200/403/404/500, loopback gzip_static server"
GetAccessorForUrl.replay = _use(_native.dispatch_sweep)
GetAccessorForUrl.bounded_models = lambda self, cfg, tier: iter([{}])
GetAccessorForUrl.bounded_bound = "native sweep: six info layouts x two URL spellings over a fake session"
