"""Native scenario sweeps used as replay adapters by contracts whose counter-models live in a library model
(file system, HTTP, nibabel) and therefore do not translate into a single function argument: each sweep runs
the REAL code on real temporary files / fake sessions over a small catalogue of scenarios chosen to cover the
clauses of the contract, and reports the first scenario that contradicts the clause.  A sweep that finds
nothing returns reproduced=False (the VIOLATION line then ends with no-failing-input-found)."""
import contextlib
import copy
import gzip
import io
import json
import os
import pathlib
import tempfile
from unittest import mock

import numpy as np


def _res(bad, ok="no scenario of the sweep fails"):
    return {"reproduced": bool(bad), "detail": bad[0] if bad else ok}


# --------------------------------------------------------------------------- C12 / C18: files

NAMES = ("info", "mesh/12:0", "mesh/17.frag", "transform.v2", "a.b.c/d.e")


def files_sweep():
    """FileAccessor store/fetch/exists over names with dots, both gzip settings and layouts; fetch of the
    four documented chunk names by accessors of every configuration; refusals of escaping names"""
    from neuroglancer_scripts.accessor import DataAccessError
    from neuroglancer_scripts.file_accessor import FileAccessor
    bad = []
    for gz in (True, False):
        for flat in (True, False):
            with tempfile.TemporaryDirectory() as td:
                acc = FileAccessor(td, flat=flat, gzip=gz)
                for i, name in enumerate(NAMES):
                    payload = (name.encode() + b"\x00payload") * (i + 2)
                    for mime in ("application/octet-stream", "application/json"):
                        try:
                            acc.store_file(name, payload, mime_type=mime, overwrite=True)
                            if not acc.file_exists(name):
                                bad.append(f"gzip={gz} flat={flat}: file_exists({name!r}) is False right after store_file")
                            got = acc.fetch_file(name)
                            if got != payload:
                                bad.append(f"gzip={gz} flat={flat}: fetch_file({name!r}) returns {got[:30]!r}... instead of the stored bytes")
                        except Exception as e:
                            bad.append(f"gzip={gz} flat={flat} mime={mime}: store/fetch of {name!r} raises {e!r}")
                # a sibling whose name is the stem of another stored name must not be confused with it
                try:
                    acc.store_file("mesh/17", b"sibling", overwrite=True)
                    if acc.fetch_file("mesh/17.frag") == b"sibling":
                        bad.append(f"gzip={gz} flat={flat}: fetch_file('mesh/17.frag') returns the bytes of 'mesh/17'")
                except Exception as e:
                    bad.append(f"gzip={gz} flat={flat}: sibling scenario raises {e!r}")
                cc = (0, 64, 64, 128, 0, 7)
                acc.store_chunk(b"chunk-bytes", "key", cc, overwrite=True)
                for gz2 in (True, False):
                    for flat2 in (True, False):
                        try:
                            if FileAccessor(td, flat=flat2, gzip=gz2).fetch_chunk("key", cc) != b"chunk-bytes":
                                bad.append(f"chunk stored with gzip={gz} flat={flat} read back differently with gzip={gz2} flat={flat2}")
                        except Exception as e:
                            bad.append(f"chunk stored with gzip={gz} flat={flat}: fetch with gzip={gz2} flat={flat2} raises {e!r}")
                try:
                    acc.store_chunk(b"other", "key", cc, overwrite=False)
                    bad.append(f"gzip={gz} flat={flat}: store_chunk without overwrite replaced an existing chunk")
                except DataAccessError:
                    pass
                except Exception as e:
                    bad.append(f"store_chunk on an existing chunk raises {e!r}")
    return _res(bad)


def confinement_sweep():
    """names that resolve outside the dataset directory are refused by both file accessors"""
    from neuroglancer_scripts.file_accessor import FileAccessor
    from neuroglancer_scripts.sharded_file_accessor import ShardedFileAccessor
    bad = []
    with tempfile.TemporaryDirectory() as top:
        base = os.path.join(top, "dataset")
        outside = os.path.join(top, "outside.txt")
        open(outside, "wb").write(b"secret")
        for mk, label in ((lambda: FileAccessor(base), "FileAccessor"), (lambda: ShardedFileAccessor(base), "ShardedFileAccessor")):
            with contextlib.redirect_stdout(io.StringIO()):
                acc = mk()
            for name in ("../outside.txt", outside, "a/../../outside.txt"):
                for op in ("fetch_file", "file_exists", "store_file"):
                    try:
                        r = getattr(acc, op)(name, b"overwritten", overwrite=True) if op == "store_file" else getattr(acc, op)(name)
                    except ValueError:
                        continue
                    except Exception as e:
                        bad.append(f"{label}.{op}({name!r}) raises {e!r} instead of ValueError")
                        continue
                    bad.append(f"{label}.{op}({name!r}) is not refused (returned {r!r}); the file outside now holds {open(outside, 'rb').read()!r}")
    return _res(bad)


def faults_sweep():
    """corrupt / truncated .gz files and failing probes must surface as DataAccessError"""
    from neuroglancer_scripts.accessor import DataAccessError
    from neuroglancer_scripts.file_accessor import FileAccessor
    bad = []
    cc = (0, 64, 0, 64, 0, 64)
    full = gzip.compress(bytes(range(256)) * 40)
    corrupt = bytearray(full)
    corrupt[20:40] = b"\xff" * 20
    variants = {"truncated": full[:len(full) // 2], "header-only": full[:10], "corrupt deflate body": bytes(corrupt), "not gzip": b"plain text"}
    for label, content in variants.items():
        with tempfile.TemporaryDirectory() as td:
            acc = FileAccessor(td, flat=True, gzip=True)
            acc.store_chunk(b"x" * 100, "key", cc)
            p = next(pathlib.Path(td).rglob("*.gz"))
            p.write_bytes(content)
            for op, call in (("fetch_chunk", lambda: acc.fetch_chunk("key", cc)),):
                try:
                    call()
                    bad.append(f"{op} of a {label} .gz returns normally")
                except DataAccessError:
                    pass
                except Exception as e:
                    bad.append(f"{op} of a chunk .gz that is {label}: {type(e).__name__} escapes instead of DataAccessError")
            acc.store_file("info", b"{}" * 50, mime_type="application/json")
            pi = pathlib.Path(td) / "info.gz"
            if pi.exists():
                pi.write_bytes(content)
                try:
                    acc.fetch_file("info")
                    bad.append(f"fetch_file of a {label} info.gz returns normally")
                except DataAccessError:
                    pass
                except Exception as e:
                    bad.append(f"fetch_file of an info.gz that is {label}: {type(e).__name__} escapes instead of DataAccessError")
    # a failing second probe (<name>.gz) of file_exists
    with tempfile.TemporaryDirectory() as td:
        acc = FileAccessor(td)
        real = pathlib.Path.is_file

        def flaky(self, *a, **k):
            if str(self).endswith(".gz"):
                raise PermissionError(13, "Permission denied")
            return real(self, *a, **k)
        with mock.patch.object(pathlib.Path, "is_file", flaky):
            try:
                acc.file_exists("info")
                bad.append("file_exists returns normally although probing <name>.gz failed")
            except DataAccessError:
                pass
            except Exception as e:
                bad.append(f"file_exists when probing <name>.gz fails with EACCES: {type(e).__name__} escapes instead of DataAccessError")
    return _res(bad)


# --------------------------------------------------------------------------- C14: HTTP

class _Resp:
    def __init__(self, status, content=b""):
        self.status_code, self.content = status, content

    def raise_for_status(self):
        import requests
        if self.status_code >= 400:
            raise requests.exceptions.HTTPError(str(self.status_code))


def http_sweep():
    """HttpAccessor against a fake session: served bytes, statuses, and every kind of RequestException"""
    import requests
    from neuroglancer_scripts.accessor import DataAccessError
    from neuroglancer_scripts.http_accessor import HttpAccessor
    bad = []
    excs = [requests.exceptions.ConnectionError("reset"), requests.exceptions.Timeout("t"),
            requests.exceptions.ChunkedEncodingError("body cut"), requests.exceptions.TooManyRedirects("loop"),
            requests.exceptions.ContentDecodingError("gzip")]
    for url, want in (("http://host/ds", "http://host/ds/"), ("http://host", "http://host/"), ("https://h:1/a/b?x=1#f", "https://h:1/a/b/")):
        try:
            if HttpAccessor(url).base_url != want:
                bad.append(f"HttpAccessor({url!r}).base_url == {HttpAccessor(url).base_url!r}, expected {want!r}")
        except Exception as e:
            bad.append(f"HttpAccessor({url!r}) raises {e!r}")
    acc = HttpAccessor("http://host/ds")
    for e in excs:
        class S:
            def get(self, url, **kw):
                raise e

            def head(self, url, **kw):
                raise e
        acc._session = S()
        for op, call in (("fetch_file", lambda: acc.fetch_file("info")), ("fetch_chunk", lambda: acc.fetch_chunk("k", (0, 1, 0, 1, 0, 1))),
                         ("file_exists", lambda: acc.file_exists("info"))):
            try:
                call()
                bad.append(f"{op} returns normally although the request raised {type(e).__name__}")
            except DataAccessError:
                pass
            except Exception as x:
                bad.append(f"HttpAccessor.{op}: the request raises {type(e).__name__} (a RequestException) and {type(x).__name__} escapes instead of DataAccessError")
    for status in (200, 404, 403, 500):
        class S2:
            def get(self, url, **kw):
                return _Resp(status, b"served:" + url.encode())

            def head(self, url, **kw):
                return _Resp(status)
        acc._session = S2()
        try:
            got = acc.fetch_file("info")
            if status != 200 or got != b"served:http://host/ds/info":
                bad.append(f"fetch_file with status {status} returns {got!r}")
        except DataAccessError:
            if status == 200:
                bad.append("fetch_file raises DataAccessError on status 200")
        except Exception as x:
            bad.append(f"fetch_file with status {status}: {type(x).__name__} escapes")
    bad += _gzip_static_loopback()
    return _res(bad)


def _gzip_static_loopback():
    """a real requests session against a loopback server that serves <name>.gz under <name> with
    'Content-Encoding: gzip', as docs/serving-data.rst prescribes (nginx gzip_static / Apache AddEncoding):
    the accessor must return the file's bytes, not the gzip stream"""
    import gzip
    import http.server
    import threading
    from neuroglancer_scripts.http_accessor import HttpAccessor
    payload = bytes(range(256)) * 2
    files = {"/ds/k/0-8_0-8_0-8": (gzip.compress(payload), True), "/ds/info": (b'{"scales": []}', False)}

    class H(http.server.BaseHTTPRequestHandler):
        def do_GET(self):
            ent = files.get(self.path)
            if ent is None:
                self.send_error(404)
                return
            self.send_response(200)
            if ent[1]:
                self.send_header("Content-Encoding", "gzip")
            self.send_header("Content-Length", str(len(ent[0])))
            self.end_headers()
            self.wfile.write(ent[0])

        def log_message(self, *a):
            pass
    bad = []
    try:
        srv = http.server.ThreadingHTTPServer(("127.0.0.1", 0), H)
    except OSError:
        return bad                                   # no loopback interface: scenario skipped
    th = threading.Thread(target=srv.serve_forever, daemon=True)
    th.start()
    try:
        acc = HttpAccessor(f"http://127.0.0.1:{srv.server_address[1]}/ds")
        try:
            got = acc.fetch_chunk("k", (0, 8, 0, 8, 0, 8))
            if got != payload:
                bad.append(f"fetch_chunk of a chunk served with Content-Encoding: gzip returns {len(got)} bytes starting {bytes(got[:2]).hex()} "
                           f"instead of the {len(payload)} bytes of the file")
            if acc.fetch_file("info") != files["/ds/info"][0]:
                bad.append("fetch_file('info') over a loopback server returns other bytes than served")
        except Exception as e:
            bad.append(f"reading from a loopback static server (gzip_static emulation) raises {e!r}")
    finally:
        srv.shutdown()
        srv.server_close()
    return bad


def dispatch_sweep():
    """get_accessor_for_url over http: sharded reader exactly when every scale declares sharding"""
    from neuroglancer_scripts import accessor, http_accessor, sharded_http_accessor
    sh = {"@type": "neuroglancer_uint64_sharded_v1", "minishard_bits": 0, "shard_bits": 0, "hash": "identity",
          "minishard_index_encoding": "raw", "data_encoding": "raw", "preshift_bits": 0}
    sc = {"key": "k", "size": [4, 4, 4], "chunk_sizes": [[4, 4, 4]], "encoding": "raw", "resolution": [1, 1, 1], "voxel_offset": [0, 0, 0]}
    infos = {"sharded": ({"type": "image", "data_type": "uint8", "num_channels": 1, "scales": [dict(sc, sharding=sh)]}, True),
             "plain": ({"type": "image", "data_type": "uint8", "num_channels": 1, "scales": [sc]}, False),
             "mesh info without scales": ({"@type": "neuroglancer_legacy_mesh"}, False),
             "empty scales": ({"type": "image", "data_type": "uint8", "num_channels": 1, "scales": []}, False),
             "explicit null sharding": ({"type": "image", "data_type": "uint8", "num_channels": 1, "scales": [dict(sc, sharding=None)]}, False),
             "mixed": ({"type": "image", "data_type": "uint8", "num_channels": 1, "scales": [sc, dict(sc, key="k2", sharding=sh)]}, False)}
    bad = []
    for label, (info, want_sharded) in infos.items():
        body = json.dumps(info).encode()

        def fake_get(self, url, **kw):
            return _Resp(200, body)
        with mock.patch("requests.Session.get", fake_get):
            for url in ("http://host/ds", "precomputed://https://host/ds/"):
                try:
                    a = accessor.get_accessor_for_url(url, {})
                except Exception as e:
                    bad.append(f"get_accessor_for_url({url!r}) with a {label} info raises {e!r}")
                    continue
                is_sh = isinstance(a, sharded_http_accessor.ShardedHttpAccessor)
                if is_sh != want_sharded or not isinstance(a, http_accessor.HttpAccessor):
                    bad.append(f"get_accessor_for_url({url!r}) with a {label} info returns {type(a).__name__}")
    return _res(bad)


def sharded_http_plumbing_sweep():
    """ShardedHttpAccessor.fetch_chunk builds its reader from every sharding field of the requested scale"""
    from neuroglancer_scripts.sharded_http_accessor import ShardedHttpAccessor
    bad = []
    for mb, sb, pb in ((1, 2, 3), (0, 0, 2), (3, 1, 0)):
        sh = {"@type": "neuroglancer_uint64_sharded_v1", "minishard_bits": mb, "shard_bits": sb, "hash": "identity",
              "minishard_index_encoding": "raw", "data_encoding": "gzip", "preshift_bits": pb}
        info = {"type": "image", "data_type": "uint8", "num_channels": 1, "scales": [
            {"key": "k0", "size": [8, 8, 8], "chunk_sizes": [[1, 1, 1]], "encoding": "raw", "resolution": [1, 1, 1], "voxel_offset": [0, 0, 0],
             "sharding": dict(sh, minishard_bits=0, shard_bits=0, preshift_bits=0)},
            {"key": "k1", "size": [16, 8, 8], "chunk_sizes": [[2, 2, 2]], "encoding": "raw", "resolution": [2, 2, 2], "voxel_offset": [0, 0, 0], "sharding": sh}]}
        body = json.dumps(info).encode()
        with mock.patch("requests.Session.get", lambda self, url, **kw: _Resp(200, body)):
            acc = ShardedHttpAccessor("http://host/ds")
        seen = {}

        def fake_fetch(self, chunk_coords):
            seen["scale"] = self
            return b""
        with mock.patch("neuroglancer_scripts.sharded_base.ShardedScaleBase.fetch_chunk", fake_fetch):
            acc.fetch_chunk("k1", (0, 2, 0, 2, 0, 2))
        sp = seen["scale"].shard_spec
        got = (int(sp.minishard_bits), int(sp.shard_bits), int(sp.preshift_bits), sp.data_encoding)
        if got != (mb, sb, pb, "gzip"):
            bad.append(f"info sharding (minishard_bits, shard_bits, preshift_bits, data_encoding) == {(mb, sb, pb, 'gzip')} but the HTTP reader uses {got}")
    return _res(bad)


# --------------------------------------------------------------------------- C16 / C17: geometry

def transform_sweep():
    """nifti_to_neuroglancer_transform and nibabel_image_to_info on non-symmetric affines"""
    import nibabel as nib
    from neuroglancer_scripts import transform, volume_reader
    bad = []
    rng = np.random.default_rng(5)
    for _ in range(5):
        A = np.eye(4)
        A[:3, :3] = rng.normal(size=(3, 3)) + 2 * np.eye(3)
        A[:3, 3] = rng.normal(size=3) * 10
        vs = np.sqrt((A[:3, :3] ** 2).sum(axis=0))
        M = A.copy()
        T = transform.nifti_to_neuroglancer_transform(M, vs)
        exp = A[:3, 3] - A[:3, :3] @ (0.5 * vs)
        if not np.allclose(T[:3, 3], exp) or not np.allclose(T[:3, :3], A[:3, :3]):
            bad.append(f"nifti_to_neuroglancer_transform: translation {T[:3, 3].tolist()} != translation - R@(voxel_size/2) == {exp.tolist()} for the non-symmetric matrix {A[:3, :3].round(2).tolist()}")
        img = nib.Nifti1Image(np.zeros((3, 4, 5), dtype=np.uint8), A)
        _, Tj, _, _ = volume_reader.nibabel_image_to_info(img)
        Tj = np.array(Tj, dtype=float)
        res = vs * 1e6
        for idx in ((0, 0, 0), (2, 3, 4), (1, 0, 2)):
            ng = Tj @ np.append(res * (np.array(idx) + 0.5), 1.0)
            phys = (A @ np.append(np.array(idx, dtype=float), 1.0)) * 1e6
            if not np.allclose(ng[:3], phys[:3], rtol=1e-9, atol=1e-3):
                bad.append(f"nibabel_image_to_info: voxel centre {idx} maps to {ng[:3].tolist()} nm instead of {phys[:3].tolist()} nm")
                break
    return _res(bad)


def info_dtype_sweep():
    """data_type of the generated info for integer files whose header has a scaling"""
    import struct
    import nibabel as nib
    from neuroglancer_scripts import volume_reader
    bad = []
    with tempfile.TemporaryDirectory() as td:
        for dt in ("uint8", "uint16"):
            p = os.path.join(td, f"{dt}.nii")
            nib.save(nib.Nifti1Image(np.arange(24, dtype=dt).reshape(2, 3, 4), np.eye(4)), p)
            b = bytearray(open(p, "rb").read())
            b[112:120] = struct.pack("<ff", 0.5, -3.0)
            open(p, "wb").write(b)
            img = nib.load(p)
            text, _, in_dtype, imperfect = volume_reader.nibabel_image_to_info(img)
            info = json.loads(text)
            if info["data_type"] == dt:
                bad.append(f"{dt} file with scl_slope 0.5 / scl_inter -3 (values are fractional and negative): info data_type is {info['data_type']!r}, imperfect flag {imperfect}")
    return _res(bad)


def affine_mesh_sweep():
    from neuroglancer_scripts import mesh
    bad = []
    v = np.array([[0, 0, 0], [1, 0, 0], [0, 1, 0], [0, 0, 1]], dtype=float)
    t = np.array([[0, 2, 1], [0, 1, 3], [0, 3, 2], [1, 2, 3]])

    def vol(v, t):
        return sum(np.dot(v[a], np.cross(v[b], v[c])) for a, b, c in t) / 6
    for scale in (1.0, 1e-3, 1e-4):
        for flip in (False, True):
            A = np.eye(4) * scale
            A[3, 3] = 1
            if flip:
                A[0, 0] = -A[0, 0]
            v2, t2 = mesh.affine_transform_mesh(v, t, A)
            d = np.linalg.det(A[:3, :3])
            if np.sign(vol(v2, t2)) != np.sign(vol(v, t)):
                bad.append(f"affine with det {d:.3g}: the transformed closed mesh has signed volume {vol(v2, t2):.3g} (orientation lost; winding reversed: {not np.array_equal(t2, t)})")
    return _res(bad)
